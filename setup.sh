#!/bin/bash
# Offline setup: make sure hypothesis is importable from /venv, and atheris from /verif/.deps.
here="$(cd "$(dirname "${BASH_SOURCE[0]}")" && pwd)"
export PIP_NO_INDEX=1
/venv/bin/python -c "import hypothesis" 2>/dev/null || \
  /venv/bin/pip install --no-index --find-links /opt/veriftools/wheels hypothesis || exit 1
if ! PYTHONPATH="$here/.deps" /venv/bin/python -c "import atheris" 2>/dev/null; then
  /venv/bin/pip install --no-index --find-links /opt/veriftools/wheels --target "$here/.deps" atheris \
    || echo "note: atheris not installed; coverage-guided campaigns are skipped"
fi
/venv/bin/python -c "import hypothesis, networkx; print('setup ok: hypothesis', hypothesis.__version__)"
