#!/bin/bash
# Runs the repository's pinned test-suite with the verification guard OFF and compares
# the passing set with /root/.vp/BASELINE.json (stable_pass).  Exit 0 iff every stable test passes.
unset CNFGEN_VERIF
out="$(mktemp -d)"
( cd "${VERIF_REPO:-/repo}" && /venv/bin/python -m pytest -ra -q -p no:cacheprovider --timeout=900 \
    --continue-on-collection-errors --junitxml="$out/junit.xml" >"$out/log.txt" 2>&1 )
/venv/bin/python - "$out/junit.xml" <<'PY'
import json, sys, xml.etree.ElementTree as ET
base = json.load(open('/root/.vp/BASELINE.json'))
stable = set(base['stable_pass'])
passed = set()
for tc in ET.parse(sys.argv[1]).getroot().iter('testcase'):
    bad = any(ch.tag in ('failure', 'error', 'skipped') for ch in tc)
    if not bad:
        passed.add("{}::{}".format(tc.get('classname'), tc.get('name')))
missing = sorted(stable - passed)
print("stable_pass={} passed_now={} missing={}".format(len(stable), len(passed), len(missing)))
for m in missing[:40]:
    print("  NOT PASSING:", m)
sys.exit(1 if missing else 0)
PY
rc=$?
rm -rf "$out"
exit $rc
