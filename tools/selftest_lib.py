import sys, random, itertools
import os; sys.path.insert(0, os.path.dirname(os.path.dirname(os.path.abspath(__file__))))
from vlib import tt
R=random.Random(5)
for trial in range(300):
    n=R.randint(0,7)
    if n==0:
        assert tt.full(0)==1
        continue
    # random opb constraint
    k=R.randint(0,5)
    terms=[(R.choice([-5,-3,-1,1,2,3,7,12]), R.choice([1,-1])*R.randint(1,n)) for _ in range(k)]
    op=R.choice(['>=','>','<=','<','==','!='])
    d=R.randint(-8,15)
    m=tt.opb_constraint_tt(n, terms+[op,d])
    for a in range(1<<n):
        val=sum(c*(1 if ((a>>(abs(l)-1))&1)==(1 if l>0 else 0) else 0) for c,l in terms)
        truth={'>=':val>=d,'>':val>d,'<=':val<=d,'<':val<d,'==':val==d,'!=':val!=d}[op]
        assert bool((m>>a)&1)==truth,(n,terms,op,d,a)
    cls=[[R.choice([1,-1])*R.randint(1,n) for _ in range(R.randint(0,3))] for _ in range(R.randint(0,4))]
    m=tt.cnf_tt(n,cls)
    for a in range(1<<n):
        truth=all(any(((a>>(abs(l)-1))&1)==(1 if l>0 else 0) for l in c) for c in cls)
        assert bool((m>>a)&1)==truth
    masks=[tt.lit_mask(n,R.choice([1,-1])*R.randint(1,n)) for _ in range(R.randint(0,6))]
    kk=R.randint(-1,7)
    al=tt.at_least(n,masks,kk); am=tt.at_most(n,masks,kk); ex=tt.exactly(n,masks,kk)
    for a in range(1<<n):
        c=sum((mm>>a)&1 for mm in masks)
        assert bool((al>>a)&1)==(c>=kk) and bool((am>>a)&1)==(c<=kk) and bool((ex>>a)&1)==(c==kk)
print("tt ok")
from vlib import sat
for trial in range(600):
    n=R.randint(1,9)
    m=R.randint(0,3*n)
    cls=[[R.choice([1,-1])*R.randint(1,n) for _ in range(R.randint(0 if trial%10==0 else 1,3))] for _ in range(m)]
    t=tt.cnf_tt(n,cls)
    assert sat.count(n,cls)==tt.popcount(t),(n,cls)
    mod=sat.solve(n,cls)
    assert (mod is not None)==(t!=0)
    if mod:
        a=sum(1<<(abs(l)-1) for l in mod if l>0)
        assert (t>>a)&1
print("sat ok")
