#!/usr/bin/env python3
"""Regenerates /verif/MANIFEST.json from the table below and validates it.

A property is claimed iff checks/cNN.py exists; the others are listed under
not_applicable with the reason given in PENDING/NOT_APPLICABLE.
"""
import json
import os
import subprocess
import sys

HERE = os.path.dirname(os.path.dirname(os.path.abspath(__file__)))

CHECKS = {
    "C01": ("truth-table model-set equality against reference predicates + encoding-free counts; exhaustive small graphs + Hypothesis",
            "Every instance explored is decided for all 2^n assignments (bit-parallel truth table, <=22 variables) against a reference predicate written from the documentation and an encoding-free object count; parameters/graphs are enumerated completely in small scopes and sampled by Hypothesis beyond.",
            "Reference predicates in checks/c01.py are the trusted base; above ~22 variables (up to ~1000) the same predicates are compared on sampled assignments only (models found by a bounded DPLL, their neighbours, random rows)."),
    "C02": ("brute-force graph witnesses vs truth-table model counts; exhaustive graphs <=4/5 vertices + Hypothesis",
            "For every labelled graph in the explored scope the model count / satisfiability of the formula (complete truth table) is compared with a brute-force count of the witnesses on the graph.",
            "Brute-force witness counters are the trusted base; graphs with 8..40 vertices are covered by sampled assignments, candidate maps and restricted satisfiability (sub-check large), not completely."),
    "C03": ("reference axiom generators (set equality of clauses by variable name) + truth-table/DPLL unsatisfiability + colouring counts",
            "Clause sets are compared with axiom lists regenerated from the documentation, unsatisfiability is decided by complete truth table or DPLL on every instance explored.",
            "Reference axiom generators and the small DPLL in vlib/sat.py are trusted; large instances (OP up to 13 elements, pebbling up to 60 vertices) are compared clause by clause, satisfiability only where a bounded DPLL decides it; unbounded N is not proved."),
    "C04": ("exhaustive enumeration + Hypothesis, bit-parallel arithmetic oracle over all assignments",
            "All polarity patterns up to 6 literals x all operators x all constants x containers x both formula classes are enumerated completely and every assignment is compared with the stated arithmetic; mappings likewise on all small shapes.",
            "The arithmetic oracle in vlib/tt.py (self-tested against naive evaluation) is trusted; literal lists of 9..18 literals are compared on sampled assignments around the threshold only."),
    "C05": ("metamorphic gadget composition G(b)==F(gadget(b)) on all assignments; Hypothesis over CNFs x transformations",
            "For each generated CNF and transformation, every assignment of the new variables is compared (bit-parallel) with F evaluated on the gadget-induced assignment.",
            "Independent gadget definitions in checks/c05.py are trusted; <=20 new variables completely, wider gadgets (arity up to 33) on sampled assignments."),
    "C06": ("round-trip + reference DIMACS reader differential; Hypothesis grammar/mutators and atheris campaign",
            "Writer output is parsed by an independent strict reader and by the tree's reader; arbitrary/mutated texts are classified by a reference interpretation and the reader must agree or raise ValueError.",
            "The reference reader in vlib/readers.py is trusted; gray spellings of integers are accepted either way."),
    "C07": ("metamorphic same-argv-same-bytes: in-process with perturbed global RNG, and fresh sub-processes with different PYTHONHASHSEED / cwd",
            "Generated command lines covering every random source are run twice (disturbed generator) and across processes; outputs must be byte-identical.",
            "PYTHONHASHSEED and process variety is sampled."),
    "C08": ("differential CNF-class vs OPB-class: names equal and complete truth tables equal",
            "Every family at generated parameters is built with both classes (library and both CLIs) and compared on all assignments.",
            "<=22 variables per instance completely; realistic sizes on sampled assignments (sub-check large)."),
    "C09": ("witness verification (hook H2 / search) + reference implementation for explicit arguments; Hypothesis",
            "Shuffle results are checked against a verified witness (signed renaming + clause permutation) and against a reference implementation when arguments are explicit; invalid arguments must raise ValueError.",
            "Hook H2 only exposes the witness; it is verified independently."),
    "C10": ("invariant over generated formulas at realistic sizes + rule-based state machine with freshness hook H1",
            "Every literal in range, declared count equals the documented formula, no freshness event in histories of group creation and clause insertion.",
            "Documented variable counts are re-derived in the harness; hook H1 records reuse events."),
    "C11": ("reference enumeration of indices (itertools) + rule-based machine over group creation histories",
            "Index<->identifier bijection, enumeration order, wildcard patterns and name alignment are compared with an independent enumeration for every generated shape/history.",
            "Reference enumerations in checks/c11.py."),
    "C12": ("independent OPB reader / LaTeX row parser differential against in-memory rows; Hypothesis",
            "Each rendering is parsed by an independent parser and compared row by row with the formula.",
            "Parsers in vlib/readers.py are trusted."),
    "C13": ("complete parameter grid x seeds, brute-force count of compatible clauses/parities, GF(2) elimination",
            "For each (k,n,m,planted,seed) the output shape is checked and ValueError must occur exactly when k>n or m exceeds the brute-force maximum.",
            "brute-force maximum for n<=12; closed-form maximum (cross-checked against brute force for n<=7) up to 256 variables."),
    "C14": ("round-trip over generated graphs x formats + reference readers on mutated texts; atheris campaign",
            "Write/read round trip compared structurally; mutated texts must give the reference reading or ValueError.",
            "Reference readers in vlib/readers.py."),
    "C15": ("validity predicates over constructions from boundary-value grammar; Hypothesis",
            "Each accepted graph specification is checked against the structure it names; out-of-range requests must raise ValueError.",
            "Structural predicates in checks/c15.py."),
    "C16": ("model-based stateful testing (RuleBasedStateMachine) against a set-of-edges model",
            "Histories of add/remove/update calls with valid and invalid arguments; every view compared with the model after every step.",
            "The set model."),
    "C17": ("differential CLI vs library table; Hypothesis over argv grammar",
            "For generated command lines the parsed formula printed by the tool equals the library call on the saved graph.",
            "The sub-command -> library call table in checks/c17.py."),
    "C18": ("validity predicate over outcomes of generated/hostile argv; in-process emulation + sub-process confirmation; atheris token fuzzing",
            "Every outcome must be a complete document accepted by the strict reader, a help text, or a clean prefixed error.",
            "Strict readers in vlib/readers.py; in-process emulation cross-checked by real sub-processes."),
    "C19": ("snapshot-before/after invariants + header provenance model; Hypothesis over transformation chains and builder arguments",
            "Inputs deep-compared before/after each call; header entries checked against a model of the chain.",
            "Snapshots compare public views."),
    "C20": ("scripted fake solvers x answer shapes x interfaces; Hypothesis",
            "The bridge is exercised against generated solver scripts; verdict, witness, errors and temp files compared with the model.",
            "Fake solvers emulate the three documented I/O conventions; no real solver is installed."),
}

# properties whose check is finished and registered
READY = ["C01", "C02", "C03", "C04", "C05", "C06", "C07", "C08", "C09", "C10", "C11", "C12", "C13", "C14", "C15", "C16", "C17", "C18", "C19", "C20"]

PENDING_REASON = "claimed by the design (PBT/fuzzing applies) but its check is not built yet in this snapshot; see DESIGN.md section 4"

DESIGN_REF = {p: "DESIGN.md section 4, {}".format(p) for p in CHECKS}


def main():
    checks = []
    na = []
    for pid in sorted(CHECKS):
        tech, text, note = CHECKS[pid]
        modfile = os.path.join(HERE, "checks", pid.lower() + ".py")
        if pid not in READY or not os.path.exists(modfile):
            na.append({"property_id": pid, "reason": PENDING_REASON})
            continue
        checks.append({
            "property_id": pid,
            "quick_cmd": "./check {} --tier quick".format(pid),
            "thorough_cmd": "./check {} --tier thorough".format(pid),
            "evidence_file": "/verif/evidence/{}.json".format(pid),
            "replay_cmd_template": "./check {} --replay {{path}}".format(pid),
            "engine": "pbt-runner",
            "level_claimed": {"category": "exploration", "text": text, "design_ref": DESIGN_REF[pid]},
            "level_note": note,
            "technique": tech,
        })
    hooks_commits = []
    hc = os.path.join(HERE, "hooks_commits.txt")
    if os.path.exists(hc):
        hooks_commits = [l.split()[0] for l in open(hc) if l.strip() and not l.startswith("#")]
    man = {
        "version": 1,
        "setup_cmd": "./setup.sh",
        "hooks": {
            "guard": "CNFGEN_VERIF",
            "enable": "environment variable CNFGEN_VERIF=1 (set by ./check); nothing is built, the checks import /repo's working tree",
            "baseline_off_cmd": "/verif/tools/baseline.sh",
            "source_commits": hooks_commits,
            "add_only": True,
        },
        "engines": [
            {"name": "pbt-runner", "path": "vlib/core.py",
             "serves_properties": [c["property_id"] for c in checks],
             "kind_free_text": "Hypothesis-driven and exhaustive small-scope case generation with explicit oracles, sharded over 16 processes; shrunk failures become JSON replay files"},
        ],
        "checks": checks,
        "not_applicable": na,
        "notes": "All checks: ./check CNN --tier quick|thorough ; replay: ./check CNN --replay FILE ; known findings in known_findings.json ; fixes and hooks are separate commits in /repo.",
    }
    path = os.path.join(HERE, "MANIFEST.json")
    with open(path, "w") as f:
        json.dump(man, f, indent=1)
        f.write("\n")
    # validate
    code = ("import json,jsonschema;"
            "jsonschema.validate(json.load(open('{}')), json.load(open('/root/.vp/MANIFEST.schema.json')));"
            "print('MANIFEST valid: {} checks, {} pending')").format(path, len(checks), len(na))
    return subprocess.call(["python3-vt", "-c", code])


if __name__ == "__main__":
    sys.exit(main())
