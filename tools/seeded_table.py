#!/usr/bin/env python3
"""Regenerates the table of seeded breaking changes in DESIGN.md (between the markers
<!-- seeded-table:begin --> and <!-- seeded-table:end -->) from seeded/*/meta.json,
seeded/first_run.json (verdict of the checks as they stood when the change was first evaluated)
and the last verdict recorded for each change in seeded/RESULTS.md."""
import json
import os
import re

HERE = os.path.dirname(os.path.dirname(os.path.abspath(__file__)))


def clip(s, n):
    s = " ".join(str(s).split()).replace("|", "\\|")
    return s if len(s) <= n else s[:n - 1].rsplit(" ", 1)[0] + " ..."


def main():
    sdir = os.path.join(HERE, "seeded")
    first = json.load(open(os.path.join(sdir, "first_run.json")))
    last = {}
    for line in open(os.path.join(sdir, "RESULTS.md")):
        m = re.match(r"\| (C\d\d-\d+) \| C\d\d \| (\S+) \|", line)
        if m:
            last[m.group(1)] = m.group(2)
    rows = []
    for name in sorted(os.listdir(sdir)):
        mp = os.path.join(sdir, name, "meta.json")
        if not os.path.isfile(mp):
            continue
        meta = json.load(open(mp))
        wave = (int(name.split("-")[1]) + 1) // 2
        rows.append("| {} | {} | {} | {} | {} | {} |".format(
            name, wave, clip(meta.get("what", ""), 230), clip(meta.get("needs", ""), 200),
            first.get(name, "?"), last.get(name, "?")))
    table = ["| seeded change | wave | what was changed | what it needs to manifest | first run | now |", "|---|---|---|---|---|---|"] + rows
    n = len(rows)
    miss_first = sum(1 for r in rows if "| MISSED |" in r.rsplit("|", 3)[0] + "|")
    summary = "{} changes; first run: {} caught, {} missed; now: {} caught, {} missed.".format(
        n, sum(1 for k in first if first[k] == "caught"), sum(1 for k in first if first[k] != "caught"),
        sum(1 for k in last if last[k].startswith("caught")), sum(1 for k in last if not last[k].startswith("caught")))
    text = "\n".join(table) + "\n\n" + summary + "\n"
    p = os.path.join(HERE, "DESIGN.md")
    s = open(p).read()
    b, e = "<!-- seeded-table:begin -->", "<!-- seeded-table:end -->"
    i, j = s.index(b) + len(b), s.index(e)
    open(p, "w").write(s[:i] + "\n" + text + s[j:])
    print(summary)


if __name__ == "__main__":
    main()
