#!/bin/bash
# tools/run_all.sh [quick|thorough] : runs every registered check, prints one line per property
tier="${1:-quick}"
cd "$(dirname "$0")/.."
for p in C01 C02 C03 C04 C05 C06 C07 C08 C09 C10 C11 C12 C13 C14 C15 C16 C17 C18 C19 C20; do
  t0=$(date +%s)
  out=$(./check $p --tier $tier 2>&1); rc=$?
  t1=$(date +%s)
  echo "$p exit=$rc $((t1-t0))s $(echo "$out" | grep "^$p tier" | cut -d' ' -f4-6) $(echo "$out" | grep -c "VIOLATION\|HARNESS-ERROR\|WARNING property") issues"
  echo "$out" | grep "VIOLATION\|HARNESS-ERROR\|WARNING property" | cut -c1-300
done
