#!/bin/bash
# Runs every committed replay of the given properties against the pinned (unrepaired) tree:
# each must FAIL there (it documents a defect that a fix: commit repaired).
d=$(mktemp -d)
git -C /repo worktree add -q --detach "$d/pinned" 2ec26de || exit 2
for p in "$@"; do
  for f in /verif/replays/$p/*.json; do
    [ -e "$f" ] || continue
    if VERIF_REPO="$d/pinned" /verif/check $p --replay "$f" >/dev/null 2>&1; then
      echo "$p $(basename $f): passes on the pinned tree (not a reproduction)"
    else
      echo "$p $(basename $f): fails on the pinned tree (ok)"
    fi
  done
done
git -C /repo worktree remove --force "$d/pinned"; rm -rf "$d"
