#!/usr/bin/env python3
"""Mutation self-test: every mutant of a property must turn its quick check red.

usage: tools/selftest.py C01 [C02 ...] [--tier quick] [--with-tests] [--only NAME]

mutants/CNN/<name>.json : {"file": "cnfgen/...", "old": "...", "new": "...", "why": "..."}
                          (exactly one occurrence of old is replaced; "count": k replaces the k-th)
mutants/CNN/<name>.diff : unified diff, applied with `git apply`/patch -p1

Each mutant is applied to a scratch copy of /repo under $TMPDIR (removed afterwards),
the check is run with VERIF_REPO pointing at it and must exit 1 with a VIOLATION line.
With --with-tests the repository's pinned suite is also run on the mutant (it must stay
green, otherwise the mutant is not a 'realistic change that passes the tests').
Results are appended to mutants/RESULTS.md.
"""
import json
import os
import shutil
import subprocess
import sys
import tempfile
import time

HERE = os.path.dirname(os.path.dirname(os.path.abspath(__file__)))
REPO = "/repo"


def make_copy():
    d = tempfile.mkdtemp(prefix="mut_")
    subprocess.check_call(["rsync", "-a", "--exclude", ".git", "--exclude", "__pycache__",
                           "--exclude", "docs", "--exclude", "www", REPO + "/", d + "/"])
    return d


def apply_mutant(path, d):
    if path.endswith(".json"):
        m = json.load(open(path))
        fn = os.path.join(d, m["file"])
        s = open(fn).read()
        cnt = s.count(m["old"])
        k = m.get("count")
        if cnt == 0 or (k is None and cnt != 1):
            raise RuntimeError("{}: pattern occurs {} times in {}".format(path, cnt, m["file"]))
        if k is None:
            s = s.replace(m["old"], m["new"])
        else:
            parts = s.split(m["old"])
            s = m["old"].join(parts[:k]) + m["new"] + m["old"].join(parts[k:])
        open(fn, "w").write(s)
    else:
        subprocess.check_call(["patch", "-s", "-p1", "-d", d, "-i", os.path.abspath(path)])


def main():
    args = sys.argv[1:]
    tier = "quick"
    with_tests = False
    only = None
    props = []
    i = 0
    while i < len(args):
        if args[i] == "--tier":
            tier = args[i + 1]
            i += 2
        elif args[i] == "--with-tests":
            with_tests = True
            i += 1
        elif args[i] == "--only":
            only = args[i + 1]
            i += 2
        else:
            props.append(args[i])
            i += 1
    rows = []
    bad = 0
    for prop in props:
        mdir = os.path.join(HERE, "mutants", prop)
        if not os.path.isdir(mdir):
            continue
        for fn in sorted(os.listdir(mdir)):
            if not (fn.endswith(".json") or fn.endswith(".diff")):
                continue
            if only and only not in fn:
                continue
            d = make_copy()
            try:
                try:
                    apply_mutant(os.path.join(mdir, fn), d)
                except Exception as e:   # noqa
                    rows.append((prop, fn, "MUTANT-DOES-NOT-APPLY", str(e)[:80], 0))
                    print("{:4s} {:40s} MUTANT-DOES-NOT-APPLY {}".format(prop, fn, str(e)[:100]))
                    bad += 1
                    continue
                env = dict(os.environ, VERIF_REPO=d)
                t0 = time.time()
                p = subprocess.run([os.path.join(HERE, "check"), prop, "--tier", tier, "--no-evidence"],
                                   env=env, stdout=subprocess.PIPE, stderr=subprocess.STDOUT, text=True)
                wall = time.time() - t0
                caught = p.returncode == 1 and "VIOLATION property=" + prop in p.stdout
                status = "caught" if caught else ("HARNESS-ERROR" if p.returncode == 2 else "MISSED")
                tests = ""
                if with_tests:
                    q = subprocess.run([os.path.join(HERE, "tools", "baseline.sh")], env=env,
                                       stdout=subprocess.PIPE, stderr=subprocess.STDOUT, text=True)
                    tests = "tests-pass" if q.returncode == 0 else "TESTS-FAIL"
                if not caught:
                    bad += 1
                    sys.stdout.write(p.stdout[-1500:])
                first = [l for l in p.stdout.splitlines() if l.strip().startswith("[")]
                rows.append((prop, fn, status, tests + " " + (first[0][:110] if first else ""), wall))
                print("{:4s} {:40s} {:14s} {:10s} {:.1f}s".format(prop, fn, status, tests, wall))
            finally:
                shutil.rmtree(d, ignore_errors=True)
    with open(os.path.join(HERE, "mutants", "RESULTS.md"), "a") as f:
        f.write("\n## run {} tier={}\n\n".format(time.strftime("%Y-%m-%d %H:%M"), tier))
        for r in rows:
            f.write("* {} `{}` **{}** {} ({:.1f}s)\n".format(*r))
    return 1 if bad else 0


if __name__ == "__main__":
    sys.exit(main())
