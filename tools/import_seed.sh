#!/bin/bash
# tools/import_seed.sh C04 [W2]  : copies /tmp/seed/[W2]C04/SEED/{1,2} into /verif/seeded/C04-{1,2} (wave 2: -{3,4})
p="$1"; w="${2:-}"
for k in 1 2; do
  s=/tmp/seed/$w$p/SEED/$k
  t=$k; [ -n "$w" ] && t=$((k+2))
  if [ -f $s/patch.diff ] && [ -f $s/demo.py ] && [ -f $s/meta.json ]; then
    mkdir -p /verif/seeded/$p-$t && cp $s/patch.diff $s/demo.py $s/meta.json /verif/seeded/$p-$t/ && echo "imported $p-$t"
  else
    echo "incomplete $s"
  fi
done
