#!/bin/bash
# tools/import_seed.sh C04  : copies /tmp/seed/C04/SEED/{1,2} into /verif/seeded/C04-{1,2}
p="$1"
for k in 1 2; do
  s=/tmp/seed/$p/SEED/$k
  if [ -f $s/patch.diff ] && [ -f $s/demo.py ] && [ -f $s/meta.json ]; then
    mkdir -p /verif/seeded/$p-$k && cp $s/patch.diff $s/demo.py $s/meta.json /verif/seeded/$p-$k/ && echo "imported $p-$k"
  else
    echo "incomplete $s"
  fi
done
