#!/bin/bash
# tools/import_seed.sh C04 [W2|W3]  : copies /tmp/seed/[Wn]C04/SEED/{1,2} into /verif/seeded/C04-{1,2} (wave 2: -{3,4}, wave 3: -{5,6}, wave 4: -{7,8})
p="$1"; w="${2:-}"
off=0; [ "$w" = "W2" ] && off=2; [ "$w" = "W3" ] && off=4; [ "$w" = "W4" ] && off=6; [ "$w" = "W5" ] && off=8; [ "$w" = "W6" ] && off=10; [ "$w" = "W7" ] && off=12; [ "$w" = "W8" ] && off=14
for k in 1 2; do
  s=/tmp/seed/$w$p/SEED/$k
  t=$((k+off))
  if [ -f $s/patch.diff ] && [ -f $s/demo.py ] && [ -f $s/meta.json ]; then
    mkdir -p /verif/seeded/$p-$t && cp $s/patch.diff $s/demo.py $s/meta.json /verif/seeded/$p-$t/ && echo "imported $p-$t"
  else
    echo "incomplete $s"
  fi
done
