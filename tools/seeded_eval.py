#!/usr/bin/env python3
"""Evaluates the seeded breaking changes kept under /verif/seeded/<name>/.

For each seeded change (patch.diff, demo.py, meta.json):
  1. demo.py exits 0 on a clean scratch copy of /repo and 1 on the patched copy;
  2. the pinned test-suite still passes on the patched copy (baseline.sh, missing=0);
  3. the quick check of the property named in meta.json (and, with --all, of every
     registered property) is run with VERIF_REPO pointing at the patched copy.
Results go to seeded/RESULTS.md.  Scratch copies live under $TMPDIR and are removed.

usage: tools/seeded_eval.py [--only NAME] [--all] [--tier quick|thorough] [--skip-tests]
"""
import json
import re
import os
import shutil
import subprocess
import sys
import tempfile
import time

HERE = os.path.dirname(os.path.dirname(os.path.abspath(__file__)))
REPO = "/repo"


def copy_repo():
    d = tempfile.mkdtemp(prefix="seeded_")
    subprocess.check_call(["rsync", "-a", "--exclude", ".git", "--exclude", "__pycache__", "--exclude", "www",
                           REPO + "/", d + "/"])
    return d


def run_demo(demo, tree):
    env = dict(os.environ, PYTHONPATH=tree, PYTHONWARNINGS="ignore")
    env.pop("CNFGEN_VERIF", None)
    scratch = tempfile.mkdtemp(prefix="demo_")
    try:
        p = subprocess.run(["/venv/bin/python", os.path.abspath(demo)], env=env, cwd=scratch,
                           stdout=subprocess.PIPE, stderr=subprocess.STDOUT, text=True, timeout=300)
    finally:
        shutil.rmtree(scratch, ignore_errors=True)
    return p.returncode, p.stdout[-400:]


def main():
    args = sys.argv[1:]
    only = None
    allprops = "--all" in args
    skip_tests = "--skip-tests" in args
    tier = "quick"
    if "--only" in args:
        only = args[args.index("--only") + 1]
    if "--tier" in args:
        tier = args[args.index("--tier") + 1]
    man = json.load(open(os.path.join(HERE, "MANIFEST.json")))
    claimed = [c["property_id"] for c in man["checks"]]
    sdir = os.path.join(HERE, "seeded")
    rows = []
    clean = copy_repo()
    try:
        for name in sorted(os.listdir(sdir)):
            d = os.path.join(sdir, name)
            if not os.path.isdir(d) or (only and (only != name if re.fullmatch(r'C\d\d-\d+', only) else only not in name)):
                continue
            meta = json.load(open(os.path.join(d, "meta.json")))
            prop = meta["property"]
            patched = copy_repo()
            try:
                p = subprocess.run(["patch", "-s", "-p1", "-d", patched, "-i", os.path.join(d, "patch.diff")],
                                   stdout=subprocess.PIPE, stderr=subprocess.STDOUT, text=True)
                if p.returncode != 0:
                    rows.append((name, prop, "PATCH-DOES-NOT-APPLY", "", "", p.stdout[-200:]))
                    print(name, "PATCH-DOES-NOT-APPLY")
                    continue
                c0, _ = run_demo(os.path.join(d, "demo.py"), clean)
                c1, out1 = run_demo(os.path.join(d, "demo.py"), patched)
                demo_ok = (c0 == 0 and c1 != 0)
                tests = "skipped"
                if not skip_tests:
                    q = subprocess.run([os.path.join(HERE, "tools", "baseline.sh")], env=dict(os.environ, VERIF_REPO=patched),
                                       stdout=subprocess.PIPE, stderr=subprocess.STDOUT, text=True)
                    tests = "tests-pass" if q.returncode == 0 else "TESTS-FAIL"
                props = claimed if allprops else [prop]
                caught_by = []
                notes = []
                for pr in props:
                    if pr not in claimed:
                        notes.append(pr + ":not-claimed")
                        continue
                    t0 = time.time()
                    r = subprocess.run([os.path.join(HERE, "check"), pr, "--tier", tier, "--no-evidence"],
                                       env=dict(os.environ, VERIF_REPO=patched), stdout=subprocess.PIPE,
                                       stderr=subprocess.STDOUT, text=True)
                    if r.returncode == 1 and "VIOLATION property=" + pr in r.stdout:
                        caught_by.append(pr)
                    elif r.returncode not in (0, 1):
                        notes.append(pr + ":exit{}".format(r.returncode))
                status = "caught" if prop in caught_by else ("caught-elsewhere" if caught_by else "MISSED")
                rows.append((name, prop, status, "demo-ok" if demo_ok else "DEMO-BAD({},{})".format(c0, c1), tests,
                             ",".join(caught_by) + " " + " ".join(notes)))
                print("{:28s} {:4s} {:16s} {:10s} {:10s} {}".format(name, prop, status, "demo-ok" if demo_ok else "DEMO-BAD", tests,
                                                                  ",".join(caught_by) + " " + " ".join(notes)))
            finally:
                shutil.rmtree(patched, ignore_errors=True)
    finally:
        shutil.rmtree(clean, ignore_errors=True)
    with open(os.path.join(sdir, "RESULTS.md"), "a") as f:
        f.write("\n## run {} tier={} {}\n\n".format(time.strftime("%Y-%m-%d %H:%M"), tier, "all checks" if allprops else "own check"))
        f.write("| seeded change | property | verdict | demo | tests | caught by / notes |\n|---|---|---|---|---|---|\n")
        for r in rows:
            f.write("| {} | {} | {} | {} | {} | {} |\n".format(*r))
    return 0


if __name__ == "__main__":
    sys.exit(main())
