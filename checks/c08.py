"""C08 - the OPB and CNF renderings of a family are the same formula."""
import random

from hypothesis import strategies as st

from vlib.core import SubCheck, Violation, Outcome
from vlib import tt, cli, catalog, argv_gen

PROPERTY = "C08"
ASSUMPTIONS = [
    "graph arguments on the command line are files written by the harness (kthlist / matrix), so this check does not depend on the graph writers of the tree",
    "sub-commands with randomness are run with the same --seed in both tools (in-process), both starting from the same state of the global generator",
    "instances have at most 22 variables: the two model sets are compared completely; sub-check 'large' compares larger instances on sampled assignments only",
]


def compare(Fc, Fo, what):
    from cnfgen.formula.baseopb import BaseOPB
    from cnfgen.formula.basecnf import BaseCNF
    if not isinstance(Fo, BaseOPB):
        raise Violation("{}: the pseudo-Boolean side is a {} object, not a pseudo-Boolean formula".format(what, type(Fo).__name__))
    if not isinstance(Fc, BaseCNF):
        raise Violation("{}: the CNF side is a {} object".format(what, type(Fc).__name__))
    n1, n2 = Fc.number_of_variables(), Fo.number_of_variables()
    if n1 != n2:
        raise Violation("{}: {} variables as CNF but {} as OPB".format(what, n1, n2))
    l1, l2 = list(Fc.all_variable_labels()), list(Fo.all_variable_labels())
    if l1 != l2:
        d = [(i + 1, a, b) for i, (a, b) in enumerate(zip(l1, l2)) if a != b][:3]
        raise Violation("{}: variable names differ, e.g. (id, cnf, opb) {}".format(what, d))
    if n1 > 22:
        return None
    t1, t2 = tt.formula_tt(Fc), tt.formula_tt(Fo)
    if t1 != t2:
        a = tt.first_row(t1 ^ t2)
        raise Violation("{}: assignment {} satisfies the {} rendering only".format(
            what, tt.row_assignment(n1, a), 'CNF' if (t1 >> a) & 1 else 'OPB'))
    native = [r for r in Fo if not (r[-2] == '>=' and r[-1] == 1 and all(c == 1 for c, _ in r[:-2]))]
    labels = []
    if native:
        labels.append('native-cardinality')
        if any(r[-2] == '==' for r in native):
            labels.append('native-equality')
    else:
        labels.append('clausal-only')
    labels.append('sat' if t1 else 'unsat')
    return labels


def text_tables(args, n, what):
    """the two tools' printed texts (stdout), read by the harness's readers: their truth tables over n variables"""
    from vlib import rd_opb
    from checks.c17 import parse_dimacs
    r1 = cli.run_main('cnfgen', ['-q'] + args)
    r2 = cli.run_main('pbgen', ['-q'] + args)
    if r1.exc is not None or r1.code != 0 or r2.exc is not None or r2.code != 0:
        raise Violation("{}: printing fails although the formula can be built: exit status {} / {}".format(what, r1.code, r2.code))
    n1, m1, clauses, _ = parse_dimacs(r1.out)
    doc = rd_opb.read_opb(r2.out)
    if doc.errors:
        raise Violation("{}: pbgen prints a line that is neither a comment nor a constraint: {}".format(what, doc.errors[0]))
    if n1 != n or doc.declared_variables != n:
        raise Violation("{}: the printed texts declare {} (DIMACS) and {} (OPB) variables, the formula has {}".format(what, n1, doc.declared_variables, n))
    if m1 != len(clauses) or doc.declared_constraints != len(doc.constraints):
        raise Violation("{}: a printed text declares a number of rows it does not have".format(what))
    t1 = tt.cnf_tt(n, clauses)
    rows = [[(c, -v if neg else v) for (c, v, neg) in terms] + ['==' if rel == '=' else rel, deg] for (terms, rel, deg) in doc.constraints]
    t2 = tt.opb_tt(n, rows)
    return t1, t2


def run_cli(case):
    f = catalog.FAMILIES[case['fam']]
    p = case['p']
    with catalog.Ctx() as ctx:
        args = [f.name] + [str(x) for x in f.argv(p, ctx)]
        if case.get('seed') is not None:
            args = ['--seed', str(case['seed'])] + args
        from cnfgen.clitools.cmdline import CLIError
        res = []
        for tool in ('cnfgen', 'pbgen'):
            random.seed(case.get('pre', 7))
            try:
                res.append(cli.build(tool, args))
            except CLIError as e:
                res.append(e)
        if isinstance(res[0], CLIError) or isinstance(res[1], CLIError):
            if isinstance(res[0], CLIError) and isinstance(res[1], CLIError):
                return Outcome(rejected=True, nontrivial=False, labels=['both-rejected', f.name])
            raise Violation("{}: one tool rejects the command line, the other builds a formula: {}".format(
                ' '.join(args[:12]), [str(r)[:80] for r in res]))
        Fc, Fo = res
        what = "cnfgen/pbgen {}".format(' '.join(args[:12]))
        labels = compare(Fc, Fo, what)
        if labels is not None and case.get('pre', 0) % 2 == 0:
            # ... and what the two tools PRINT is that formula too (the rendering, not only the object)
            t1, t2 = text_tables(args, Fc.number_of_variables(), what)
            want = tt.formula_tt(Fc)
            if t1 != want or t2 != want:
                bad = 'DIMACS text of cnfgen' if t1 != want else 'OPB text of pbgen'
                a = tt.first_row((t1 if t1 != want else t2) ^ want)
                raise Violation("{}: the {} and the formula object differ on assignment {}".format(what, bad, tt.row_assignment(Fc.number_of_variables(), a)))
            labels.append('printed-texts-compared')
    if labels is None:
        return Outcome(nontrivial=False, labels=['too-large', f.name])
    if f.uses_random:
        labels.append('random-family')
    return Outcome(labels=labels + [f.name, 'cli'], nontrivial='clausal-only' not in labels)


def run_lib(case):
    from cnfgen.formula.cnf import CNF
    from cnfgen.formula.opb import OPB
    f = catalog.FAMILIES[case['fam']]
    p = case['p']
    Fc = f.lib(p, CNF)
    Fo = f.lib(p, OPB)
    labels = compare(Fc, Fo, "library {} {}".format(f.name, p))
    if labels is None:
        return Outcome(nontrivial=False, labels=['too-large', f.name])
    return Outcome(labels=labels + [f.name, 'lib'], nontrivial='clausal-only' not in labels)


def run_cli_random(case):
    """command lines whose graph arguments and/or formulas are random: both tools under the same --seed"""
    from cnfgen.clitools.cmdline import CLIError
    args = ['--seed', str(case['seed'])] + case['cmd']
    res = []
    for i, tool in enumerate(('cnfgen', 'pbgen')):
        random.seed(case['pre'] + i)          # the state before the run must not matter
        try:
            res.append(cli.build(tool, args))
        except CLIError as e:
            res.append(e)
    what = "cnfgen/pbgen {}".format(' '.join(args))
    if isinstance(res[0], CLIError) or isinstance(res[1], CLIError):
        if isinstance(res[0], CLIError) and isinstance(res[1], CLIError):
            return Outcome(rejected=True, nontrivial=False, labels=['both-rejected'])
        raise Violation("{}: one tool rejects the command line, the other builds a formula: {}".format(what, [str(r)[:80] for r in res]))
    labels = compare(res[0], res[1], what)
    if labels is None:
        return Outcome(nontrivial=False, labels=['too-large'])
    return Outcome(labels=labels + [case['cmd'][0], case['kind']], nontrivial=len(res[0]) >= 2)


@st.composite
def strat_cli_random(draw):
    kind = draw(st.sampled_from(['random-graph', 'random-graph', 'random-family', 'two-random-sources']))
    if kind == 'two-random-sources':
        # a graph sampled while the command line is parsed AND a family that draws again while it is built
        ch = draw(st.sampled_from(['random', 'randomodd', 'randomeven']))
        cmd = ['tseitin', ch] + draw(argv_gen.simple_spec(random_ok=True, det_ok=draw(st.integers(0, 4)) == 0))
    elif kind == 'random-graph':
        cmd = draw(argv_gen.graph_command(random_ok=True, det_ok=False))
    else:
        cmd = draw(argv_gen.numeric_random_command())
    return {'cmd': cmd, 'kind': kind, 'seed': draw(st.sampled_from([0, 1, 2, 7]) | st.integers(0, 10 ** 6)), 'pre': draw(st.integers(0, 50))}


@st.composite
def strat_cli(draw):
    inv = draw(catalog.invocations())
    f = catalog.FAMILIES[inv['fam']]
    if f.uses_random:
        inv['seed'] = draw(st.sampled_from([0, 1, 2, 42, -5, 2 ** 33 + 1]) | st.integers(0, 10 ** 6))
    else:
        inv['seed'] = draw(st.none() | st.integers(0, 50))
    inv['pre'] = draw(st.integers(0, 3))
    return inv


@st.composite
def strat_lib(draw):
    return draw(catalog.invocations(deterministic_only=True))


def run_large(case):
    """realistic sizes: the two renderings are compared on sampled assignments"""
    from cnfgen.formula.cnf import CNF
    from cnfgen.formula.opb import OPB
    from checks.c10 import build_instance
    from checks.c01 import batch_for
    name, p = case['name'], case['p']
    Fc, _ = build_instance(name, p, CNF)
    Fo, _ = build_instance(name, p, OPB)
    what = "library {} {}".format(name, p)
    n = Fc.number_of_variables()
    if n <= 22:
        labels = compare(Fc, Fo, what)
        return Outcome(labels=labels + [name, 'complete'], nontrivial=False)
    compare(Fc, Fo, what)          # class, variable count and names
    if len(Fc) > 30000 or sum(len(c) for c in Fc) > 200000:
        return Outcome(labels=['skipped-for-size', name], nontrivial=False)
    B, nmodels = batch_for(Fc, p['s'], want_models=4, max_nodes=max(50, min(2000, 400000 // (1 + sum(len(c) for c in Fc)))))
    t1, t2 = tt.formula_tt(Fc, B), tt.formula_tt(Fo, B)
    if t1 != t2:
        a = tt.first_row(t1 ^ t2)
        raise Violation("{}: the assignment with true variables {} satisfies the {} rendering only".format(
            what, sorted(B.rows[a]), 'CNF' if (t1 >> a) & 1 else 'OPB'))
    # row by row for the non clausal constraints: each must agree with the clauses that replace it?  not required by the property
    native = [r for r in Fo if not (r[-2] == '>=' and r[-1] == 1 and all(c == 1 for c, _ in r[:-2]))]
    labels = [name, 'sampled', 'native-cardinality' if native else 'clausal-only', 'models-found' if nmodels else 'no-model-found']
    if t1 and t1 != B.full:
        labels.append('sample-separates')
    return Outcome(labels=labels, nontrivial=bool(native) and bool(t1) and t1 != B.full)


@st.composite
def strat_large(draw):
    from checks.c10 import INSTANCES
    name = draw(st.sampled_from(sorted(INSTANCES)))
    p = dict(draw(INSTANCES[name]))
    p['s'] = draw(st.integers(0, 10 ** 6))
    return {'name': name, 'p': p}


def run_dimacs(case):
    """a CNF read from a DIMACS file by the `dimacs` sub-command of both tools"""
    import os
    from cnfgen.clitools.cmdline import CLIError
    n, clauses = case['n'], case['clauses']
    text = "".join(case.get('head', [])) + "p cnf {} {}\n".format(n, len(clauses)) + "".join(" ".join(map(str, c + [0])) + "\n" for c in clauses)
    with catalog.Ctx() as ctx:
        path = ctx.path('cnf')
        with open(path, 'w') as fh:
            fh.write(text)
        res = []
        for tool in ('cnfgen', 'pbgen'):
            try:
                res.append(cli.build(tool, ['-q', 'dimacs', path] if case.get('via', 'file') == 'file' else ['-q', 'dimacs'],
                                     stdin_text=None if case.get('via', 'file') == 'file' else text))
            except CLIError as e:
                res.append(e)
        printed = None
        if case.get('via', 'file') == 'file' and not any(isinstance(r, CLIError) for r in res) and n <= 22:
            # what the two tools print for this file, read by the harness's readers
            printed = text_tables(['dimacs', path], n, "cnfgen/pbgen dimacs on {!r}".format(text[:200]))
    what = "cnfgen/pbgen dimacs on {!r}".format(text[:200])
    if isinstance(res[0], CLIError) or isinstance(res[1], CLIError):
        raise Violation("{}: a tool refuses a legal DIMACS file: {}".format(what, [str(r)[:80] for r in res]))
    n1 = res[0].number_of_variables()
    if n1 != n or res[1].number_of_variables() != n:
        raise Violation("{}: {} / {} variables, the file declares {}".format(what, n1, res[1].number_of_variables(), n))
    if n > 22:
        return Outcome(labels=['too-large'], nontrivial=False)
    t1, t2 = tt.formula_tt(res[0]), tt.formula_tt(res[1])
    want = tt.cnf_tt(n, clauses)
    if t1 != want or t2 != want:
        bad = 'CNF' if t1 != want else 'OPB'
        a = tt.first_row((t1 if t1 != want else t2) ^ want)
        raise Violation("{}: assignment {} is judged differently by the {} rendering and by the clauses of the file".format(what, tt.row_assignment(n, a), bad))
    labels = ['dimacs', case.get('via', 'file')]
    if printed is not None:
        for t, kind in zip(printed, ('DIMACS text printed by cnfgen', 'OPB text printed by pbgen')):
            if t != want:
                raise Violation("{}: assignment {} is judged differently by the {} and by the clauses of the file".format(
                    what, tt.row_assignment(n, tt.first_row(t ^ want)), kind))
        labels.append('printed-texts')
    if any(-l in c for c in clauses for l in c):
        labels.append('opposite-literals')
    if any(len(set(c)) < len(c) for c in clauses):
        labels.append('repeated-literals')
    if any(not c for c in clauses):
        labels.append('empty-clause')
    return Outcome(labels=labels, nontrivial=len(clauses) >= 1 and n >= 1)


@st.composite
def strat_dimacs(draw):
    n = draw(st.integers(1, 6))
    lit = st.integers(1, n).flatmap(lambda v: st.sampled_from([v, -v]))
    clauses = draw(st.lists(st.lists(lit, max_size=5), max_size=7))
    return {'n': n + draw(st.integers(0, 2)), 'clauses': clauses, 'via': draw(st.sampled_from(['file', 'file', 'stdin'])),
            'head': draw(st.sampled_from([[], ['c a comment\n']]))}


def enum_dimacs(tier):
    for clauses in ([[1, -1]], [[-1, 3, 1]], [[2, 2, -2], [1]], [[1, 1]], [[]], [[1, -1], [-1, 1, 2], [3]], [[-2, 2]]):
        for via in ('file', 'stdin'):
            yield {'n': 3, 'clauses': clauses, 'via': via, 'head': []}


NAMES = catalog.family_names()

SUBCHECKS = [
    SubCheck('cli', run_cli, strategy=strat_cli, quick=900, thorough=40000,
             rule="every formula sub-command of the catalogue (33 helpers shared by both tools, every option) with parameters giving <=22 variables, graph arguments as harness-written files, random sub-commands under one --seed; cnfgen vs pbgen built in-process (mode='formula'); oracle: pbgen yields a pseudo-Boolean object, same variable count, same names in order, identical complete truth tables; in half of the cases also the texts the two tools print (read by the harness's DIMACS and OPB readers) have that truth table and declare the counts they contain; non-trivial: the OPB side has a non-clausal constraint",
             required_labels=[n for n in NAMES] + ['native-cardinality', 'native-equality', 'clausal-only', 'random-family', 'printed-texts-compared']),
    SubCheck('cli_random', run_cli_random, strategy=strat_cli_random, quick=700, thorough=30000,
             rule="sub-commands with random graph constructions and modifiers (gnp, gnm, gnd, glrp, glrm, glrd, regular, plantclique, plantbiclique, addedges, splitedges) and sub-commands that draw random numbers while building (tseitin random*, php M N D, op N d, subsetcard N d, stone --sparse, randkcnf, randkxor, pitfall), a quarter of the cases combine both sources (tseitin random* on a random graph), each run by cnfgen and pbgen with the same --seed from different states of the global generator; same oracle (<=22 variables compared completely); non-trivial: >=2 rows",
             required_labels=['random-graph', 'random-family', 'two-random-sources', 'tseitin', 'php', 'kcolor']),
    SubCheck('lib', run_lib, strategy=strat_lib, quick=600, thorough=30000,
             rule="every deterministic family of the catalogue through the library with formula_class=CNF and =OPB; same oracle",
             required_labels=['native-cardinality', 'native-equality']),
    SubCheck('dimacs', run_dimacs, strategy=strat_dimacs, enumerate_cases=enum_dimacs, quick=250, thorough=10000,
             rule="the 'dimacs' sub-command of both tools on harness-written files and on stdin: CNFs with 1..8 variables, 0..7 clauses of width 0..5 with repeated and opposite literals (tautological clauses), empty clauses, unused variables; oracle: both renderings - the objects, and for files also the texts the two tools print, read by the harness's DIMACS and OPB readers - have the declared variable count and exactly the models of the clauses in the file (complete truth tables); non-trivial: >=1 clause",
             required_labels=['opposite-literals', 'repeated-literals', 'empty-clause', 'stdin', 'file', 'printed-texts']),
    SubCheck('large', run_large, strategy=strat_large, quick=500, thorough=20000,
             rule="every family through the library at realistic sizes (the instance generator of C10: php up to 40x30, graph families on gnm/regular/grid graphs up to 60 vertices, op 16, stone 14x6, vdw 60, ptn 300, random formulas, ...) with formula_class=CNF and =OPB; oracle: same class/count/names and the two renderings agree on ~110 sampled assignments (models of the CNF side found by a node-bounded DPLL, 1-3 flips around them, random ones of four densities, all-false, all-true), evaluated bit-parallel; non-trivial: >22 variables, a non-clausal OPB constraint, and the sample contains both satisfying and falsifying rows",
             required_labels=['sampled', 'sample-separates', 'models-found', 'native-cardinality']),
]
