"""C01 - pigeonhole, matching and counting families encode exactly their principle."""
import itertools
from math import comb, factorial

from hypothesis import strategies as st

from vlib.core import SubCheck, Violation, Outcome
from vlib import tt, names
from vlib import graphs_gen as gg

PROPERTY = "C01"
ASSUMPTIONS = [
    "variables are identified by their documented names (p_{i,j}, q_{k,j}, r_{k}, e_{u,v}, x_{i,j}, v(i,b), p_{S}); their order is not assumed",
    "instances are limited to <= 22 variables so that every assignment is evaluated",
    "relativized PHP: the reference is the clause groups 3.1a-e of the docstring; satisfiable iff m<=r and m<=n",
]

QUICK_MAXV = 20
THOROUGH_MAXV = 22


def formula_class(name):
    from cnfgen.formula.cnf import CNF
    from cnfgen.formula.opb import OPB
    return CNF if name == 'CNF' else OPB


# Large instances: the same reference predicates are evaluated on a *batch* of assignments (models found
# by DPLL, their one- and two-flip neighbours, and random assignments) instead of all 2^n rows.
_LARGE = {'on': False, 'rseed': 0, 'env': None}


class _BatchOK(Exception):
    """raised by compare() in batch mode once the model comparison has succeeded"""

    def __init__(self, accepted, rows):
        Exception.__init__(self)
        self.accepted = accepted
        self.rows = rows


def batch_for(F, rseed, want_models=6, flips=60, randoms=40, max_nodes=2000):
    """tt.Batch of assignments around the models of the CNF F"""
    import random as _r
    from vlib import sat
    R = _r.Random(rseed)
    n = F.number_of_variables()
    clauses = [list(c) for c in F]
    rows = []
    models = []
    for k in range(want_models):
        # diversify: random unit assumptions (dropped if they make the instance unsatisfiable)
        extra = [[R.choice([1, -1]) * R.randint(1, n)] for _ in range(0 if k == 0 else min(3, n))] if n else []
        try:
            m = sat.solve(n, clauses + extra, max_nodes=max_nodes)
            if m is None and extra:
                m = sat.solve(n, clauses, max_nodes=max_nodes) if not models else None
        except sat.Budget:
            m = None          # too hard for the bounded search: the batch lives on random rows only
            if k == 0:
                break
        if m is not None:
            models.append(frozenset(l for l in m if l > 0))
    for m in models:
        rows.append(m)
        for _ in range(flips // max(1, len(models))):
            a = set(m)
            for _ in range(R.choice([1, 1, 2, 3]) if n else 0):
                v = R.randint(1, n)
                a.symmetric_difference_update({v})
            rows.append(frozenset(a))
    for _ in range(randoms):
        dens = R.choice([0.05, 0.2, 0.5, 0.8])
        rows.append(frozenset(v for v in range(1, n + 1) if R.random() < dens))
    rows.append(frozenset())
    rows.append(frozenset(range(1, n + 1)))
    return tt.Batch(n, rows), len(models)


def ENV(F, nv):
    """what the tt functions get as their first argument: the variable count (all 2^n rows) or a batch"""
    if not _LARGE['on']:
        return nv
    if _LARGE['env'] is None or _LARGE['env'][0] is not F:
        B, nm = batch_for(F, _LARGE['rseed'])
        _LARGE['env'] = (F, B, nm)
    return _LARGE['env'][1]


def model_tt(F):
    return tt.formula_tt(F, ENV(F, F.number_of_variables()))


def compare(F, want, what, case):
    """full tables: returns the number of models; batch mode: returns None (counts are not available)"""
    n = F.number_of_variables()
    E = ENV(F, n)
    got = model_tt(F)
    if got != want:
        a = tt.first_row(got ^ want)
        asg = E.row(a) if isinstance(E, tt.Batch) else tt.row_assignment(n, a)
        lab = list(F.all_variable_labels())
        true_vars = [lab[abs(l) - 1] for l in asg if l > 0]
        raise Violation("{} {}: the assignment with true variables {} is {} by the formula but {} the documented kind of object".format(
            what, case, true_vars, 'accepted' if (got >> a) & 1 else 'rejected',
            'is' if (want >> a) & 1 else 'is not'))
    if isinstance(E, tt.Batch):
        raise _BatchOK(tt.popcount(got), E.K)      # the count oracles need full tables: stop here
    return tt.popcount(got)


def expect_indices(grp, expected, what):
    if sorted(grp) != sorted(expected):
        raise Violation("{}: variables {} but the documented index set is {}".format(what, sorted(grp), sorted(expected)))


def surjections(a, b):
    """number of surjective functions from an a-set onto a b-set"""
    return sum((-1) ** j * comb(b, j) * (b - j) ** a for j in range(b + 1))


# ---------------------------------------------------------------------------
# PHP

def php_predicate(n, x, pigeons, holes, nbr_holes, nbr_pigeons, functional, onto):
    """x: {(i,j): mask}. nbr_holes[i] = holes available to pigeon i."""
    FULL = tt.full(n)
    want = FULL
    for i in pigeons:
        row = 0
        for j in nbr_holes[i]:
            row |= x[(i, j)]
        want &= row
        if functional:
            want &= tt.at_most(n, [x[(i, j)] for j in nbr_holes[i]], 1)
    for j in holes:
        want &= tt.at_most(n, [x[(i, j)] for i in nbr_pigeons[j]], 1)
        if onto:
            row = 0
            for i in nbr_pigeons[j]:
                row |= x[(i, j)]
            want &= row
    return want


def run_php(case):
    from cnfgen import PigeonholePrinciple
    m, h, fun, onto = case['m'], case['n'], case['functional'], case['onto']
    F = PigeonholePrinciple(m, h, functional=fun, onto=onto, formula_class=formula_class(case['cls']))
    nv = F.number_of_variables()
    if nv != m * h:
        raise Violation("PHP {}: {} variables, documented {}".format(case, nv, m * h))
    dec = names.group(names.decode(F), 'p')
    expect_indices(dec, [(i, j) for i in range(1, m + 1) for j in range(1, h + 1)], "PHP {}".format(case))
    x = {k: tt.var_mask(ENV(F, nv), v) for k, v in dec.items()}
    P, H = range(1, m + 1), range(1, h + 1)
    want = php_predicate(ENV(F, nv), x, P, H, {i: H for i in P}, {j: P for j in H}, fun, onto)
    cnt = compare(F, want, "PigeonholePrinciple", case)
    # encoding free counts
    if fun and onto:
        exp = factorial(h) if m == h else 0
    elif fun:
        exp = factorial(h) // factorial(h - m) if m <= h else 0
    elif onto:
        exp = surjections(h, m)              # every hole exactly one pigeon, every pigeon some hole
    else:
        # each hole hosts at most one pigeon, every pigeon has a hole: maps holes -> pigeons+{none} covering pigeons
        exp = sum(comb(h, j) * surjections(j, m) for j in range(h + 1))
    if cnt != exp:
        raise Violation("PHP {}: {} models but {} placements exist".format(case, cnt, exp))
    sat = cnt > 0
    if not onto and sat != (m <= h):
        raise Violation("PHP {}: satisfiable={} but pigeons<=holes is {}".format(case, sat, m <= h))
    labels = [case['cls'], 'fun' if fun else 'nofun', 'onto' if onto else 'noonto', 'sat' if sat else 'unsat']
    if m > h:
        labels.append('m>n')
    if m == h:
        labels.append('m=n')
    if m == 0 or h == 0:
        labels.append('zero-parameter')
    return Outcome(labels=labels, nontrivial=nv >= 1 and len(F) >= 1)


def enum_php(tier):
    maxv = QUICK_MAXV if tier == 'quick' else THOROUGH_MAXV
    for m in range(0, maxv + 2):
        for h in range(0, maxv + 2):
            if m * h > maxv or (m * h == 0 and m + h > 5):
                continue
            for fun in (False, True):
                for onto in (False, True):
                    for cls in ('CNF', 'OPB'):
                        yield {'m': m, 'n': h, 'functional': fun, 'onto': onto, 'cls': cls}


# ---------------------------------------------------------------------------
# graph PHP

def run_gphp(case):
    from cnfgen import GraphPigeonholePrinciple
    g = case['graph']
    L, R, edges = g['L'], g['R'], [tuple(e) for e in g['edges']]
    fun, onto = case['functional'], case['onto']
    B = gg.build_bipartite(g)
    F = GraphPigeonholePrinciple(B, functional=fun, onto=onto, formula_class=formula_class(case['cls']))
    nv = F.number_of_variables()
    if nv != len(edges):
        raise Violation("GraphPHP {}: {} variables for {} edges".format(case, nv, len(edges)))
    dec = names.group(names.decode(F), 'p')
    expect_indices(dec, edges, "GraphPHP {}".format(case))
    x = {k: tt.var_mask(ENV(F, nv), v) for k, v in dec.items()}
    P, H = range(1, L + 1), range(1, R + 1)
    nh = {i: [j for j in H if (i, j) in x] for i in P}
    npg = {j: [i for i in P if (i, j) in x] for j in H}
    want = php_predicate(ENV(F, nv), x, P, H, nh, npg, fun, onto)
    cnt = compare(F, want, "GraphPigeonholePrinciple", case)
    # encoding free
    if fun:
        # injective maps pigeons -> holes along edges (onto: bijective)
        exp = 0
        for choice in itertools.product(*[nh[i] for i in P]):
            if len(set(choice)) == len(choice) and (not onto or len(choice) == R):
                exp += 1
        if cnt != exp:
            raise Violation("GraphPHP {}: {} models but {} (injective) maps along edges".format(case, cnt, exp))
    else:
        # maps holes -> pigeons+{none} along edges covering all pigeons (onto: no 'none')
        exp = 0
        opts = [([None] if not onto else []) + npg[j] for j in H]
        for choice in itertools.product(*opts):
            if set(P) <= set(choice):
                exp += 1
        if cnt != exp:
            raise Violation("GraphPHP {}: {} models but {} edge sets of the documented kind".format(case, cnt, exp))
    labels = [case['cls'], g.get('as', 'cnfgen'), 'fun' if fun else 'nofun', 'onto' if onto else 'noonto',
              'sat' if cnt else 'unsat']
    if any(not nh[i] for i in P) or any(not npg[j] for j in H):
        labels.append('isolated-vertex')
    if L == 0 or R == 0:
        labels.append('empty-side')
    return Outcome(labels=labels, nontrivial=nv >= 1 and len(F) >= 1)


def enum_gphp(tier):
    lim = (3, 3) if tier == 'quick' else (3, 4)
    for i, g in enumerate(gg.all_bipartite_graphs(*lim)):
        for fun in (False, True):
            for onto in (False, True):
                c = dict(g)
                c['as'] = gg.BIP_ROT[((i + fun + 2 * onto)) % len(gg.BIP_ROT)]
                yield {'graph': c, 'functional': fun, 'onto': onto, 'cls': 'OPB' if (i + fun) % 2 else 'CNF'}


@st.composite
def strat_gphp(draw):
    g = draw(gg.bipartite_graphs(Lmax=4, Rmax=5, max_edges=16))
    return {'graph': g, 'functional': draw(st.booleans()), 'onto': draw(st.booleans()),
            'cls': draw(st.sampled_from(['CNF', 'OPB']))}


# ---------------------------------------------------------------------------
# binary PHP

def run_bphp(case):
    from cnfgen import BinaryPigeonholePrinciple
    m, h = case['m'], case['n']
    F = BinaryPigeonholePrinciple(m, h, formula_class=formula_class(case['cls']))
    bits = (h - 1).bit_length() if h >= 1 else 0
    nv = F.number_of_variables()
    if nv != m * bits:
        raise Violation("BinaryPHP {}: {} variables, documented {} x {} bits".format(case, nv, m, bits))
    dec = names.group(names.decode(F), 'v')
    expect_indices(dec, [(i, b) for i in range(1, m + 1) for b in range(bits)], "BinaryPHP {}".format(case))
    FULL = tt.full(ENV(F, nv))

    def image_is(i, j):
        r = FULL
        for b in range(bits):
            mk = tt.var_mask(ENV(F, nv), dec[(i, b)])
            r &= mk if (j >> b) & 1 else FULL & ~mk
        return r
    want = FULL
    img = {(i, j): image_is(i, j) for i in range(1, m + 1) for j in range(h)}
    for i in range(1, m + 1):
        ok = 0
        for j in range(h):
            ok |= img[(i, j)]
        want &= ok
    for j in range(h):
        want &= tt.at_most(ENV(F, nv), [img[(i, j)] for i in range(1, m + 1)], 1)
    cnt = compare(F, want, "BinaryPigeonholePrinciple", case)
    exp = factorial(h) // factorial(h - m) if m <= h else 0
    if cnt != exp:
        raise Violation("BinaryPHP {}: {} models but {} injective placements".format(case, cnt, exp))
    labels = [case['cls'], 'sat' if cnt else 'unsat']
    if h & (h - 1):
        labels.append('n-not-power-of-two')
    if m == 0 or h == 0:
        labels.append('zero-parameter')
    if h == 1:
        labels.append('one-hole')
    return Outcome(labels=labels, nontrivial=nv >= 1 and len(F) >= 1)


def enum_bphp(tier):
    maxv = QUICK_MAXV if tier == 'quick' else THOROUGH_MAXV
    for h in (255, 256, 257, 300, 511, 512, 513, 1000, 1025):
        for m in (1, 2):
            if m * (h - 1).bit_length() <= maxv and not (tier == 'quick' and m == 2 and h > 520):
                yield {'m': m, 'n': h, 'cls': 'CNF' if h % 2 else 'OPB'}
    for m in range(0, 12):
        for h in range(0, 18):
            bits = (h - 1).bit_length() if h >= 1 else 0
            if m * bits > maxv:
                continue
            if h <= 1 and m > 6:
                continue
            for cls in ('CNF', 'OPB'):
                yield {'m': m, 'n': h, 'cls': cls}


# ---------------------------------------------------------------------------
# relativized PHP

def run_rphp(case):
    from cnfgen import RelativizedPigeonholePrinciple
    m, r, h = case['m'], case['r'], case['n']
    F = RelativizedPigeonholePrinciple(m, r, h, formula_class=formula_class(case['cls']))
    nv = F.number_of_variables()
    if nv != m * r + r * h + r:
        raise Violation("RPHP {}: {} variables, documented {}".format(case, nv, m * r + r * h + r))
    dec = names.decode(F)
    p = names.group(dec, 'p')
    q = names.group(dec, 'q')
    rr = names.group(dec, 'r')
    expect_indices(p, [(u, v) for u in range(1, m + 1) for v in range(1, r + 1)], "RPHP p {}".format(case))
    expect_indices(q, [(v, w) for v in range(1, r + 1) for w in range(1, h + 1)], "RPHP q {}".format(case))
    expect_indices(rr, [(v,) for v in range(1, r + 1)], "RPHP r {}".format(case))
    M = lambda d, k: tt.var_mask(ENV(F, nv), d[k])      # noqa
    FULL = tt.full(ENV(F, nv))
    want = FULL
    for u in range(1, m + 1):                          # 3.1a
        row = 0
        for v in range(1, r + 1):
            row |= M(p, (u, v))
        want &= row
    for v in range(1, r + 1):                          # 3.1b
        want &= tt.at_most(ENV(F, nv), [M(p, (u, v)) for u in range(1, m + 1)], 1)
    for v in range(1, r + 1):                          # 3.1c
        for u in range(1, m + 1):
            want &= (FULL & ~M(p, (u, v))) | M(rr, (v,))
    for v in range(1, r + 1):                          # 3.1d
        row = FULL & ~M(rr, (v,))
        for w in range(1, h + 1):
            row |= M(q, (v, w))
        want &= row
    for w in range(1, h + 1):                          # 3.1e
        for v1 in range(1, r + 1):
            for v2 in range(v1 + 1, r + 1):
                want &= FULL & ~(M(rr, (v1,)) & M(rr, (v2,)) & M(q, (v1, w)) & M(q, (v2, w)))
    cnt = compare(F, want, "RelativizedPigeonholePrinciple", case)
    sat = cnt > 0
    if sat != (m <= r and m <= h):
        raise Violation("RPHP {}: satisfiable={} but m<=r and m<=n is {}".format(case, sat, m <= r and m <= h))
    labels = [case['cls'], 'sat' if sat else 'unsat']
    if 0 in (m, r, h):
        labels.append('zero-parameter')
    return Outcome(labels=labels, nontrivial=nv >= 1 and len(F) >= 1)


def enum_rphp(tier):
    maxv = QUICK_MAXV if tier == 'quick' else THOROUGH_MAXV
    for m in range(0, 6):
        for r in range(0, 6):
            for h in range(0, 6):
                if m * r + r * h + r <= maxv:
                    for cls in ('CNF', 'OPB'):
                        yield {'m': m, 'r': r, 'n': h, 'cls': cls}


# ---------------------------------------------------------------------------
# counting principle

def run_count(case):
    from cnfgen import CountingPrinciple
    M, p = case['M'], case['p']
    F = CountingPrinciple(M, p, formula_class=formula_class(case['cls']))
    nv = F.number_of_variables()
    if nv != comb(M, p):
        raise Violation("Counting {}: {} variables, documented C(M,p)={}".format(case, nv, comb(M, p)))
    dec = names.group(names.decode(F), 'p')
    expect_indices(dec, list(itertools.combinations(range(1, M + 1), p)), "Counting {}".format(case))
    want = tt.full(ENV(F, nv))
    for i in range(1, M + 1):
        want &= tt.exactly(ENV(F, nv), [tt.var_mask(ENV(F, nv), v) for S, v in dec.items() if i in S], 1)
    cnt = compare(F, want, "CountingPrinciple", case)
    if M % p == 0:
        k = M // p
        exp = factorial(M) // (factorial(p) ** k * factorial(k))
    else:
        exp = 0
    if cnt != exp:
        raise Violation("Counting {}: {} models but {} partitions into blocks of size p".format(case, cnt, exp))
    labels = [case['cls'], 'sat' if cnt else 'unsat']
    if p > M:
        labels.append('p>M')
    if M % p:
        labels.append('p-does-not-divide-M')
    if M == 0:
        labels.append('zero-parameter')
    return Outcome(labels=labels, nontrivial=nv >= 1 and len(F) >= 1)


def enum_count(tier):
    maxv = QUICK_MAXV if tier == 'quick' else THOROUGH_MAXV
    for M in range(0, 22):
        for p in range(1, 24):
            if comb(M, p) <= maxv and (p <= M + 2):
                for cls in ('CNF', 'OPB'):
                    yield {'M': M, 'p': p, 'cls': cls}


# ---------------------------------------------------------------------------
# perfect matching

def run_matching(case):
    from cnfgen import PerfectMatchingPrinciple
    g = case['graph']
    n, edges = g['n'], [tuple(e) for e in g['edges']]
    G = gg.build_simple(g)
    F = PerfectMatchingPrinciple(G, formula_class=formula_class(case['cls']))
    nv = F.number_of_variables()
    if nv != len(edges):
        raise Violation("Matching {}: {} variables for {} edges".format(case, nv, len(edges)))
    dec = names.group(names.decode(F), 'e')
    expect_indices(dec, edges, "Matching {}".format(case))
    want = tt.full(ENV(F, nv))
    for u in range(1, n + 1):
        want &= tt.exactly(ENV(F, nv), [tt.var_mask(ENV(F, nv), v) for e, v in dec.items() if u in e], 1)
    cnt = compare(F, want, "PerfectMatchingPrinciple", case)
    exp = gg.count_perfect_matchings(n, edges)
    if cnt != exp:
        raise Violation("Matching {}: {} models but {} perfect matchings".format(case, cnt, exp))
    labels = [case['cls'], g.get('as', 'cnfgen'), 'sat' if cnt else 'unsat'] + gg.graph_labels(n, edges)
    if n % 2:
        labels.append('odd-order')
    return Outcome(labels=labels, nontrivial=nv >= 1 and len(F) >= 1)


def enum_matching(tier):
    nmax = 5 if tier == 'quick' else 6
    for i, g in enumerate(gg.all_simple_graphs(nmax)):
        c = dict(g)
        c['as'] = gg.SIMPLE_ROT[(i) % len(gg.SIMPLE_ROT)]
        yield {'graph': c, 'cls': 'OPB' if i % 2 else 'CNF'}


@st.composite
def strat_matching(draw):
    return {'graph': draw(gg.simple_graphs(nmax=8, max_edges=18)), 'cls': draw(st.sampled_from(['CNF', 'OPB']))}


# ---------------------------------------------------------------------------
# subset cardinality

def run_subsetcard(case):
    from cnfgen import SubsetCardinalityFormula
    g = case['graph']
    L, R, edges = g['L'], g['R'], [tuple(e) for e in g['edges']]
    eq = case['equalities']
    B = gg.build_bipartite(g)
    F = SubsetCardinalityFormula(B, equalities=eq, formula_class=formula_class(case['cls']))
    nv = F.number_of_variables()
    if nv != len(edges):
        raise Violation("SubsetCard {}: {} variables for {} edges".format(case, nv, len(edges)))
    dec = names.group(names.decode(F), 'x')
    expect_indices(dec, edges, "SubsetCard {}".format(case))
    want = tt.full(ENV(F, nv))
    for u in range(1, L + 1):
        ms = [tt.var_mask(ENV(F, nv), v) for (a, b), v in dec.items() if a == u]
        d = len(ms)
        want &= tt.exactly(ENV(F, nv), ms, -(-d // 2)) if eq else tt.at_least(ENV(F, nv), ms, -(-d // 2))
    for w in range(1, R + 1):
        ms = [tt.var_mask(ENV(F, nv), v) for (a, b), v in dec.items() if b == w]
        d = len(ms)
        want &= tt.exactly(ENV(F, nv), ms, d // 2) if eq else tt.at_most(ENV(F, nv), ms, d // 2)
    cnt = compare(F, want, "SubsetCardinalityFormula", case)
    labels = [case['cls'], g.get('as', 'cnfgen'), 'equalities' if eq else 'inequalities', 'sat' if cnt else 'unsat']
    degl = [sum(1 for e in edges if e[0] == u) for u in range(1, L + 1)]
    degr = [sum(1 for e in edges if e[1] == w) for w in range(1, R + 1)]
    if any(d % 2 for d in degl + degr):
        labels.append('odd-degree')
    if any(d == 0 for d in degl + degr):
        labels.append('isolated-vertex')
    return Outcome(labels=labels, nontrivial=nv >= 1 and len(F) >= 1)


def enum_subsetcard(tier):
    lim = (3, 3) if tier == 'quick' else (3, 4)
    for i, g in enumerate(gg.all_bipartite_graphs(*lim)):
        for eq in (False, True):
            c = dict(g)
            c['as'] = gg.BIP_ROT[((i + eq)) % len(gg.BIP_ROT)]
            yield {'graph': c, 'equalities': eq, 'cls': 'OPB' if (i + eq) % 2 else 'CNF'}


@st.composite
def strat_subsetcard(draw):
    return {'graph': draw(gg.bipartite_graphs(Lmax=4, Rmax=5, max_edges=16)),
            'equalities': draw(st.booleans()), 'cls': draw(st.sampled_from(['CNF', 'OPB']))}


# ---------------------------------------------------------------------------
# clique colouring

def run_cliquecoloring(case):
    from cnfgen import CliqueColoring
    n, k, c = case['n'], case['k'], case['c']
    F = CliqueColoring(n, k, c, formula_class=formula_class(case['cls']))
    nv = F.number_of_variables()
    if nv != comb(n, 2) + k * n + n * c:
        raise Violation("CliqueColoring {}: {} variables, documented {}".format(case, nv, comb(n, 2) + k * n + n * c))
    dec = names.decode(F)
    e, q, r = names.group(dec, 'e'), names.group(dec, 'q'), names.group(dec, 'r')
    expect_indices(e, gg.all_pairs(n), "CliqueColoring e {}".format(case))
    expect_indices(q, [(i, v) for i in range(1, k + 1) for v in range(1, n + 1)], "CliqueColoring q {}".format(case))
    expect_indices(r, [(v, l) for v in range(1, n + 1) for l in range(1, c + 1)], "CliqueColoring r {}".format(case))
    M = lambda d, key: tt.var_mask(ENV(F, nv), d[key])     # noqa
    FULL = tt.full(ENV(F, nv))
    want = FULL
    V = range(1, n + 1)
    for i in range(1, k + 1):                      # q is a total function [k] -> [n]
        want &= tt.exactly(ENV(F, nv), [M(q, (i, v)) for v in V], 1)
    for v in V:                                    # injective
        want &= tt.at_most(ENV(F, nv), [M(q, (i, v)) for i in range(1, k + 1)], 1)
    for (u, v) in e:                               # images of distinct clique members are adjacent
        for i in range(1, k + 1):
            for j in range(1, k + 1):
                if i != j:
                    want &= (FULL & ~(M(q, (i, u)) & M(q, (j, v)))) | M(e, (u, v))
    for v in V:                                    # r is a total function [n] -> [c]
        want &= tt.exactly(ENV(F, nv), [M(r, (v, l)) for l in range(1, c + 1)], 1)
    for (u, v) in e:                               # proper colouring
        for l in range(1, c + 1):
            want &= FULL & ~(M(e, (u, v)) & M(r, (u, l)) & M(r, (v, l)))
    cnt = compare(F, want, "CliqueColoring", case)
    sat = cnt > 0
    exp_sat = k <= n and k <= c and (c >= 1 or n == 0)
    if sat != exp_sat:
        raise Violation("CliqueColoring {}: satisfiable={} expected {}".format(case, sat, exp_sat))
    labels = [case['cls'], 'sat' if sat else 'unsat']
    if 0 in (n, k, c):
        labels.append('zero-parameter')
    if k == c + 1:
        labels.append('k=c+1')
    return Outcome(labels=labels, nontrivial=nv >= 1 and len(F) >= 1)


def enum_cliquecoloring(tier):
    maxv = QUICK_MAXV if tier == 'quick' else THOROUGH_MAXV
    for n in range(0, 6):
        for k in range(0, 5):
            for c in range(0, 5):
                if comb(n, 2) + k * n + n * c <= maxv:
                    for cls in ('CNF', 'OPB'):
                        yield {'n': n, 'k': k, 'c': c, 'cls': cls}


# ---------------------------------------------------------------------------
# the same families past the truth-table range

LARGE_RUNNERS = {}


def run_large(case):
    fam = case['family']
    runner = LARGE_RUNNERS[fam]
    _LARGE.update(on=True, rseed=case['rseed'], env=None)
    try:
        try:
            runner(case['case'])
        except _BatchOK as ok:
            nm = _LARGE['env'][2] if _LARGE['env'] else 0
            labels = [fam, 'models-found' if nm else 'no-model-found', 'accepted-rows' if ok.accepted else 'no-accepted-row']
            return Outcome(labels=labels, nontrivial=ok.rows >= 20)
        raise RuntimeError("harness: large mode did not reach the model comparison")
    finally:
        _LARGE.update(on=False, env=None)


@st.composite
def strat_large(draw):
    fam = draw(st.sampled_from(['php', 'gphp', 'bphp', 'rphp', 'count', 'matching', 'subsetcard', 'cliquecoloring']))
    I = lambda a, b: draw(st.integers(a, b))      # noqa
    B = lambda: draw(st.booleans())               # noqa
    if fam == 'php':
        m = I(3, 12)
        c = {'m': m, 'n': I(max(3, m - 1), 14), 'functional': B(), 'onto': B(), 'cls': 'CNF'}
    elif fam == 'gphp':
        g = draw(gg.bipartite_graphs(Lmin=4, Lmax=9, Rmin=5, Rmax=10, max_edges=60))
        c = {'graph': g, 'functional': B(), 'onto': B(), 'cls': 'CNF'}
    elif fam == 'bphp':
        m = I(3, 10)
        c = {'m': m, 'n': I(max(2, m - 1), 40), 'cls': 'CNF'}
    elif fam == 'rphp':
        m = I(2, 5)
        c = {'m': m, 'r': I(m, 7), 'n': I(max(1, m - 1), 7), 'cls': 'CNF'}
    elif fam == 'count':
        M, p = draw(st.sampled_from([(8, 2), (9, 3), (10, 2), (7, 3), (8, 4), (12, 2), (9, 2), (10, 5)]))
        c = {'M': M, 'p': p, 'cls': 'CNF'}
    elif fam == 'matching':
        c = {'graph': draw(gg.simple_graphs(nmin=8, nmax=14, max_edges=60)), 'cls': 'CNF'}
    elif fam == 'subsetcard':
        # small degrees on both sides (the clause encoding of "at most half" is exponential in the degree)
        n = I(6, 14)
        d = I(2, 4)
        edges = sorted(set((u, (u + j * (1 + n % 3)) % n + 1) for u in range(1, n + 1) for j in range(d)))
        c = {'graph': {'L': n, 'R': n, 'edges': [list(e) for e in edges], 'as': draw(st.sampled_from(['cnfgen', 'networkx', 'networkx-rl']))},
             'equalities': B(), 'cls': 'CNF'}
    else:
        c = {'n': I(5, 8), 'k': I(2, 4), 'c': I(2, 4), 'cls': 'CNF'}
    return {'family': fam, 'case': c, 'rseed': I(0, 10 ** 6)}


NT = "non-trivial: >=1 variable and >=1 clause; distinct by (family, parameters, edge list, class)"
ORACLE = "oracle: model set (all 2^n assignments, bit-parallel) equals the documented object predicate on name-decoded variables, and the model count equals an encoding-free count of the objects; "

LARGE_RUNNERS.update(php=run_php, gphp=run_gphp, bphp=run_bphp, rphp=run_rphp, count=run_count, matching=run_matching,
                     subsetcard=run_subsetcard, cliquecoloring=run_cliquecoloring)

SUBCHECKS = [
    SubCheck('large', run_large, strategy=strat_large, quick=200, thorough=6000,
             rule="the same families at 30-170 variables (php up to 12x14, graph-php up to 9x10, binary php, relativized php, counting up to C(12,2), perfect matching on 8-14 vertices, subset cardinality on 6-14 vertices per side, clique-colouring n<=8): the same reference predicates evaluated on a batch of ~110 assignments = up to 6 models found by DPLL, their 1-3-flip neighbours, random assignments of four densities, all-false and all-true; oracle: formula and predicate agree on every row; non-trivial: >=20 rows",
             required_labels=['models-found', 'accepted-rows', 'php', 'gphp', 'bphp', 'rphp', 'count', 'matching', 'subsetcard', 'cliquecoloring']),
    SubCheck('php', run_php, enumerate_cases=enum_php,
             rule="PigeonholePrinciple(m,n,functional,onto) for all m*n<=20 (thorough 22), four flag combinations, CNF and OPB; " + ORACLE + NT,
             required_labels=['sat', 'unsat', 'fun', 'nofun', 'onto', 'noonto', 'm>n', 'm=n', 'zero-parameter', 'CNF', 'OPB']),
    SubCheck('gphp', run_gphp, enumerate_cases=enum_gphp, strategy=strat_gphp, quick=800, thorough=40000,
             rule="GraphPigeonholePrinciple on every bipartite graph <=3x3 (thorough 3x4) and Hypothesis graphs <=4x5 with <=16 edges, cnfgen and networkx objects; " + ORACLE + NT,
             required_labels=['sat', 'unsat', 'networkx', 'networkx-rl', 'cnfgen', 'isolated-vertex', 'empty-side']),
    SubCheck('bphp', run_bphp, enumerate_cases=enum_bphp,
             rule="BinaryPigeonholePrinciple(m,n) for all m*ceil(log2 n)<=20 (thorough 22), n in 0..17; " + ORACLE + NT,
             required_labels=['sat', 'unsat', 'n-not-power-of-two', 'zero-parameter', 'one-hole']),
    SubCheck('rphp', run_rphp, enumerate_cases=enum_rphp,
             rule="RelativizedPigeonholePrinciple(m,r,n) for all triples with <=20 (thorough 22) variables; oracle: clause groups 3.1a-e as a predicate, satisfiable iff m<=r and m<=n; " + NT,
             required_labels=['sat', 'unsat', 'zero-parameter']),
    SubCheck('count', run_count, enumerate_cases=enum_count,
             rule="CountingPrinciple(M,p) for all C(M,p)<=20 (thorough 22), p up to M+2; " + ORACLE + NT,
             required_labels=['sat', 'unsat', 'p>M', 'p-does-not-divide-M', 'zero-parameter']),
    SubCheck('matching', run_matching, enumerate_cases=enum_matching, strategy=strat_matching, quick=600, thorough=30000,
             rule="PerfectMatchingPrinciple on every labelled graph <=5 (thorough 6) vertices and Hypothesis graphs <=8 vertices/18 edges; " + ORACLE + NT,
             required_labels=['sat', 'unsat', 'isolated-vertex', 'disconnected', 'odd-order', 'networkx']),
    SubCheck('subsetcard', run_subsetcard, enumerate_cases=enum_subsetcard, strategy=strat_subsetcard, quick=600, thorough=30000,
             rule="SubsetCardinalityFormula(B,equalities) on every bipartite graph <=3x3 (thorough 3x4) and Hypothesis graphs <=4x5; oracle: left >= ceil(d/2), right <= floor(d/2) (equalities: ==) on all assignments; " + NT,
             required_labels=['sat', 'unsat', 'equalities', 'inequalities', 'odd-degree', 'isolated-vertex', 'networkx-rl']),
    SubCheck('cliquecoloring', run_cliquecoloring, enumerate_cases=enum_cliquecoloring,
             rule="CliqueColoring(n,k,c) for all triples with <=20 (thorough 22) variables; oracle: clique map total/functional/injective/edge-forcing, colouring total/functional/proper; sat iff k<=n, k<=c, (c>=1 or n=0); " + NT,
             required_labels=['sat', 'unsat', 'zero-parameter', 'k=c+1']),
]


# ---------------------------------------------------------------------------
# the same cases after other work in the same process

from vlib import after as _after   # noqa: E402

SUBCHECKS.append(_after.make(SUBCHECKS, inner=['php', 'gphp', 'gphp', 'bphp', 'rphp', 'count', 'matching', 'subsetcard', 'subsetcard', 'cliquecoloring'],
                             as_prefix=['gphp', 'matching', 'subsetcard', 'php'],
                             required_labels=['after:cli', 'after:bipartite', 'after:case', 'then:gphp', 'then:subsetcard', 'then:matching']))

# ---------------------------------------------------------------------------
# the same cases with the formula built by the command line tools

from vlib import viacli as _viacli   # noqa: E402

SUBCHECKS.append(_viacli.make(SUBCHECKS, inner=['php', 'gphp', 'bphp', 'rphp', 'count', 'matching', 'subsetcard', 'cliquecoloring'], required_labels=['built-by-tool', 'via:cnfgen', 'via:pbgen']))


# ---------------------------------------------------------------------------
# 'php M N D' at the two ends of the degree range, where the graph is not random

def run_php_degree(case):
    """`php M N D`: every pigeon may fly to D random holes; D = 0 (no hole at all) and D = N (every hole) are deterministic"""
    import cnfgen
    from vlib import cli as _cli
    from cnfgen.clitools.cmdline import CLIError
    from cnfgen.graphs import BipartiteGraph
    m, n, D, fun, onto, tool = case['m'], case['n'], case['D'], case['functional'], case['onto'], case['tool']
    args = ['-q', '--seed', str(case['seed']), 'php', str(m), str(n), str(D)] + (['--functional'] if fun else []) + (['--onto'] if onto else [])
    what = "{} {}".format(tool, ' '.join(args))
    try:
        F = _cli.build(tool, args)
    except CLIError:
        # the command line may refuse a degree (the library graph is then not at stake); never silently build something else
        return Outcome(labels=['php-degree-refused', 'D=0' if D == 0 else 'D=N'], rejected=True, nontrivial=False)
    B = BipartiteGraph(m, n)
    if D == n:
        for u in range(1, m + 1):
            for v in range(1, n + 1):
                B.add_edge(u, v)
    nv = F.number_of_variables()
    if nv != m * D:
        raise Violation("{}: {} variables, but {} pigeons with {} holes each give {}".format(what, nv, m, D, m * D))
    dec = names.group(names.decode(F), 'p')
    expect_indices(dec, [(i, j) for i in range(1, m + 1) for j in range(1, n + 1)] if D == n else [], what)
    if nv <= THOROUGH_MAXV:
        x = {k_: tt.var_mask(nv, v) for k_, v in dec.items()}
        P, H = range(1, m + 1), range(1, n + 1)
        holes = {i: (list(H) if D == n else []) for i in P}
        pigeons = {j: (list(P) if D == n else []) for j in H}
        want = php_predicate(nv, x, P, H, holes, pigeons, fun, onto)
        got = tt.formula_tt(F)
        if got != want:
            raise Violation("{}: the formula is {} but pigeons with {} must be {}".format(
                what, 'satisfiable' if got else 'unsatisfiable', 'no hole to go to' if D == 0 else 'every hole available',
                'satisfiable' if want else 'unsatisfiable'))
    return Outcome(labels=['php-degree', 'D=0' if D == 0 else 'D=N', tool], nontrivial=m >= 1 and n >= 1)


def enum_php_degree(tier):
    k = 0
    for m in range(1, 5):
        for n in range(1, 5):
            for D in (0, n):
                for fun in (False, True):
                    for onto in (False, True):
                        k += 1
                        if m * D > THOROUGH_MAXV or (tier == 'quick' and k % 2):
                            continue
                        yield {'m': m, 'n': n, 'D': D, 'functional': fun, 'onto': onto, 'tool': ('cnfgen', 'pbgen')[k % 4 == 0], 'seed': k}


SUBCHECKS.append(
    SubCheck('php_degree', run_php_degree, enumerate_cases=enum_php_degree,
             rule="command lines 'php M N D' with D = 0 and D = N (M, N in 1..4, the four flag combinations, both tools): the two degrees for which the graph is not random; oracle: m*D variables named p_{i,j}, model set == the pigeonhole predicate on the empty / complete bipartite graph; non-trivial: all",
             required_labels=['php-degree', 'D=0', 'D=N']))
