"""C18 - any command line ends in a usable formula or a clean, shielded error."""
import os
import re
import random
import shutil
import tempfile

from hypothesis import strategies as st

from vlib.core import SubCheck, Violation, Outcome
from vlib import cli, argv_gen

PROPERTY = "C18"
ASSUMPTIONS = [
    "in-process emulation of main() (argv, captured stdout/stderr, SystemExit) stands for the real process; a sample is confirmed with real sub-processes (sub-check 'subprocess')",
    "numeric mutations stay small (<= 6, transformation arities <= 3) so that no generated command line can blow up; size is bounded by construction",
    "for errors detected before the output format is known (top-level parsing) the default marker of the tool is accepted as well as the marker of the requested format",
    "a LaTeX document is checked structurally only (one \\\\begin{document}/\\\\end{document}, no traceback)",
]

MARK = {'dimacs': 'c', 'opb': '*', 'latex': '%'}
HELP_FLAGS = {'-h', '--help', '-V', '--version', '--tutorial', '--help-graph', '--help-bipartite', '--help-dag'}
TRACE = re.compile(r'Traceback \(most recent call last\)|^\s+File ".*", line \d+', re.M)


# ---------------------------------------------------------------------------
# strict readers

def dimacs_problem(text):
    """None if text is a complete DIMACS CNF document, else a description of the problem."""
    n = m = None
    count = 0
    cur_open = False
    maxv = 0
    for i, line in enumerate(text.split('\n')):
        if line == '' or line.startswith('c'):
            continue
        if line.startswith('p'):
            if n is not None:
                return "second problem line at line {}".format(i + 1)
            parts = line.split()
            if len(parts) != 4 or parts[1] != 'cnf':
                return "bad problem line {!r}".format(line)
            try:
                n, m = int(parts[2]), int(parts[3])
            except ValueError:
                return "bad problem line {!r}".format(line)
            continue
        if n is None:
            return "clause before the problem line at line {}: {!r}".format(i + 1, line[:60])
        for tok in line.split():
            try:
                x = int(tok)
            except ValueError:
                return "non numeric token {!r} at line {}".format(tok, i + 1)
            if x == 0:
                count += 1
                cur_open = False
            else:
                cur_open = True
                maxv = max(maxv, abs(x))
    if n is None:
        return "no problem line"
    if cur_open:
        return "last clause not terminated"
    if count != m:
        return "{} clauses but the problem line says {}".format(count, m)
    if maxv > n:
        return "variable {} exceeds the declared {}".format(maxv, n)
    return None


_OPB_HEAD = re.compile(r'^\* #variable= (\d+) #constraint= (\d+)\s*$')
_OPB_TERM = re.compile(r'^[+-]\d+$')
_OPB_VAR = re.compile(r'^~?x(\d+)$')


def opb_problem(text):
    n = m = None
    count = 0
    maxv = 0
    for i, line in enumerate(text.split('\n')):
        if line == '':
            continue
        if line.startswith('*'):
            mm = _OPB_HEAD.match(line)
            if mm:
                if n is not None:
                    return "second header line"
                n, m = int(mm.group(1)), int(mm.group(2))
            continue
        if n is None:
            return "constraint before the header at line {}".format(i + 1)
        toks = line.replace(';', ' ').split()
        if len(toks) < 2 or toks[-2] not in ('>=', '='):
            return "bad constraint {!r}".format(line[:80])
        try:
            int(toks[-1])
        except ValueError:
            return "bad degree in {!r}".format(line[:80])
        body = toks[:-2]
        if len(body) % 2:
            return "odd number of tokens in {!r}".format(line[:80])
        for c, v in zip(body[::2], body[1::2]):
            vm = _OPB_VAR.match(v)
            if not _OPB_TERM.match(c) or not vm:
                return "bad term {!r} {!r} at line {}".format(c, v, i + 1)
            maxv = max(maxv, int(vm.group(1)))
        count += 1
    if n is None:
        return "no '* #variable= .. #constraint= ..' line"
    if count != m:
        return "{} constraints but the header says {}".format(count, m)
    if maxv > n:
        return "variable x{} exceeds the declared {}".format(maxv, n)
    return None


def latex_problem(text):
    if text.count('\\begin{document}') != 1 or text.count('\\end{document}') != 1:
        return "not exactly one document environment"
    if text.index('\\begin{document}') > text.index('\\end{document}'):
        return "document environment out of order"
    if text.count('\\begin{align}') != text.count('\\end{align}'):
        return "unbalanced align environments"
    return None


READERS = {'dimacs': dimacs_problem, 'opb': opb_problem, 'latex': latex_problem}


# ---------------------------------------------------------------------------

def requested_format(tool, args):
    fmt = None
    for i, a in enumerate(args):
        if a in ('-of', '--output-format') and i + 1 < len(args):
            if args[i + 1] in MARK:
                fmt = args[i + 1]
        if a in ('-l', '--latex'):
            fmt = 'latex'
    outfile = None
    for i, a in enumerate(args):
        if a in ('-o', '--output') and i + 1 < len(args):
            outfile = args[i + 1]
    if tool in ('cnfshuffle', 'kthlist2pebbling'):
        fmt = None           # these two tools only speak DIMACS, whatever the output file is called
    if fmt is None and tool == 'cnfgen' and outfile and outfile != '-':     # pbgen documents opb as its default format
        ext = os.path.splitext(outfile)[-1]
        fmt = {'.tex': 'latex', '.opb': 'opb'}.get(ext)
    default = 'opb' if tool == 'pbgen' else 'dimacs'
    return fmt, default, outfile


def _content(path):
    try:
        with open(path, 'rb') as fh:
            return fh.read()
    except OSError:
        return None


def _stale_output(tool, args, rseed):
    """every other case: the -o file exists already and holds a longer text (an earlier, larger formula)"""
    outfile = requested_format(tool, args)[2]
    if rseed % 2 == 0 and outfile and outfile != '-' and not os.path.isdir(outfile) and os.path.isdir(os.path.dirname(os.path.abspath(outfile))):
        try:
            with open(outfile, 'w') as fh:
                fh.write("c stale content of an earlier run\np cnf 900 300\n" + "".join("{} -{} {} 0\n".format(i, i + 1, i + 2) for i in range(1, 301)))
        except OSError:
            pass


def _pre(tool, args):
    outfile = requested_format(tool, args)[2]
    return _content(outfile) if outfile and outfile != '-' else None


def judge(tool, args, r, what, pre=None):
    """Classify the outcome; raises Violation when it is none of the three allowed ones."""
    fmt, default, outfile = requested_format(tool, args)
    if r.exc is not None:
        raise Violation("{}: terminated by an unhandled {}: {}".format(what, type(r.exc).__name__, str(r.exc)[:200]))
    if TRACE.search(r.err) or TRACE.search(r.out):
        raise Violation("{}: a traceback is printed".format(what))
    if r.code == 0:
        if any(a in HELP_FLAGS for a in args):
            return 'help'
        doc = r.out
        if outfile and outfile != '-':
            if not os.path.isfile(outfile):
                raise Violation("{}: exit 0 but the output file was not written".format(what))
            with open(outfile, encoding='utf-8', errors='replace') as fh:
                doc = fh.read()
            if r.out.strip():
                raise Violation("{}: output requested into a file but text appears on stdout".format(what))
        kind = fmt or default
        if tool == 'pbgen' and kind == 'dimacs':
            raise Violation("{}: pbgen produced DIMACS output".format(what))
        prob = READERS[kind](doc)
        if prob is not None:
            raise Violation("{}: exit status 0 but the output is not a complete {} document: {} (stdout starts {!r}, stderr {!r})".format(
                what, kind, prob, doc[:80], r.err[:200]))
        return 'success'
    # error
    if r.out.strip():
        raise Violation("{}: exit status {} but text was written to stdout: {!r}".format(what, r.code, r.out[:120]))
    if outfile and outfile != '-' and os.path.isfile(outfile) and os.path.getsize(outfile) > 0 \
            and _content(outfile) != pre:
        raise Violation("{}: exit status {} but a (partial) formula was written to {}".format(what, r.code, outfile))
    if not r.err.strip():
        raise Violation("{}: exit status {} without any message".format(what, r.code))
    marks = {MARK[default]}
    if fmt:
        marks.add(MARK[fmt])
    bad = [l for l in r.err.split('\n') if l.strip() and not any(l.startswith(mk) for mk in marks)]
    if bad:
        raise Violation("{}: error message line not shielded by the comment marker {}: {!r}".format(what, sorted(marks), bad[0][:120]))
    return 'clean-error'


# ---------------------------------------------------------------------------
# hostile command lines

DIMACS_TEXTS = ['p cnf 2 2\n1 -2 0\n2 0\n', 'p cnf 1 1\n3 0\n', '', 'garbage\n', 'p cnf 2 1\n1 2\n', 'c only comment\n',
                'p cnf 0 0\n', 'p cnf 2 2\n1 0\n', 'p cnf x y\n', 'p cnf 3 1\n1 2 3 0\n', 'c hi\np cnf 3 2\n1 -3 0\n\n2 0\n']
NUM_POOL = ['-1', '0', '1', '2', '3', '5', '6', 'x', '1.5', '', '-', '007']
T_NUM_POOL = ['-1', '0', '1', '2', '3', 'x']
FILE_KINDS = ['missing', 'dir', 'empty', 'garbage', 'wrongformat', 'binary', 'unreadable']
# good graph files whose names are legal but look like something else to code that pastes them into a template
WEIRD_NAMES = ['net{v2}', 'net{}', 'g{0}{1}', 'a{b', 'p}q', '100%s', '%(n)d', '$HOME', 'a b', "it's", 'g;ls', 'x*', 'q?', '[1]', 'tab\tname', '~g', 'c:\\g', '#1', '{{x}}']
GOOD_GRAPH = {'simple': "3\n1 : 0\n2 : 1 0\n3 : 1 2 0\n", 'dag': "3\n1 : 0\n2 : 1 0\n3 : 1 2 0\n", 'bipartite': "2 3\n1 1 0\n0 1 1\n"}


def _is_num(t):
    try:
        float(t)
        return True
    except ValueError:
        return False


@st.composite
def strat_case(draw):
    tool = draw(st.sampled_from(['cnfgen', 'cnfgen', 'cnfgen', 'pbgen', 'cnfshuffle', 'kthlist2pebbling']))
    muts = []
    stdin = None
    if tool in ('cnfgen', 'pbgen') and draw(st.integers(0, 9)) == 0:
        # the 'dimacs' sub-command: formula from a file or from the standard input
        stdin = draw(st.sampled_from(DIMACS_TEXTS))
        src = draw(st.sampled_from([[], ['-'], ['@FILE:garbage'], ['@FILE:missing'], ['@FILE:dir'], ['@FILE:cnf']]))
        out = draw(st.sampled_from(argv_gen.OUTPUT_OPTS + [['-o', '@OUT']]))
        if tool == 'pbgen':
            out = [] if 'dimacs' in out else out
        chain = draw(argv_gen.tchain(max_len=2)) if tool == 'cnfgen' else []
        return {'tool': tool, 'args': out + ['dimacs'] + src + chain, 'stdin': stdin, 'rseed': draw(st.integers(0, 5))}
    if tool in ('cnfgen', 'pbgen'):
        kind = draw(st.sampled_from(['graph', 'graph', 'numeric-random', 'numeric', 'graph-file-name']))
        if kind == 'graph-file-name':
            # a graph command whose construction is replaced by a good file with an unusual name; the modifiers stay
            cmd = draw(argv_gen.graph_command())
            idx = [i for i, t in enumerate(cmd) if t in ('gnp', 'gnm', 'gnd', 'grid', 'torus', 'complete', 'empty', 'glrp', 'glrm', 'glrd', 'regular', 'shift', 'path', 'tree', 'pyramid')]
            if idx:
                i = idx[0]
                j = i + 1
                while j < len(cmd) and _is_num(cmd[j]):
                    j += 1
                gt = 'bipartite' if cmd[i] in ('glrp', 'glrm', 'glrd', 'regular', 'shift') else ('dag' if cmd[i] in ('path', 'tree', 'pyramid') else 'simple')
                if cmd[0] in ('php', 'subsetcard', 'bphp') and gt == 'simple':
                    gt = 'bipartite'
                cmd[i:j] = draw(st.sampled_from([[], [], ['matrix' if gt == 'bipartite' else 'kthlist']])) + \
                    ['@FILE:good-{}:{}'.format(gt, draw(st.integers(0, len(WEIRD_NAMES) - 1)))]
        elif kind == 'graph':
            cmd = draw(argv_gen.graph_command())
        elif kind == 'numeric-random':
            cmd = draw(argv_gen.numeric_random_command())
        else:
            cmd = draw(argv_gen.deterministic_numeric_command())
        chain = draw(argv_gen.tchain(max_len=2, allow_expanding=cmd[0] not in argv_gen.WIDE)) if tool == 'cnfgen' else []
        out = draw(st.sampled_from(argv_gen.OUTPUT_OPTS + [['-o', '@OUT'], ['-o', '@OUT.tex'], ['-o', '@OUT.opb'], ['-o', '@DIR'], ['-o', '@NODIR/out.cnf'], ['-h'], ['--help-graph'],
                                                                   ['-o', 'opb'], ['-o', 'tex'], ['-o', 'dimacs'], ['-o', 'latex'], ['-o', 'a.opb.cnf'], ['-o', 'TEX']]))
        if tool == 'pbgen':
            out = [] if ('dimacs' in out) else out
        seed = ['--seed', str(draw(st.integers(0, 99)))] if draw(st.booleans()) else []
        args = seed + out + cmd
        nmut = draw(st.integers(0, 3)) if kind != 'graph-file-name' else draw(st.sampled_from([0, 0, 0, 1]))
        for _ in range(nmut):
            m = draw(st.sampled_from(['num', 'num', 'num', 'del', 'dup', 'bogus', 'file', 'save', 'swap', 'extra', 'helpsub', 'latepos']))
            if m == 'num':
                idx = [i for i, t in enumerate(args) if _is_num(t) and (i == 0 or args[i - 1] not in ('--seed',))]
                if idx:
                    args[draw(st.sampled_from(idx))] = draw(st.sampled_from(NUM_POOL))
            elif m == 'del' and args:
                del args[draw(st.integers(0, len(args) - 1))]
            elif m == 'dup' and args:
                i = draw(st.integers(0, len(args) - 1))
                args.insert(i, args[i])
            elif m == 'bogus':
                args.insert(draw(st.integers(0, len(args))), draw(st.sampled_from(['--bogus', '-Z', '--seed', '-of', 'foo', '-T'])))
            elif m == 'file':
                idx = [i for i, t in enumerate(args) if t in ('gnp', 'gnm', 'gnd', 'grid', 'torus', 'complete', 'empty', 'glrp', 'glrm', 'glrd', 'regular', 'shift', 'path', 'tree', 'pyramid')]
                if idx:
                    i = draw(st.sampled_from(idx))
                    j = i + 1
                    while j < len(args) and _is_num(args[j]):
                        j += 1
                    fk = draw(st.sampled_from(FILE_KINDS))
                    fmtk = draw(st.sampled_from([[], ['kthlist'], ['gml'], ['dot'], ['dimacs'], ['matrix']]))
                    if draw(st.integers(0, 2)) == 0:
                        # a good file of the right type under an unusual name (format by extension or named correctly)
                        gt = 'bipartite' if args[i] in ('glrp', 'glrm', 'glrd', 'regular', 'shift') else ('dag' if args[i] in ('path', 'tree', 'pyramid') else 'simple')
                        fk = 'good-{}:{}'.format(gt, draw(st.integers(0, len(WEIRD_NAMES) - 1)))
                        fmtk = draw(st.sampled_from([[], [], ['matrix' if gt == 'bipartite' else 'kthlist']]))
                    args[i:j] = fmtk + ['@FILE:' + fk]
            elif m == 'save':
                args += draw(st.sampled_from([['save'], ['save', '@DIR'], ['save', '@SAVE.kthlist'], ['save', 'gml', '@SAVE.x'],
                                              ['save', '@SAVE.zzz'], ['save', 'matrix', '@SAVE.m'], ['save', '@SAVE.gml', 'save', '@SAVE.dot'],
                                              ['save', '@NODIR/g.gml'], ['save', 'kthlist', '@NODIR/g'], ['save', '@NODIR/g.dot'], ['save', 'matrix', '@NODIR/g.matrix'],
                                              ['save', 'dot', '-'], ['save', 'kthlist', '-'], ['save', 'gml', '-'], ['save', 'matrix', '-'], ['save', '-']]))
            elif m == 'swap':
                idx = [i for i, t in enumerate(args) if t in ('gnp', 'gnm', 'gnd', 'complete', 'grid')]
                if idx:
                    args[draw(st.sampled_from(idx))] = draw(st.sampled_from(['glrp', 'glrd', 'path', 'pyramid', 'regular', 'nosuch']))
            elif m == 'extra':
                args += [draw(st.sampled_from(['7', 'extra', 'gnp', 'plantclique', 'addedges', '9', 'splitedges', 'plantbiclique']))]
            elif m == 'helpsub':
                args += ['-h']
            else:
                args = args + draw(st.sampled_from([['-q'], ['--varnames'], ['--seed', '3']]))
        # transformations: keep arities small whatever happened
        targs = []
        for t in chain:
            targs.append(t)
        if targs and draw(st.booleans()):
            idx = [i for i, t in enumerate(targs) if _is_num(t)]
            if idx:
                targs[draw(st.sampled_from(idx))] = draw(st.sampled_from(T_NUM_POOL))
        args = args + targs
    elif tool == 'cnfshuffle':
        args = draw(st.lists(st.sampled_from(['-p', '-v', '-c', '-q', '--seed', '5', '-i', '@FILE:garbage', '@FILE:missing', '-o', '@OUT', '@OUT.opb', '@OUT.tex', '@DIR', '--bogus', '-h']), max_size=5))
        stdin = draw(st.sampled_from(['p cnf 2 2\n1 -2 0\n2 0\n', 'p cnf 1 1\n3 0\n', '', 'garbage\n', 'p cnf 2 1\n1 2\n', 'c only comment\n',
                                      'p cnf 0 0\n', 'p cnf 2 2\n1 0\n', 'p cnf x y\n', '\x00\x01', 'p cnf 3 1\n1 2 3 0\n']))
    else:
        args = draw(st.lists(st.sampled_from(['-q', '-i', '@FILE:garbage', '@FILE:missing', '@FILE:dir', '-o', '@OUT', '@OUT.opb', '@OUT.tex', '@DIR', '--bogus', '-h', 'xor', '2', 'x', 'lift', '0', 'none', 'shuffle', 'flip', 'maj', '3']), max_size=5))
        stdin = draw(st.sampled_from(['3\n1 : 0\n2 : 0\n3 : 1 2 0\n', '2\n2 : 1 0\n', '', 'garbage\n', '2\n1 : 2 0\n', '1\n', '0\n', 'c x\n',
                                      '3\n3 : 1 2\n', '2\n2 : 1 0\n2 : 1 0\n', '2\n2 : 5 0\n', '-1\n']))
    return {'tool': tool, 'args': args, 'stdin': stdin, 'rseed': draw(st.integers(0, 5))}


def materialize(args, d):
    """Replace @-placeholders by paths inside the scratch directory d."""
    out = []
    for a in args:
        if a == '@DIR':
            p = os.path.join(d, 'adir')
            os.makedirs(p, exist_ok=True)
            out.append(p)
        elif a.startswith('@NODIR/'):
            out.append(os.path.join(d, 'no_such_dir', a[7:]))        # a place that cannot be written: its directory does not exist
        elif a.startswith('@OUT'):
            out.append(os.path.join(d, 'out' + a[4:]))
        elif a.startswith('@SAVE'):
            out.append(os.path.join(d, 'saved' + a[5:]))
        elif a.startswith('@FILE:good-'):
            gt, i = a[11:].split(':')
            p = os.path.join(d, WEIRD_NAMES[int(i)] + ('.matrix' if gt == 'bipartite' else '.kthlist'))
            with open(p, 'w') as f:
                f.write(GOOD_GRAPH[gt])
            out.append(p)
        elif a.startswith('@FILE:'):
            k = a[6:]
            p = os.path.join(d, 'in_' + k)
            if k == 'missing':
                pass
            elif k == 'dir':
                os.makedirs(p, exist_ok=True)
            elif k == 'empty':
                open(p, 'w').close()
            elif k == 'garbage':
                with open(p, 'w') as f:
                    f.write("this is not a graph\n1 2 3\n%%\n")
            elif k == 'cnf':
                with open(p, 'w') as f:
                    f.write("c a file\np cnf 3 2\n1 -2 0\n2 3 0\n")
            elif k == 'wrongformat':
                with open(p, 'w') as f:
                    f.write("p cnf 2 1\n1 2 0\n")
            elif k == 'binary':
                with open(p, 'wb') as f:
                    f.write(bytes(range(256)))
            elif k == 'unreadable':
                with open(p, 'w') as f:
                    f.write("3\n")
                os.chmod(p, 0)
            out.append(p)
        else:
            out.append(a)
    return out


def size_guard(tool, args):
    """True when the command line could be expensive: only numbers <= 6 reach sub-commands and <= 3 reach -T."""
    seen_T = False
    for a in args:
        if a == '-T':
            seen_T = True
            continue
        if _is_num(a):
            try:
                v = abs(float(a))
            except ValueError:
                continue
            if v > (3 if seen_T else 6) and not (v < 100 and False):
                return False
    # `complete N t` is the complete t-partite graph with parts of N vertices: for the families whose encoding is exponential
    # in the degree (Tseitin, even colouring) only small ones are run (a duplicated token easily asks for 36 vertices of degree 30)
    if any(a in ('tseitin', 'ec', 'parity', 'matching') for a in args):
        for i, a in enumerate(args):
            if a == 'complete' and i + 2 < len(args) and _is_num(args[i + 1]) and _is_num(args[i + 2]):
                try:
                    if abs(float(args[i + 1])) * max(0.0, abs(float(args[i + 2])) - 1) > 8:
                        return False
                except ValueError:
                    pass
    return True


EXPANDING = {'xor': 2, 'or': 2, 'maj': 3, 'eq': 2, 'neq': 2, 'one': 3, 'atleast': 3, 'atmost': 3, 'exact': 3, 'anybut': 3,
             'ite': 2, 'lift': 2, 'xorcomp': 4, 'majcomp': 4}


def bounded(tool, args, stdin):
    """Drops the -T chain when the base formula is too wide for a clause-expanding step: the base formula
    (numbers <= 6, so it is cheap) is built first and measured; nothing depends on a timeout."""
    if tool != 'cnfgen' or '-T' not in args:
        return args
    i = args.index('-T')
    chain = args[i:]
    if not any(t in EXPANDING for t in chain):
        return args
    try:
        random.seed(0)
        F = cli.build(tool, args[:i], stdin)
    except BaseException:      # noqa  (whatever goes wrong is judged on the full command line)
        return args
    width = max([len(c) for c in F] + [0])
    per = max(EXPANDING.get(t, 1) for t in chain)
    nexp = sum(1 for t in chain if t in EXPANDING)
    if len(F) * (per ** width) ** nexp > 200000 or width * 3 > 60:
        return args[:i]
    return args


def run_case(case):
    tool, stdin = case['tool'], case['stdin']
    d = tempfile.mkdtemp(prefix="c18_")
    try:
        args = materialize(case['args'], d)
        guarded = [a for i, a in enumerate(args) if not (i > 0 and args[i - 1] == '--seed')]
        if not case.get('sized') and not size_guard(tool, guarded):
            return Outcome(nontrivial=False, labels=['size-guard'])
        cwd0 = os.getcwd()
        os.chdir(d)
        try:
            args = bounded(tool, args, stdin)
        finally:
            os.chdir(cwd0)
        seedpos = [i for i, a in enumerate(args) if a == '--seed']
        random.seed(case['rseed'])
        cwd = os.getcwd()
        os.chdir(d)            # relative file names produced by mutations stay inside the scratch directory
        try:
            _stale_output(tool, args, case['rseed'])
            pre = _pre(tool, args)
            r = cli.run_main(tool, args, stdin)
            what = "{} {}".format(tool, ' '.join(case['args']))
            verdict = judge(tool, args, r, what, pre)
        finally:
            os.chdir(cwd)
    finally:
        for root, dirs, files in os.walk(d):
            for f in files:
                try:
                    os.chmod(os.path.join(root, f), 0o600)
                except OSError:
                    pass
        shutil.rmtree(d, ignore_errors=True)
    labels = [tool, verdict]
    if any(a.startswith('@FILE') and not a.startswith('@FILE:good-') for a in case['args']):
        labels.append('bad-file')
    if any(a.startswith('@FILE:good-') for a in case['args']):
        labels.append('good-file-unusual-name')
        if verdict == 'success':
            labels.append('good-file-unusual-name-used')
            if any(a in ('plantclique', 'plantbiclique', 'addedges', 'splitedges') for a in case['args']):
                labels.append('good-file-unusual-name-with-modifier')
    if any(a in ('@DIR',) for a in case['args']):
        labels.append('directory-argument')
    sub = [a for a in case['args'] if a.isalpha() and len(a) > 2]
    reached = tool in ('cnfshuffle', 'kthlist2pebbling') or bool(sub)
    return Outcome(labels=labels, nontrivial=reached)


def run_subprocess_case(case):
    """The same oracle on a real process (confirms the emulation)."""
    tool, stdin = case['tool'], case['stdin']
    d = tempfile.mkdtemp(prefix="c18p_")
    try:
        args = materialize(case['args'], d)
        guarded = [a for i, a in enumerate(args) if not (i > 0 and args[i - 1] == '--seed')]
        if not size_guard(tool, guarded):
            return Outcome(nontrivial=False, labels=['size-guard'])
        if '--seed' not in args and tool in ('cnfgen', 'pbgen'):
            args = ['--seed', '1'] + args
        cwd0 = os.getcwd()
        os.chdir(d)
        try:
            args = bounded(tool, args, stdin)
        finally:
            os.chdir(cwd0)
        for fn in os.listdir(d):
            if fn.startswith('out') or fn.startswith('saved'):
                try:
                    os.remove(os.path.join(d, fn))
                except OSError:
                    pass
        what = "(process) {} {}".format(tool, ' '.join(case['args']))
        os.chdir(d)          # relative output names are relative to the directory the process runs in
        try:
            pre = _pre(tool, args)
            r = cli.run_subprocess(tool, args, stdin, cwd=d)
            # a real process reports an escaping exception as a traceback + exit 1
            verdict = judge(tool, args, r, what, pre)
        finally:
            os.chdir(cwd0)
        random.seed(1)
        cwd = os.getcwd()
        os.chdir(d)
        try:
            for fn in os.listdir(d):        # forget what the first run wrote
                if fn.startswith('out') or fn.startswith('saved'):
                    try:
                        os.remove(os.path.join(d, fn))
                    except OSError:
                        pass
            pre2 = _pre(tool, args)
            r2 = cli.run_main(tool, args, stdin)
            try:
                v2 = judge(tool, args, r2, what, pre2)
            except Violation:
                v2 = 'violation'
        finally:
            os.chdir(cwd)
        if v2 != verdict:
            raise Violation("{}: the real process ends as {!r} (exit {}) but the in-process emulation as {!r}".format(what, verdict, r.code, v2))
    finally:
        for root, dirs, files in os.walk(d):
            for f in files:
                try:
                    os.chmod(os.path.join(root, f), 0o600)
                except OSError:
                    pass
        shutil.rmtree(d, ignore_errors=True)
    return Outcome(labels=[tool, verdict, 'subprocess'], nontrivial=True)


def enum_subprocess(tier):
    """commands that read the standard input: in a real process stdin is a pipe (not seekable)"""
    good = 'c hi\np cnf 3 2\n1 -3 0\n2 0\n'
    kth = '3\n1 : 0\n2 : 0\n3 : 1 2 0\n'
    for text in (good, 'garbage\n', ''):
        for opts in ([], ['-q'], ['-of', 'latex'], ['-of', 'opb'], ['--varnames']):
            yield {'tool': 'cnfgen', 'args': opts + ['dimacs'], 'stdin': text, 'rseed': 0}
            yield {'tool': 'cnfgen', 'args': opts + ['dimacs', '-'], 'stdin': text, 'rseed': 0}
            yield {'tool': 'cnfgen', 'args': opts + ['dimacs', '-T', 'xor', '2'], 'stdin': text, 'rseed': 0}
        yield {'tool': 'pbgen', 'args': ['dimacs'], 'stdin': text, 'rseed': 0}
        yield {'tool': 'pbgen', 'args': ['-of', 'latex', 'dimacs'], 'stdin': text, 'rseed': 0}
        for flags in ([], ['-q'], ['-p', '-v', '-c'], ['-i', '-']):
            yield {'tool': 'cnfshuffle', 'args': ['--seed', '3'] + flags, 'stdin': text, 'rseed': 0}
    for text in (kth, 'garbage\n', ''):
        for a in ([], ['-q'], ['xor', '2'], ['-i', '-']):
            yield {'tool': 'kthlist2pebbling', 'args': a, 'stdin': text, 'rseed': 0}
    # the DIMACS-only tools writing into files whose names look like another format
    for ext in ('', '.cnf', '.opb', '.tex', '.dimacs'):
        yield {'tool': 'cnfshuffle', 'args': ['--seed', '3', '-o', '@OUT' + ext], 'stdin': good, 'rseed': 1}
        yield {'tool': 'kthlist2pebbling', 'args': ['-o', '@OUT' + ext], 'stdin': kth, 'rseed': 1}
    for a in (['peb', 'kthlist', '-'], ['kcolor', '2', 'kthlist', '-'], ['php', 'matrix', '-']):
        yield {'tool': 'cnfgen', 'args': a, 'stdin': '2 2\n1 0\n1 1\n' if 'matrix' in a else kth, 'rseed': 0}
    # a graph argument read from the standard input, in every format keyword (and without one), with text that is not such a graph
    for tool in ('cnfgen', 'pbgen'):
        for a in (['peb', 'kthlist', '-'], ['kcolor', '2', 'kthlist', '-'], ['kcolor', '2', 'gml', '-'], ['kcolor', '2', 'dot', '-'],
                  ['kcolor', '2', 'dimacs', '-'], ['php', 'matrix', '-'], ['php', 'kthlist', '-'], ['php', 'gml', '-'], ['kcolor', '2', '-'],
                  ['stone', '2', 'gml', '-'], ['tseitin', 'first', 'dimacs', '-', 'addedges', '1']):
            for text in ('garbage\n', '', '3\n1 : 0\n2 : 7 0\n', 'graph [\n node [ id 1 ]\n', '2 2\n1 0\n1\n', 'p edge 2 1\ne 1 5\n'):
                yield {'tool': tool, 'args': a, 'stdin': text, 'rseed': 0}


# ---------------------------------------------------------------------------
# the process environment: text encoding of the standard streams, locale; legal non-ASCII arguments

ENVS = {'default': {}, 'stdout-ascii': {'PYTHONIOENCODING': 'ascii'}, 'stdout-latin1': {'PYTHONIOENCODING': 'latin-1'},
        'C-locale': {'LC_ALL': 'C', 'LANG': 'C', 'PYTHONUTF8': '0', 'PYTHONCOERCECLOCALE': '0'}, 'utf8-mode': {'PYTHONUTF8': '1', 'LC_ALL': 'C'}}
FULLWIDTH = str.maketrans('0123456789', '\uff10\uff11\uff12\uff13\uff14\uff15\uff16\uff17\uff18\uff19')


def run_environment(case):
    tool, stdin = case['tool'], case.get('stdin')
    d = tempfile.mkdtemp(prefix="c18e_")
    try:
        for name, text in case.get('files', {}).items():
            with open(os.path.join(d, name), 'w', encoding='utf-8') as f:
                f.write(text)
        args = list(case['args'])
        pre = None
        cwd0 = os.getcwd()
        os.chdir(d)          # judge() looks at the -o file relative to the working directory of the tool
        try:
            full = case.get('sink') == 'full' and os.path.exists('/dev/full')
            r = cli.run_subprocess(tool, args, stdin, cwd=d, extra_env=ENVS[case['env']],
                                   stdout_path='/dev/full' if full and '-o' not in args else None)
            what = "(process, environment {}{}) {} {}".format(ENVS[case['env']] or 'default', ', output device full' if full else '', tool, ' '.join(args))
            if full:
                # every write fails (no space left on device): the formula cannot have been delivered, so exit status 0 is a lie
                if r.code == 0:
                    raise Violation("{}: exit status 0 although nothing could be written".format(what))
                if TRACE.search(r.err):
                    raise Violation("{}: a traceback is printed".format(what))
                bad = [l for l in r.err.split('\n') if l.strip() and not l.startswith(('c', '*', '%'))]
                if bad or not r.err.strip():
                    raise Violation("{}: the failure is not reported in shielded lines: {!r}".format(what, (bad or [''])[0][:120]))
                verdict = 'clean-error'
            else:
                verdict = judge(tool, args, r, what, pre)
        finally:
            os.chdir(cwd0)
    finally:
        shutil.rmtree(d, ignore_errors=True)
    nonascii = any(ord(ch) > 127 for a in args for ch in a) or bool(stdin and any(ord(ch) > 127 for ch in stdin))
    return Outcome(labels=[tool, 'env:' + case['env'], verdict] + (['non-ascii-argument'] if nonascii else []) + (['device-full'] if case.get('sink') == 'full' else []),
                   nontrivial=nonascii or case['env'] != 'default' or case.get('sink') == 'full')


def enum_environment(tier):
    kth = '3\n1 : 0\n2 : 0\n3 : 1 2 0\n'
    cmds = []
    for opts in ([], ['-q'], ['-of', 'opb'], ['-of', 'latex'], ['-o', 'out.cnf'], ['-o', 'out.opb'], ['-o', 'out.tex'], ['-o', 'out-\u00fc\u03b1.cnf'], ['-v', '--varnames']):
        cmds.append(('cnfgen', opts + ['php', '3', '2'], None, {}))
        cmds.append(('cnfgen', opts + ['php', '3'.translate(FULLWIDTH), '2'.translate(FULLWIDTH)], None, {}))
        cmds.append(('cnfgen', opts + ['kcolor', '2', 'kthlist', 'grafo-\u00fc.kthlist'], None, {'grafo-\u00fc.kthlist': kth}))
        cmds.append(('cnfgen', opts + ['op', '3', '-T', 'xor', '2'.translate(FULLWIDTH)], None, {}))
    for opts in ([], ['-q'], ['-of', 'latex'], ['-o', 'out.opb'], ['-o', 'out-\u00e9.opb']):
        cmds.append(('pbgen', opts + ['php', '3'.translate(FULLWIDTH), '2']  , None, {}))
        cmds.append(('pbgen', opts + ['matching', 'kthlist', 'grafo-\u00fc.kthlist'], None, {'grafo-\u00fc.kthlist': kth}))
    for fl in ([], ['-q'], ['-p', '-v', '-c']):
        cmds.append(('cnfshuffle', ['--seed', '3'] + fl, 'c commento \u00e8 \u03b1\np cnf 3 2\n1 -3 0\n2 0\n', {}))
    cmds.append(('kthlist2pebbling', [], 'c grafo \u00fc\n' + kth, {}))
    cmds.append(('kthlist2pebbling', ['-i', 'grafo-\u00fc.kthlist'], None, {'grafo-\u00fc.kthlist': kth}))
    kth2 = '3\n1 : 0\n2 : 0\n3 : 1 2 0\n'
    if os.path.exists('/dev/full'):
        # the output cannot be written: to the standard output, and to the file named by -o
        for tool, args, stdin in (('cnfgen', ['php', '5', '4'], None), ('cnfgen', ['-of', 'latex', 'php', '3', '2'], None), ('cnfgen', ['-o', '/dev/full', 'php', '5', '4'], None),
                                  ('cnfgen', ['-q', '-o', '/dev/full', 'op', '4'], None), ('pbgen', ['php', '5', '4'], None), ('pbgen', ['-o', '/dev/full', 'php', '5', '4'], None),
                                  ('cnfshuffle', ['--seed', '3'], 'p cnf 3 2\n1 -3 0\n2 0\n'), ('cnfshuffle', ['--seed', '3', '-o', '/dev/full'], 'p cnf 3 2\n1 -3 0\n2 0\n'),
                                  ('kthlist2pebbling', [], kth2), ('kthlist2pebbling', ['-o', '/dev/full'], kth2)):
            yield {'tool': tool, 'args': args, 'stdin': stdin, 'files': {}, 'env': 'default', 'sink': 'full'}
    i = 0
    for env in ENVS:
        for tool, args, stdin, files in cmds:
            i += 1
            if tier == 'quick' and i % 4 != (1 if env != 'stdout-ascii' else i % 4) and not (env == 'stdout-ascii' and i % 2):
                continue
            yield {'tool': tool, 'args': args, 'stdin': stdin, 'files': files, 'env': env}


# every graph-taking sub-command with its graph argument replaced by each kind of file, by construction
_GRAPH_SLOTS = [(['kcolor', '2'], 'simple', []), (['domset', '1'], 'simple', []), (['tiling'], 'simple', []), (['kclique', '2'], 'simple', []),
                (['kcliquebin', '2'], 'simple', []), (['ramlb', '2', '2'], 'simple', []), (['matching'], 'simple', []), (['tseitin', 'first'], 'simple', []),
                (['op'], 'simple', []), (['iso'], 'simple', []), (['iso', 'complete', '2', '-e'], 'simple', []), (['subgraph', '-G'], 'simple', ['-H', 'complete', '2']),
                (['subgraph', '-G', 'complete', '3', '-H'], 'simple', []), (['ec'], 'simple', []), (['php'], 'bipartite', []), (['subsetcard'], 'bipartite', []),
                (['peb'], 'dag', []), (['stone', '2'], 'dag', []), (['php', '3', '2', '-T', 'xorcomp'], 'bipartite', []), (['op', '3', '-T', 'majcomp'], 'bipartite', [])]


def enum_hostile(tier):
    # every number of variables from 0 to 40 gets printed once in every format (cheap formulas: one wide clause, N unit clauses)
    for N in range(0, 41):
        for k, (tool, out) in enumerate([('cnfgen', []), ('cnfgen', ['-of', 'opb']), ('pbgen', []), ('cnfgen', ['-q']), ('cnfgen', ['-of', 'latex'])]):
            if tier == 'quick' and (N + k) % 2 and k >= 3:
                continue
            yield {'tool': tool, 'args': out + [['or', str(N), '0'], ['and', str(N), '0'], ['or', '0', str(N)]][(N + k) % 3], 'stdin': None, 'rseed': 0, 'sized': True}
    # `save <format> -`: a dash is a file name like any other here; whatever happens, the standard output holds the formula only
    for cmd in (['kcolor', '3', 'gnp', '5', '.5'], ['php', 'glrp', '3', '3', '.5'], ['peb', 'pyramid', '2'], ['tseitin', 'first', 'grid', '2', '2']):
        for fmt in (['dot'], ['kthlist'], ['gml'], ['matrix'], ['dimacs'], []):
            for tool in ('cnfgen', 'pbgen'):
                yield {'tool': tool, 'args': ['--seed', '3'] + cmd + ['save'] + fmt + ['-'], 'stdin': None, 'rseed': 0}
    # output files whose whole name is a format word (no extension: the default format applies)
    for name in ('opb', 'tex', 'latex', 'dimacs', 'cnf', 'OPB', 'a.opb.cnf', 'x.tex.txt'):
        for tool, cmd in (('cnfgen', ['php', '3', '2']), ('cnfgen', ['-q', 'op', '3']), ('pbgen', ['php', '3', '2']), ('cnfgen', ['-of', 'opb', 'php', '2', '1'])):
            yield {'tool': tool, 'args': ['-o', name] + cmd, 'stdin': None, 'rseed': 0}
    i = 0
    for si, (pre, gt, post) in enumerate(_GRAPH_SLOTS):
        for ki, fk in enumerate(FILE_KINDS + ['good-{}:{}'.format(gt, k) for k in (0, 1, 5, 8)]):
            for fi, fmtk in enumerate(([], ['matrix' if gt == 'bipartite' else 'kthlist'], ['gml'])):
                i += 1
                if tier == 'quick' and (si + ki + fi) % 3 != 0:
                    continue
                for tool in ('cnfgen', 'pbgen'):
                    if tool == 'pbgen' and ('-T' in pre or i % 2):
                        continue
                    mods = [[], ['addedges', '1'], ['plantclique', '2'] if gt == 'simple' else (['plantbiclique', '1', '1'] if gt == 'bipartite' else [])][i % 3]
                    yield {'tool': tool, 'args': pre + fmtk + ['@FILE:' + fk] + (mods if gt != 'dag' else []) + post, 'stdin': None, 'rseed': i % 5}


# ---------------------------------------------------------------------------
# standard descriptors that are closed (not redirected: closed, as `cmd <&-`, `2>&-`, `>&-` do)

def _run_closed(tool, args, closed, cwd, hashseed='0'):
    """real process with the descriptors in `closed` closed before the interpreter starts"""
    import subprocess
    import sys
    repo = os.environ.get('VERIF_REPO', '/repo')
    env = {k: v for k, v in os.environ.items() if k != 'PYTHONHASHSEED'}
    env.update({'PYTHONPATH': repo, 'PYTHONHASHSEED': hashseed, 'PYTHONWARNINGS': 'ignore'})
    code = "import sys; sys.argv[0]={!r}; from {} import main; main()".format(tool, cli.TOOLS[tool])

    def pre():
        for fd in closed:
            try:
                os.close(fd)
            except OSError:
                pass
    p = subprocess.run([sys.executable] + (['-O'] if sys.flags.optimize else []) + ['-c', code] + [str(a) for a in args],
                       stdin=subprocess.DEVNULL, stdout=subprocess.PIPE, stderr=subprocess.PIPE, cwd=cwd, env=env, timeout=120,
                       preexec_fn=pre, encoding='utf-8', errors='replace')
    return cli.Result(p.returncode & 0xFF, p.stdout or '', p.stderr or '', None)


DESCRIPTOR_COMMANDS = [
    # (tool, args, needs stdin)
    ('cnfgen', ['-q', 'php', '3', '2'], False), ('cnfgen', ['php', '3', '2', '-T', 'xor', '2'], False), ('pbgen', ['-q', 'php', '3', '2'], False),
    ('cnfgen', ['-q', 'dimacs', '@CNF'], False), ('pbgen', ['dimacs', '@CNF'], False), ('cnfgen', ['-q', 'kcolor', '3', 'kthlist', '@DAG'], False),
    ('cnfshuffle', ['-q', '--seed', '1', '-i', '@CNF'], False), ('cnfshuffle', ['--seed', '3', '-i', '@CNF'], False),
    ('kthlist2pebbling', ['-q', '-i', '@DAG'], False), ('kthlist2pebbling', ['-i', '@DAG', 'xor', '2'], False),
    ('cnfgen', ['-q', '-of', 'latex', 'op', '3'], False), ('cnfgen', ['-q', '-of', 'opb', 'count', '4', '2'], False),
    ('cnfgen', ['-q', 'dimacs'], True), ('pbgen', ['-q', 'dimacs'], True), ('cnfshuffle', ['-q'], True), ('kthlist2pebbling', ['-q'], True),
    ('cnfgen', ['-q', 'kcolor', '3', 'kthlist'], True), ('cnfgen', ['-q', 'peb', 'kthlist'], True),
    # command lines that are wrong whatever the descriptors are
    ('cnfgen', ['php'], False), ('cnfgen', ['nosuchformula'], False), ('pbgen', ['nosuchformula'], False), ('cnfgen', ['kcolor', '3', '@MISSING'], False),
    ('cnfgen', ['php', '3', 'x'], False), ('cnfshuffle', ['-i', '@MISSING'], False), ('kthlist2pebbling', ['-i', '@MISSING'], False), ('cnfgen', ['php', '3', '2', '-T', 'bogus'], False),
]


def run_descriptors(case):
    tool, closed = case['tool'], case['closed']
    d = tempfile.mkdtemp(prefix="c18d_")
    try:
        with open(os.path.join(d, 'f.cnf'), 'w') as fh:
            fh.write("c a file\np cnf 3 3\n1 -2 0\n2 3 0\n-1 0\n")
        with open(os.path.join(d, 'g.kthlist'), 'w') as fh:
            fh.write("4\n1 : 0\n2 : 0\n3 : 1 2 0\n4 : 3 0\n")
        args = [{'@CNF': 'f.cnf', '@DAG': 'g.kthlist', '@MISSING': 'no_such_file.kthlist'}.get(a, a) for a in case['args']]
        if case.get('to_file'):
            args = ['-o', 'out.txt'] + args if tool in ('cnfgen', 'pbgen') else args + ['-o', 'out.txt']
            if tool == 'kthlist2pebbling':      # options first
                args = ['-o', 'out.txt'] + [a for a in args if a not in ('-o', 'out.txt')]
        ref = _run_closed(tool, args, (), d)                      # nothing closed (standard input on /dev/null)
        if case.get('to_file') and os.path.exists(os.path.join(d, 'out.txt')):
            refdoc = open(os.path.join(d, 'out.txt'), encoding='utf-8', errors='replace').read()
            os.unlink(os.path.join(d, 'out.txt'))
        else:
            refdoc = ref.out
        r = _run_closed(tool, args, closed, d)
        doc = r.out
        if case.get('to_file') and os.path.exists(os.path.join(d, 'out.txt')):
            doc = open(os.path.join(d, 'out.txt'), encoding='utf-8', errors='replace').read()
    finally:
        shutil.rmtree(d, ignore_errors=True)
    names = {0: 'standard input', 1: 'standard output', 2: 'standard error'}
    what = "{} {} with the {} closed".format(tool, ' '.join(args), ' and the '.join(names[f] for f in closed))
    if TRACE.search(r.err) or TRACE.search(r.out):
        raise Violation("{}: a traceback is printed: {!r}".format(what, (r.err or r.out)[-300:]))
    labels = [tool, 'closed:' + ','.join(str(f) for f in closed)]
    needs_closed = (0 in closed and case['needs_stdin']) or (1 in closed and not case.get('to_file') and ref.code == 0)
    if ref.code == 0 and not needs_closed:
        # the command line is fine and does not need what is closed: same formula, exit status 0
        if r.code != 0:
            raise Violation("{}: exit status {} although the command line is legal and does not use that descriptor (stderr {!r})".format(what, r.code, r.err[:200]))
        if 1 not in closed or case.get('to_file'):
            strip = lambda t: "\n".join(l for l in t.split("\n") if not l.startswith(('c ', '* ', '% ')) and l.strip() not in ('c', '*', '%'))    # noqa
            if strip(doc) != strip(refdoc):
                raise Violation("{}: the formula differs from the one produced with nothing closed".format(what))
        labels.append('works-without-it')
        return Outcome(labels=labels, nontrivial=True)
    # an error is due: from the command line itself, or because a needed descriptor is closed
    if r.code == 0:
        raise Violation("{}: exit status 0 although {}".format(
            what, 'the command line is wrong' if ref.code != 0 else 'it needs a descriptor that is closed'))
    if r.out.strip():
        raise Violation("{}: exit status {} but text on the standard output: {!r}".format(what, r.code, r.out[:120]))
    if 2 not in closed:
        if not r.err.strip():
            raise Violation("{}: exit status {} without any message".format(what, r.code))
        bad = [l for l in r.err.split('\n') if l.strip() and not l.startswith(('c ', '* ', '% ', 'c', '*', '%'))]
        if bad:
            raise Violation("{}: error message line not shielded: {!r}".format(what, bad[0][:160]))
    labels.append('clean-error')
    return Outcome(labels=labels, nontrivial=True)


def enum_descriptors(tier):
    i = 0
    for tool, args, needs in DESCRIPTOR_COMMANDS:
        for closed in ([0], [2], [0, 2], [1], [0, 1, 2]):
            for to_file in (False, True):
                if to_file and (needs and tool in ('cnfgen', 'pbgen') and False):
                    continue
                i += 1
                if tier == 'quick' and i % 3 != 1:
                    continue
                yield {'tool': tool, 'args': args, 'needs_stdin': needs, 'closed': closed, 'to_file': to_file}


TOOLS = ['cnfgen', 'pbgen', 'cnfshuffle', 'kthlist2pebbling']

SUBCHECKS = [
    SubCheck('hostile', run_case, strategy=strat_case, enumerate_cases=enum_hostile, quick=3000, thorough=150000,
             rule="enumerated: formulas with 0..40 variables printed by both tools in every format; -o files whose whole name is a format word (opb, tex, latex, dimacs, ...); `save [<format>] -` on four graph commands; twenty graph slots (every graph-taking sub-command, both graphs of iso -e and subgraph, the graph of -T xorcomp/majcomp) x seven kinds of bad file and four good files under unusual names x format keyword (none, the right one, gml) x a modifier, both tools (quick: a third); generated: valid command lines of every sub-command (graph constructions, numeric forms, -T chains, every output option, -o into fresh files, into files that already hold a longer text, and into directories) with 0..3 mutations: numbers replaced by -1/0/1/2/3/5/6/x/1.5/empty, tokens deleted/duplicated, unknown options, graph constructions replaced by missing/directory/empty/garbage/wrong-format/binary/unreadable files with every format keyword, or by a good file of the right graph type whose name is legal but unusual (braces and format fields, percent signs, $, blanks, quotes, glob characters, a tab, a backslash - 19 names), 'save' into bad places (a directory, a directory that does not exist, unknown extensions), constructions of the wrong graph type, extra tokens, -h anywhere; cnfshuffle and kthlist2pebbling with option soups and good/garbage stdin; oracle: exactly one of {exit 0 + complete document accepted by the strict reader of the format, help + exit 0, non-zero exit + empty stdout + non-empty stderr with every line starting with the comment marker}; never an escaping exception or traceback; non-trivial: the argv names a sub-command",
             required_labels=TOOLS + ['success', 'clean-error', 'help', 'bad-file', 'directory-argument', 'good-file-unusual-name-used', 'good-file-unusual-name-with-modifier']),
    SubCheck('subprocess', run_subprocess_case, strategy=strat_case, enumerate_cases=enum_subprocess, quick=32, thorough=2500,
             rule="the same generator, each command line run as a real process; enumerated: commands that read a formula or a graph from the standard input (every format keyword, and none) fed through a pipe with good and with malformed text (python -c 'from <tool module> import main; main()') and compared with the in-process verdict",
             required_labels=['subprocess']),
    SubCheck('descriptors', run_descriptors, enumerate_cases=enum_descriptors, opt_pass=False,
             rule="26 command lines of the four tools (12 legal ones that do not read the standard input, 6 that read a formula or a graph from it, 8 wrong ones) x the standard input, the standard error, both, the standard output, or all three CLOSED before the interpreter starts (as `<&-`, `2>&-`, `>&-` do: sys.stdin / sys.stdout / sys.stderr are None) x output to the standard output or to -o <file> (quick: a third); oracle: never a traceback; a legal command line that does not need what is closed exits 0 with the same formula as with nothing closed; a wrong command line, or one that needs a closed descriptor, exits non-zero, writes nothing to the standard output and - when the standard error is open - a shielded message; non-trivial: all",
             required_labels=['closed:0', 'closed:2', 'closed:1', 'closed:0,2', 'closed:0,1,2', 'works-without-it', 'clean-error'] + TOOLS),
    SubCheck('environment', run_environment, enumerate_cases=enum_environment,
             rule="real processes under five environments (default, stdout limited to ASCII, to latin-1, C locale without UTF-8 mode, UTF-8 mode) x command lines of the four tools that are legal but not ASCII (numbers typed with fullwidth digits, graph files and -o files with accented / Greek names, comments with accented letters on stdin), every output format, to stdout and to files (quick: a quarter, half under ASCII stdout); plus every tool writing to a device on which every write fails (/dev/full, as standard output and as -o file): non-zero exit status and a shielded message, never exit 0; same oracle as 'hostile' on the process; non-trivial: a non-ASCII argument or a non-default environment",
             required_labels=['env:stdout-ascii', 'env:C-locale', 'non-ascii-argument', 'success', 'device-full']),
]
