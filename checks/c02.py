"""C02 - graph-problem families are satisfiable exactly when the graph has the property."""
import itertools
from math import factorial

from hypothesis import strategies as st

from vlib.core import SubCheck, Violation, Outcome
from vlib import tt, names, sat
from vlib import graphs_gen as gg
from checks.c01 import formula_class, compare, expect_indices, ENV, _LARGE, _BatchOK

PROPERTY = "C02"
ASSUMPTIONS = [
    "witnesses are counted by brute force on the graph (no formula code involved)",
    "symmetry breaking in SubgraphFormula is only exercised with complete or empty pattern graphs (the docstring restricts it to symmetric patterns)",
    "instances above 22 variables are decided by the DPLL model counter of vlib/sat.py (CNF class only)",
    "colouring labels x_{vc} are decoded positionally (single digit vertex and colour)",
]

MAXV = 22


def models(F):
    """(count, truth table or None)"""
    from cnfgen.formula.baseopb import BaseOPB
    n = F.number_of_variables()
    if n <= MAXV:
        t = tt.formula_tt(F)
        return tt.popcount(t), t
    if isinstance(F, BaseOPB):
        return None, None
    return sat.count(n, [list(c) for c in F]), None


def glabels(g):
    return gg.graph_labels(g['n'], g['edges']) + [g.get('as', 'cnfgen')]


# ---------------------------------------------------------------------------
# Tseitin

def run_tseitin(case):
    from cnfgen import TseitinFormula
    g = case['graph']
    n, edges = g['n'], [tuple(e) for e in g['edges']]
    charges = case['charges']
    G = gg.build_simple(g)
    arg = None if charges is None else list(charges)
    F = TseitinFormula(G, charges=arg, formula_class=formula_class(case['cls']))
    if arg is not None and arg != list(charges):
        raise Violation("TseitinFormula modified its charges argument")
    nv = F.number_of_variables()
    E = ENV(F, nv)      # the variable count, or a batch of assignments in large mode
    if nv != len(edges):
        raise Violation("Tseitin {}: {} variables for {} edges".format(case, nv, len(edges)))
    dec = names.group(names.decode(F), 'E')
    expect_indices(dec, edges, "Tseitin {}".format(case))
    if charges is None:
        ch = [True] + [False] * (n - 1)
    else:
        ch = [bool(c) for c in charges]
    ch = (ch + [False] * n)[:n]
    want = tt.full(E)
    for v in range(1, n + 1):
        x = tt.xor_all(E, [tt.var_mask(E, vid) for e, vid in dec.items() if v in e])
        want &= x if ch[v - 1] else tt.neg(E, x)
    cnt = compare(F, want, "TseitinFormula", case)
    comps = gg.components(n, edges)
    ok = all(sum(ch[v - 1] for v in comp) % 2 == 0 for comp in comps)
    exp = 2 ** (len(edges) - n + len(comps)) if ok else 0
    if cnt != exp:
        raise Violation("Tseitin {}: {} models, expected {} (components {}, charges {})".format(case, cnt, exp, comps, ch))
    labels = glabels(g) + [case['cls'], 'sat' if cnt else 'unsat']
    if charges is None:
        labels.append('default-charges')
    elif len(charges) < n:
        labels.append('short-charges')
    elif len(charges) > n:
        labels.append('long-charges')
    if charges and any(not isinstance(c, bool) for c in charges):
        labels.append('non-bool-charges')
    return Outcome(labels=labels, nontrivial=nv >= 1 and len(F) >= 1)


def enum_tseitin(tier):
    nmax = 4
    for i, g in enumerate(gg.all_simple_graphs(nmax)):
        n = g['n']
        for ch in itertools.product([0, 1], repeat=n):
            c = dict(g)
            c['as'] = gg.SIMPLE_ROT[(i + sum(ch)) % len(gg.SIMPLE_ROT)]
            yield {'graph': c, 'charges': [bool(x) for x in ch], 'cls': 'OPB' if (i + sum(ch)) % 2 else 'CNF'}
        c = dict(g)
        c['as'] = 'cnfgen'
        yield {'graph': c, 'charges': None, 'cls': 'CNF'}


@st.composite
def strat_tseitin(draw):
    g = draw(gg.simple_graphs(nmin=0, nmax=8, max_edges=18))
    n = g['n']
    kind = draw(st.sampled_from(['exact', 'short', 'long', 'none', 'ints']))
    if kind == 'none':
        ch = None
    elif kind == 'ints':
        ch = draw(st.lists(st.integers(0, 3), min_size=n, max_size=n))
    else:
        ln = n if kind == 'exact' else (draw(st.integers(0, max(0, n - 1))) if kind == 'short' else n + draw(st.integers(1, 3)))
        ch = draw(st.lists(st.booleans(), min_size=ln, max_size=ln))
    return {'graph': g, 'charges': ch, 'cls': draw(st.sampled_from(['CNF', 'OPB']))}


# ---------------------------------------------------------------------------
# colouring

def count_colorings(n, edges, k):
    cnt = 0
    for col in itertools.product(range(k), repeat=n):
        if all(col[u - 1] != col[v - 1] for u, v in edges):
            cnt += 1
    return cnt


def run_kcolor(case):
    from cnfgen import GraphColoringFormula
    g = case['graph']
    n, edges = g['n'], [tuple(e) for e in g['edges']]
    k, fun = case['k'], case['functional']
    F = GraphColoringFormula(gg.build_simple(g), k, functional=fun, formula_class=formula_class(case['cls']))
    nv = F.number_of_variables()
    E = ENV(F, nv)      # the variable count, or a batch of assignments in large mode
    if nv != n * k:
        raise Violation("kcolor {}: {} variables, documented n*k={}".format(case, nv, n * k))
    labs = list(F.all_variable_labels())
    dec = {}
    for vid, lab in enumerate(labs, start=1):
        p, nums = names.parse_label(lab)
        s = str(nums[0]) if nums else ''
        if n > 9 or k > 9:
            # two-digit indices make the concatenated name ambiguous: documented layout, vertex-major
            v, c = divmod(vid - 1, k)
            if p != 'x' or s != "{}{}".format(v + 1, c + 1):
                raise Violation("kcolor {}: variable {} is named {!r}, expected x_{{{}{}}}".format(case, vid, lab, v + 1, c + 1))
            dec[(v + 1, c + 1)] = vid
            continue
        if p != 'x' or len(s) != 2:
            raise Violation("kcolor {}: unexpected variable name {!r}".format(case, lab))
        dec[(int(s[0]), int(s[1]))] = vid
    expect_indices(dec, [(v, c) for v in range(1, n + 1) for c in range(1, k + 1)], "kcolor {}".format(case))
    M = lambda key: tt.var_mask(E, dec[key])    # noqa
    FULL = tt.full(E)
    want = FULL
    for v in range(1, n + 1):
        ms = [M((v, c)) for c in range(1, k + 1)]
        want &= tt.exactly(E, ms, 1) if fun else tt.at_least(E, ms, 1)
    for u, v in edges:
        for c in range(1, k + 1):
            want &= FULL & ~(M((u, c)) & M((v, c)))
    cnt = compare(F, want, "GraphColoringFormula", case)
    exp = count_colorings(n, edges, k)
    if fun and cnt != exp:
        raise Violation("kcolor {}: {} models but {} proper colourings".format(case, cnt, exp))
    if (cnt > 0) != (exp > 0):
        raise Violation("kcolor {}: satisfiable={} but {} proper colourings".format(case, cnt > 0, exp))
    labels = glabels(g) + [case['cls'], 'sat' if cnt else 'unsat', 'functional' if fun else 'relational']
    if k > n:
        labels.append('k>n')
    if k == 0:
        labels.append('k=0')
    return Outcome(labels=labels, nontrivial=nv >= 1 and len(F) >= 1)


def enum_kcolor(tier):
    for i, g in enumerate(gg.all_simple_graphs(4)):
        for k in range(0, 5):
            if g['n'] * k > 16:
                continue
            for fun in (True, False):
                c = dict(g)
                c['as'] = gg.SIMPLE_ROT[(i + k) % len(gg.SIMPLE_ROT)]
                yield {'graph': c, 'k': k, 'functional': fun, 'cls': 'OPB' if (i + k + fun) % 2 else 'CNF'}


@st.composite
def strat_kcolor(draw):
    g = draw(gg.simple_graphs(nmax=7))
    kmax = 4 if g['n'] <= 5 else (3 if g['n'] == 6 else 3)
    k = draw(st.integers(0, kmax))
    if g['n'] * k > 21:
        k = 21 // g['n']
    return {'graph': g, 'k': k, 'functional': draw(st.booleans()), 'cls': draw(st.sampled_from(['CNF', 'OPB']))}


# ---------------------------------------------------------------------------
# even colouring

def run_evencolor(case):
    from cnfgen import EvenColoringFormula
    g = case['graph']
    n, edges = g['n'], [tuple(e) for e in g['edges']]
    deg = {v: 0 for v in range(1, n + 1)}
    for u, v in edges:
        deg[u] += 1
        deg[v] += 1
    odd = any(d % 2 for d in deg.values())
    try:
        F = EvenColoringFormula(gg.build_simple(g), formula_class=formula_class(case['cls']))
    except ValueError:
        if odd:
            return Outcome(labels=['odd-degree-rejected'] + glabels(g), rejected=True, nontrivial=len(edges) >= 1)
        raise Violation("EvenColoringFormula {} raised ValueError although every degree is even".format(case))
    if odd:
        raise Violation("EvenColoringFormula {} accepted a graph with a vertex of odd degree".format(case))
    nv = F.number_of_variables()
    E = ENV(F, nv)      # the variable count, or a batch of assignments in large mode
    dec = names.group(names.decode(F), 'e')
    expect_indices(dec, edges, "EvenColoring {}".format(case))
    want = tt.full(E)
    for v in range(1, n + 1):
        ms = [tt.var_mask(E, vid) for e, vid in dec.items() if v in e]
        want &= tt.exactly(E, ms, len(ms) // 2)
    cnt = compare(F, want, "EvenColoringFormula", case)
    comps = gg.components(n, edges)
    ok = all(sum(1 for u, v in edges if u in comp) % 2 == 0 for comp in comps)
    if (cnt > 0) != ok:
        raise Violation("EvenColoring {}: satisfiable={} but 'every component has an even number of edges' is {}".format(case, cnt > 0, ok))
    return Outcome(labels=glabels(g) + [case['cls'], 'sat' if cnt else 'unsat', 'even-degrees'],
                   nontrivial=nv >= 1 and len(F) >= 1)


def enum_evencolor(tier):
    nmax = 5 if tier == 'quick' else 6
    for i, g in enumerate(gg.all_simple_graphs(nmax)):
        n = g['n']
        deg = [0] * (n + 1)
        for u, v in g['edges']:
            deg[u] += 1
            deg[v] += 1
        if any(d % 2 for d in deg) and i % 7:
            continue        # keep only a seventh of the rejected graphs
        c = dict(g)
        c['as'] = gg.SIMPLE_ROT[(i) % len(gg.SIMPLE_ROT)]
        yield {'graph': c, 'cls': 'OPB' if i % 2 else 'CNF'}


# ---------------------------------------------------------------------------
# dominating set / tiling

def closed_nbhd(n, edges):
    adj = gg.adjacency(n, edges)
    return {v: {v} | adj[v] for v in range(1, n + 1)}


def min_domset(n, edges):
    N = closed_nbhd(n, edges)
    for size in range(0, n + 1):
        for S in itertools.combinations(range(1, n + 1), size):
            s = set(S)
            if all(N[v] & s for v in range(1, n + 1)):
                return size
    return None


def run_domset(case):
    from cnfgen import DominatingSet
    g = case['graph']
    n, edges = g['n'], [tuple(e) for e in g['edges']]
    d, alt = case['d'], case['alternative']
    F = DominatingSet(gg.build_simple(g), d, alternative=alt, formula_class=formula_class(case['cls']))
    nv = F.number_of_variables()
    if nv != n + n * d:
        raise Violation("DominatingSet {}: {} variables, documented n+n*d={}".format(case, nv, n + n * d))
    cnt, t = models(F)
    if cnt is None:
        return Outcome(nontrivial=False, labels=['too-large'])
    md = min_domset(n, edges)
    exp = md is not None and md <= d
    if (cnt > 0) != exp:
        raise Violation("DominatingSet {}: satisfiable={} but the smallest dominating set has size {}".format(case, cnt > 0, md))
    # the D variables of every model form a dominating set of size <= d, and every such set appears
    if t is not None:
        dec = names.group(names.decode(F), 'x')
        expect_indices(dec, [(v,) for v in range(1, n + 1)], "DominatingSet {}".format(case))
        N = closed_nbhd(n, edges)
        for size in range(0, n + 1):
            for S in itertools.combinations(range(1, n + 1), size):
                s = set(S)
                m = t
                for v in range(1, n + 1):
                    mk = tt.var_mask(nv, dec[(v,)])
                    m &= mk if v in s else ~mk
                    if not m:
                        break
                isdom = all(N[v] & s for v in range(1, n + 1)) and len(s) <= d
                if bool(m) != isdom:
                    raise Violation("DominatingSet {}: the vertex set {} {} selected by some model but 'dominating of size<=d' is {}".format(
                        case, sorted(s), 'is' if m else 'is not', isdom))
    labels = glabels(g) + [case['cls'], 'sat' if cnt else 'unsat', 'alternative' if alt else 'standard']
    if d > n:
        labels.append('d>n')
    return Outcome(labels=labels, nontrivial=nv >= 1 and len(F) >= 1)


def enum_domset(tier):
    for i, g in enumerate(gg.all_simple_graphs(4)):
        n = g['n']
        for d in range(1, n + 2):
            if n + n * d > 20:
                continue
            for alt in (False, True):
                c = dict(g)
                c['as'] = gg.SIMPLE_ROT[(i + d) % len(gg.SIMPLE_ROT)]
                yield {'graph': c, 'd': d, 'alternative': alt, 'cls': 'OPB' if (i + d + alt) % 2 else 'CNF'}


@st.composite
def strat_domset(draw):
    g = draw(gg.simple_graphs(nmax=6))
    n = g['n']
    dmax = max(1, min(n + 1, (21 - n) // max(1, n)))
    return {'graph': g, 'd': draw(st.integers(1, dmax)), 'alternative': draw(st.booleans()),
            'cls': draw(st.sampled_from(['CNF', 'OPB']))}


def run_tiling(case):
    from cnfgen import Tiling
    g = case['graph']
    n, edges = g['n'], [tuple(e) for e in g['edges']]
    F = Tiling(gg.build_simple(g), formula_class=formula_class(case['cls']))
    nv = F.number_of_variables()
    E = ENV(F, nv)      # the variable count, or a batch of assignments in large mode
    if nv != n:
        raise Violation("Tiling {}: {} variables for {} vertices".format(case, nv, n))
    dec = names.group(names.decode(F), 'x')
    expect_indices(dec, [(v,) for v in range(1, n + 1)], "Tiling {}".format(case))
    N = closed_nbhd(n, edges)
    want = tt.full(E)
    for v in range(1, n + 1):
        want &= tt.exactly(E, [tt.var_mask(E, dec[(u,)]) for u in N[v]], 1)
    cnt = compare(F, want, "Tiling", case)
    exp = 0
    for size in range(0, n + 1):
        for S in itertools.combinations(range(1, n + 1), size):
            s = set(S)
            if all(len(N[v] & s) == 1 for v in range(1, n + 1)):
                exp += 1
    if cnt != exp:
        raise Violation("Tiling {}: {} models but {} exact tilings".format(case, cnt, exp))
    return Outcome(labels=glabels(g) + [case['cls'], 'sat' if cnt else 'unsat'], nontrivial=nv >= 1 and len(F) >= 1)


def enum_tiling(tier):
    nmax = 5 if tier == 'quick' else 6
    for i, g in enumerate(gg.all_simple_graphs(nmax)):
        c = dict(g)
        c['as'] = gg.SIMPLE_ROT[(i) % len(gg.SIMPLE_ROT)]
        yield {'graph': c, 'cls': 'OPB' if i % 2 else 'CNF'}


@st.composite
def strat_tiling(draw):
    return {'graph': draw(gg.simple_graphs(nmax=10)), 'cls': draw(st.sampled_from(['CNF', 'OPB']))}


# ---------------------------------------------------------------------------
# isomorphism / automorphism

def isomorphisms(n1, e1, n2, e2):
    if n1 != n2:
        return []
    E1 = {frozenset(e) for e in e1}
    E2 = {frozenset(e) for e in e2}
    out = []
    for perm in itertools.permutations(range(1, n2 + 1)):
        ok = True
        for u in range(1, n1 + 1):
            for v in range(u + 1, n1 + 1):
                if (frozenset((u, v)) in E1) != (frozenset((perm[u - 1], perm[v - 1])) in E2):
                    ok = False
                    break
            if not ok:
                break
        if ok:
            out.append(perm)
    return out


def run_iso(case):
    from cnfgen import GraphIsomorphism
    g1, g2 = case['g1'], case['g2']
    nontriv = case['nontrivial']
    G1 = gg.build_simple(g1)
    # equal descriptions: hand over the very same object for both parameters every other time
    same_object = g1 == g2 and (len(g1['edges']) + g1['n']) % 2 == 0
    G2 = G1 if same_object else gg.build_simple(g2)
    F = GraphIsomorphism(G1, G2, nontrivial=nontriv, formula_class=formula_class(case['cls']))
    nv = F.number_of_variables()
    if nv != g1['n'] * g2['n']:
        raise Violation("GraphIsomorphism {}: {} variables, documented n1*n2".format(case, nv))
    cnt, t = models(F)
    if cnt is None:
        return Outcome(nontrivial=False, labels=['too-large'])
    isos = isomorphisms(g1['n'], g1['edges'], g2['n'], g2['edges'])
    exp = len(isos)
    if nontriv and tuple(range(1, g1['n'] + 1)) in isos:
        exp -= 1
    if cnt != exp:
        raise Violation("GraphIsomorphism {}: {} models but {} {}isomorphisms".format(
            case, cnt, exp, 'non-identical ' if nontriv else ''))
    if t is not None and g1['n'] == g2['n'] and nv:
        dec = names.group(names.decode(F), 'x')
        n = g1['n']
        expect_indices(dec, [(u, v) for u in range(1, n + 1) for v in range(1, n + 1)], "iso {}".format(case))
        for perm in isos:
            if nontriv and perm == tuple(range(1, n + 1)):
                continue
            a = sum(1 << (dec[(u, perm[u - 1])] - 1) for u in range(1, n + 1))
            if not (t >> a) & 1:
                raise Violation("GraphIsomorphism {}: the isomorphism {} is not a model".format(case, perm))
    labels = [case['cls'], 'sat' if cnt else 'unsat', 'nontrivial' if nontriv else 'plain',
              g1.get('as', 'cnfgen')]
    if same_object:
        labels.append('same-object-twice')
    if g1['n'] != g2['n']:
        labels.append('orders-differ')
    return Outcome(labels=labels, nontrivial=nv >= 1 and len(F) >= 1)


def enum_iso(tier):
    gs = list(gg.all_simple_graphs(3))
    i = 0
    for g1 in gs:
        for g2 in gs:
            for nontriv in (False, True):
                i += 1
                a, b = dict(g1), dict(g2)
                a['as'] = b['as'] = gg.SIMPLE_ROT[i % len(gg.SIMPLE_ROT)]
                yield {'g1': a, 'g2': b, 'nontrivial': nontriv, 'cls': 'OPB' if i % 2 else 'CNF'}


@st.composite
def strat_iso(draw):
    n1 = draw(st.integers(0, 5))
    same = draw(st.integers(0, 9)) < 8
    n2 = n1 if same else draw(st.integers(0, 5))
    kind = draw(st.sampled_from(['cnfgen', 'networkx']))
    g1 = draw(gg.simple_graphs(nmin=n1, nmax=n1, kinds=(kind,)))
    mode = draw(st.sampled_from(['random', 'relabel', 'same']))
    if n2 == n1 and mode != 'random':
        if mode == 'same':
            g2 = dict(g1)
        else:
            perm = draw(st.permutations(list(range(1, n1 + 1))))
            g2 = {'n': n1, 'edges': sorted(sorted([perm[u - 1], perm[v - 1]]) for u, v in g1['edges']), 'as': kind}
    else:
        g2 = draw(gg.simple_graphs(nmin=n2, nmax=n2, kinds=(kind,)))
    cls = 'CNF' if n1 * n2 > MAXV else draw(st.sampled_from(['CNF', 'OPB']))
    return {'g1': g1, 'g2': g2, 'nontrivial': draw(st.booleans()), 'cls': cls}


def run_auto(case):
    from cnfgen import GraphAutomorphism
    g = case['graph']
    F = GraphAutomorphism(gg.build_simple(g), formula_class=formula_class(case['cls']))
    nv = F.number_of_variables()
    if nv != g['n'] ** 2:
        raise Violation("GraphAutomorphism {}: {} variables".format(case, nv))
    cnt, _ = models(F)
    if cnt is None:
        return Outcome(nontrivial=False, labels=['too-large'])
    exp = len(isomorphisms(g['n'], g['edges'], g['n'], g['edges'])) - 1
    if cnt != exp:
        raise Violation("GraphAutomorphism {}: {} models but |Aut|-1 = {}".format(case, cnt, exp))
    return Outcome(labels=glabels(g) + [case['cls'], 'sat' if cnt else 'unsat'], nontrivial=nv >= 1 and len(F) >= 1)


def enum_auto(tier):
    for i, g in enumerate(gg.all_simple_graphs(4)):
        c = dict(g)
        c['as'] = gg.SIMPLE_ROT[(i) % len(gg.SIMPLE_ROT)]
        yield {'graph': c, 'cls': 'OPB' if i % 2 else 'CNF'}


@st.composite
def strat_auto(draw):
    g = draw(gg.simple_graphs(nmin=5, nmax=5))
    return {'graph': g, 'cls': 'CNF'}


# ---------------------------------------------------------------------------
# subgraph, clique, binary clique, ramsey witness

def count_embeddings(N, EG, k, EH, induced):
    EGs = {frozenset(e) for e in EG}
    EHs = {frozenset(e) for e in EH}
    cnt = 0
    for img in itertools.permutations(range(1, N + 1), k):
        ok = True
        for i1 in range(1, k + 1):
            for i2 in range(i1 + 1, k + 1):
                h = frozenset((i1, i2)) in EHs
                gq = frozenset((img[i1 - 1], img[i2 - 1])) in EGs
                if (h and not gq) or (induced and gq and not h):
                    ok = False
                    break
            if not ok:
                break
        if ok:
            cnt += 1
    return cnt


def run_subgraph(case):
    from cnfgen import SubgraphFormula
    g, h = case['G'], case['H']
    induced, symbreak = case['induced'], case['symbreak']
    F = SubgraphFormula(gg.build_simple(g), gg.build_simple(h), induced=induced, symbreak=symbreak,
                        formula_class=formula_class(case['cls']))
    N, k = g['n'], h['n']
    nv = F.number_of_variables()
    if nv != N * k:
        raise Violation("SubgraphFormula {}: {} variables, documented k*N".format(case, nv))
    cnt, _ = models(F)
    if cnt is None:
        return Outcome(nontrivial=False, labels=['too-large'])
    emb = count_embeddings(N, g['edges'], k, h['edges'], induced)
    exp = emb // factorial(k) if symbreak else emb
    if cnt != exp:
        raise Violation("SubgraphFormula {}: {} models but {} {}embeddings{}".format(
            case, cnt, exp, 'induced ' if induced else '', ' up to symmetry' if symbreak else ''))
    labels = [case['cls'], 'sat' if cnt else 'unsat', 'induced' if induced else 'plain',
              'symbreak' if symbreak else 'nosymbreak', g.get('as', 'cnfgen')]
    if k > N:
        labels.append('k>n')
    return Outcome(labels=labels, nontrivial=nv >= 1 and len(F) >= 1)


def _sym_pattern(h):
    k = h['n']
    return len(h['edges']) in (0, k * (k - 1) // 2)


def enum_subgraph(tier):
    Hs = list(gg.all_simple_graphs(3))
    Gs = list(gg.all_simple_graphs(4))
    i = 0
    for h in Hs:
        for g in Gs:
            if g['n'] * h['n'] > 16:
                continue
            for induced in (False, True):
                for symbreak in (False, True):
                    if symbreak and not _sym_pattern(h):
                        continue
                    i += 1
                    if tier == 'quick' and g['n'] == 4 and i % 3:
                        continue
                    a, b = dict(g), dict(h)
                    a['as'] = b['as'] = gg.SIMPLE_ROT[i % len(gg.SIMPLE_ROT)]
                    yield {'G': a, 'H': b, 'induced': induced, 'symbreak': symbreak, 'cls': 'OPB' if i % 2 else 'CNF'}


@st.composite
def strat_subgraph(draw):
    kind = draw(st.sampled_from(['cnfgen', 'networkx']))
    h = draw(gg.simple_graphs(nmin=0, nmax=4, kinds=(kind,)))
    nmax = 6 if h['n'] <= 3 else 5
    g = draw(gg.simple_graphs(nmin=0, nmax=nmax, kinds=(kind,)))
    symbreak = draw(st.booleans()) and _sym_pattern(h)
    cls = 'CNF' if g['n'] * h['n'] > MAXV else draw(st.sampled_from(['CNF', 'OPB']))
    return {'G': g, 'H': h, 'induced': draw(st.booleans()), 'symbreak': symbreak, 'cls': cls}


def count_cliques(n, edges, k, independent=False):
    E = {frozenset(e) for e in edges}
    cnt = 0
    for S in itertools.combinations(range(1, n + 1), k):
        if all((frozenset(p) in E) != independent for p in itertools.combinations(S, 2)):
            cnt += 1
    return cnt


def run_clique(case):
    from cnfgen import CliqueFormula, BinaryCliqueFormula
    g = case['graph']
    n, k, symbreak, binary = g['n'], case['k'], case['symbreak'], case['binary']
    fn = BinaryCliqueFormula if binary else CliqueFormula
    F = fn(gg.build_simple(g), k, symbreak=symbreak, formula_class=formula_class(case['cls']))
    nv = F.number_of_variables()
    bits = (n - 1).bit_length() if n > 1 else 0
    expv = k * bits if binary else k * n
    if nv != expv:
        raise Violation("{} {}: {} variables, documented {}".format(fn.__name__, case, nv, expv))
    cnt, _ = models(F)
    if cnt is None:
        return Outcome(nontrivial=False, labels=['too-large'])
    cl = count_cliques(n, g['edges'], k)
    exp = cl if symbreak else cl * factorial(k)
    if cnt != exp:
        raise Violation("{} {}: {} models but {} k-cliques ({} expected models)".format(fn.__name__, case, cnt, cl, exp))
    labels = glabels(g) + [case['cls'], 'sat' if cnt else 'unsat', 'binary' if binary else 'unary',
                           'symbreak' if symbreak else 'nosymbreak']
    if k > n:
        labels.append('k>n')
    if k == 0:
        labels.append('k=0')
    if binary and n & (n - 1):
        labels.append('n-not-power-of-two')
    return Outcome(labels=labels, nontrivial=nv >= 1 and len(F) >= 1)


def enum_clique(tier):
    nmax = 4 if tier == 'quick' else 5
    for i, g in enumerate(gg.all_simple_graphs(nmax)):
        n = g['n']
        for k in range(0, n + 2):
            for binary in (False, True):
                nvars = k * ((n - 1).bit_length() if n > 1 else 0) if binary else k * n
                if nvars > 20:
                    continue
                for symbreak in (True, False):
                    c = dict(g)
                    c['as'] = gg.SIMPLE_ROT[(i + k) % len(gg.SIMPLE_ROT)]
                    yield {'graph': c, 'k': k, 'symbreak': symbreak, 'binary': binary,
                           'cls': 'OPB' if (i + k + symbreak) % 2 else 'CNF'}


@st.composite
def strat_clique(draw):
    g = draw(gg.simple_graphs(nmax=8))
    n = g['n']
    binary = draw(st.booleans())
    k = draw(st.integers(0, min(n + 1, 5)))
    per = ((n - 1).bit_length() if n > 1 else 0) if binary else n
    cls = draw(st.sampled_from(['CNF', 'OPB']))
    if k * per > MAXV:
        cls = 'CNF'
    if k * per > 40:
        k = 40 // max(1, per)
    return {'graph': g, 'k': k, 'symbreak': draw(st.booleans()), 'binary': binary, 'cls': cls}


def run_ramlb(case):
    from cnfgen import RamseyWitnessFormula
    g = case['graph']
    n, k, s, symbreak = g['n'], case['k'], case['s'], case['symbreak']
    F = RamseyWitnessFormula(gg.build_simple(g), k, s, symbreak=symbreak, formula_class=formula_class(case['cls']))
    cnt, _ = models(F)
    if cnt is None:
        return Outcome(nontrivial=False, labels=['too-large'])
    has = count_cliques(n, g['edges'], k) > 0 or count_cliques(n, g['edges'], s, independent=True) > 0
    if (cnt > 0) != has:
        raise Violation("RamseyWitnessFormula {}: satisfiable={} but 'a {}-clique or a {}-independent set exists' is {}".format(
            case, cnt > 0, k, s, has), signature='ramlb:k!=s' if k != s else None)
    labels = glabels(g) + [case['cls'], 'sat' if cnt else 'unsat', 'symbreak' if symbreak else 'nosymbreak']
    if k != s:
        labels.append('k!=s')
    return Outcome(labels=labels, nontrivial=F.number_of_variables() >= 2 and len(F) >= 1)


def enum_ramlb(tier):
    nmax = 4
    for i, g in enumerate(gg.all_simple_graphs(nmax)):
        n = g['n']
        for k in range(0, 5):
            for s in range(0, 5):
                if 1 + max(k, s) * n > 21:
                    continue
                if tier == 'quick' and n == 4 and (i + k + s) % 3:
                    continue
                for symbreak in (True, False):
                    c = dict(g)
                    c['as'] = gg.SIMPLE_ROT[(i + k) % len(gg.SIMPLE_ROT)]
                    yield {'graph': c, 'k': k, 's': s, 'symbreak': symbreak,
                           'cls': 'OPB' if (i + k + s) % 2 else 'CNF'}


@st.composite
def strat_ramlb(draw):
    g = draw(gg.simple_graphs(nmax=6))
    n = g['n']
    lim = max(1, 21 // max(1, n))
    k = draw(st.integers(0, min(4, lim)))
    s = draw(st.integers(0, min(4, lim)))
    return {'graph': g, 'k': k, 's': s, 'symbreak': draw(st.booleans()), 'cls': draw(st.sampled_from(['CNF', 'OPB']))}


# ---------------------------------------------------------------------------
# larger instances: the same statements on sampled assignments

LARGE_PRED = {}          # families whose oracle is a predicate (filled below): run in batch mode like C01's


def _find_maps(k, pat_edges, N, E, induced, limit, R):
    """up to `limit` injective maps [k]->[N] sending pattern edges to edges (induced: and non-edges to non-edges); plain backtracking"""
    pe = {frozenset(e) for e in pat_edges}
    out = []
    order = list(range(1, N + 1))

    def ok(i, u, f):
        for j, w in f.items():
            if w == u:
                return False
            inp = frozenset((i, j)) in pe
            ing = frozenset((u, w)) in E
            if inp and not ing:
                return False
            if induced and ing and not inp:
                return False
        return True

    budget = [20000]

    def rec(i, f):
        if len(out) >= limit or budget[0] <= 0:
            return
        if i > k:
            out.append(dict(f))
            return
        cand = list(order)
        R.shuffle(cand)
        for u in cand:
            budget[0] -= 1
            if ok(i, u, f):
                f[i] = u
                rec(i + 1, f)
                del f[i]
    rec(1, {})
    return out


def _is_map_ok(f, k, pat_edges, E, induced):
    if len(set(f.values())) != k:
        return False
    pe = {frozenset(e) for e in pat_edges}
    for i in range(1, k + 1):
        for j in range(i + 1, k + 1):
            inp = frozenset((i, j)) in pe
            ing = frozenset((f[i], f[j])) in E
            if inp and not ing:
                return False
            if induced and ing and not inp:
                return False
    return True


def run_large_maps(case):
    """clique / subgraph / isomorphism / automorphism at 10..16 vertices: candidate maps as assignments"""
    import random as _r
    import cnfgen
    fam = case['family']
    R = _r.Random(case['rseed'])
    g = case['G']
    N, E = g['n'], {frozenset(e) for e in g['edges']}
    G = gg.build_simple(g)
    if fam == 'clique':
        k = case['k']
        pat = [[i, j] for i in range(1, k + 1) for j in range(i + 1, k + 1)]
        F = cnfgen.CliqueFormula(G, k, symbreak=False)
        induced, letter, exclude_id = False, 's', False
    elif fam == 'subgraph':
        h = case['H']
        k, pat = h['n'], h['edges']
        F = cnfgen.SubgraphFormula(G, gg.build_simple(h), induced=case['induced'], symbreak=False)
        induced, letter, exclude_id = case['induced'], 's', False
    else:
        h = case['H'] if fam == 'iso' else g
        k, pat = h['n'], h['edges']
        # x_{u,v}: vertex u of the first graph goes to v of the second; an isomorphism preserves edges both ways
        if fam == 'iso':
            F = cnfgen.GraphIsomorphism(gg.build_simple(h), G, nontrivial=case['nontrivial'])
            exclude_id = case['nontrivial']
        else:
            F = cnfgen.GraphAutomorphism(G)
            exclude_id = True
        induced, letter = True, 'x'
    nv = F.number_of_variables()
    if nv != k * N:
        raise Violation("{} {}: {} variables, documented {}".format(fam, case, nv, k * N))
    dec = names.group(names.decode(F), letter)
    expect_indices(dec, [(i, u) for i in range(1, k + 1) for u in range(1, N + 1)], "{} (large)".format(fam))
    good = _find_maps(k, pat, N, E, induced, 8, R)
    cands = []          # (set of true variables, expected)
    seen_good = 0

    def add_map(f):
        nonlocal seen_good
        okm = _is_map_ok(f, k, pat, E, induced) and not (exclude_id and all(f[i] == i for i in f))
        seen_good += okm
        cands.append((frozenset(dec[(i, f[i])] for i in f), okm))
    for f in good:
        add_map(f)
        for _ in range(6):
            f2 = dict(f)
            how = R.choice(['move', 'swap', 'dup'])
            i = R.randint(1, k) if k else 0
            if not k:
                break
            if how == 'move':
                f2[i] = R.randint(1, N)
            elif how == 'swap':
                j = R.randint(1, k)
                f2[i], f2[j] = f2[j], f2[i]
            else:
                f2[i] = f2[R.randint(1, k)]
            add_map(f2)
        if k:
            # not a function: a second image, a missing image
            i, u = R.randint(1, k), R.randint(1, N)
            if u != f[i]:
                cands.append((frozenset(dec[(j, f[j])] for j in f) | {dec[(i, u)]}, False))
            cands.append((frozenset(dec[(j, f[j])] for j in f if j != i), False))
    if fam in ('iso', 'auto') and k == N and k:
        add_map({i: i for i in range(1, k + 1)})
    for _ in range(20):
        if k and N >= k:
            img = R.sample(range(1, N + 1), k)
            add_map({i: img[i - 1] for i in range(1, k + 1)})
        if k and N:
            add_map({i: R.randint(1, N) for i in range(1, k + 1)})
    cands.append((frozenset(), k == 0))
    cands.append((frozenset(range(1, nv + 1)), False if nv else True))
    B = tt.Batch(nv, [c[0] for c in cands])
    got = tt.formula_tt(F, B)
    for r, (row, exp) in enumerate(cands):
        if bool((got >> r) & 1) != exp:
            lab = list(F.all_variable_labels())
            raise Violation("{} {}: the assignment with true variables {} is {} by the formula but {} the documented kind of map".format(
                fam, case, [lab[v - 1] for v in sorted(row)], 'accepted' if (got >> r) & 1 else 'rejected', 'is' if exp else 'is not'))
    labels = [fam, 'large', 'witness-present' if seen_good else 'no-witness']
    return Outcome(labels=labels, nontrivial=nv > MAXV and len(cands) >= 20)


def run_large_domset(case):
    """dominating set on 10..16 vertices: for a candidate vertex set S, fixing the x variables to S leaves a satisfiable
    formula exactly when S is dominating and has at most d elements (node-bounded DPLL on the restricted formula)"""
    import random as _r
    import cnfgen
    R = _r.Random(case['rseed'])
    g = case['G']
    n, edges, d = g['n'], [tuple(e) for e in g['edges']], case['d']
    F = cnfgen.DominatingSet(gg.build_simple(g), d, alternative=case['alternative'])
    nv = F.number_of_variables()
    if nv != n + n * d:
        raise Violation("DominatingSet {}: {} variables, documented n+n*d={}".format(case, nv, n + n * d))
    dec = names.group(names.decode(F), 'x')
    expect_indices(dec, [(v,) for v in range(1, n + 1)], "DominatingSet (large)")
    Nb = closed_nbhd(n, edges)
    clauses = [list(c) for c in F]
    # a greedy dominating set, then sets around it and around the size bound
    S, left = set(), set(range(1, n + 1))
    while left:
        v = max(range(1, n + 1), key=lambda u: (len(Nb[u] & left), -u))
        S.add(v)
        left -= Nb[v]
    cands = [set(S)]
    for _ in range(10):
        T = set(S)
        for _ in range(R.choice([1, 1, 2])):
            T.symmetric_difference_update({R.randint(1, n)})
        cands.append(T)
    for _ in range(6):
        cands.append(set(R.sample(range(1, n + 1), min(n, max(0, d + R.choice([-1, 0, 0, 1]))))))
    cands.append(set(range(1, n + 1)))
    cands.append(set())
    decided = 0
    kinds = set()
    for T in cands:
        exp = all(Nb[v] & T for v in range(1, n + 1)) and len(T) <= d
        units = [[dec[(v,)]] if v in T else [-dec[(v,)]] for v in range(1, n + 1)]
        try:
            m = sat.solve(nv, clauses + units, max_nodes=3000)
        except sat.Budget:
            continue
        decided += 1
        kinds.add('dominating' if exp else 'not-dominating-or-too-big')
        if (m is not None) != exp:
            raise Violation("DominatingSet {}: with the x variables fixed to the set {} the formula is {} but 'dominating of size<={}' is {}".format(
                case, sorted(T), 'satisfiable' if m is not None else 'unsatisfiable', d, exp))
    return Outcome(labels=['domset', 'large'] + sorted(kinds), nontrivial=nv > MAXV and decided >= 10)


def run_large(case):
    fam = case['family']
    if fam == 'domset':
        return run_large_domset(case)
    if fam in ('clique', 'subgraph', 'iso', 'auto'):
        return run_large_maps(case)
    _LARGE.update(on=True, rseed=case['rseed'], env=None)
    try:
        try:
            LARGE_PRED[fam](case['case'])
        except _BatchOK as ok:
            nm = _LARGE['env'][2] if _LARGE['env'] else 0
            return Outcome(labels=[fam, 'large', 'models-found' if nm else 'no-model-found', 'accepted-rows' if ok.accepted else 'no-accepted-row'],
                           nontrivial=ok.rows >= 20)
        raise RuntimeError("harness: large mode did not reach the model comparison")
    finally:
        _LARGE.update(on=False, env=None)


@st.composite
def strat_large(draw):
    fam = draw(st.sampled_from(['tseitin', 'kcolor', 'evencolor', 'tiling', 'clique', 'subgraph', 'iso', 'auto', 'domset']))
    I = lambda a, b: draw(st.integers(a, b))      # noqa
    rseed = I(0, 10 ** 6)
    kinds = ('cnfgen', 'networkx', 'networkx-rev', 'cnfgen-grown')
    if fam == 'tseitin':
        g = draw(gg.simple_graphs(nmin=10, nmax=24, max_edges=60, kinds=kinds))
        n = g['n']
        # parity clauses are exponential in the degree: keep at most 7 edges per vertex
        deg, keep = {}, []
        for u, v in g['edges']:
            if deg.get(u, 0) < 7 and deg.get(v, 0) < 7:
                keep.append([u, v])
                deg[u] = deg.get(u, 0) + 1
                deg[v] = deg.get(v, 0) + 1
        g = dict(g, edges=keep)
        ch = draw(st.lists(st.booleans(), min_size=n, max_size=n))
        if draw(st.booleans()) and sum(ch) % 2:
            ch[0] = not ch[0]
        return {'family': fam, 'rseed': rseed, 'case': {'graph': g, 'charges': ch, 'cls': 'CNF'}}
    if fam == 'kcolor':
        g = draw(gg.simple_graphs(nmin=8, nmax=16, max_edges=40, kinds=kinds))
        return {'family': fam, 'rseed': rseed, 'case': {'graph': g, 'k': I(2, 11), 'functional': draw(st.booleans()), 'cls': 'CNF'}}
    if fam == 'evencolor':
        # an even-degree graph: a union of cycles through random vertices
        n = I(8, 16)
        edges = set()
        for _ in range(I(1, 4)):
            cyc = draw(st.permutations(list(range(1, n + 1))))[:I(3, min(n, 8))]
            ce = [frozenset((cyc[i], cyc[(i + 1) % len(cyc)])) for i in range(len(cyc))]
            if not (set(ce) & edges):
                edges |= set(ce)
        return {'family': fam, 'rseed': rseed, 'case': {'graph': {'n': n, 'edges': sorted(sorted(e) for e in edges), 'as': draw(st.sampled_from(kinds))}, 'cls': 'CNF'}}
    if fam == 'tiling':
        g = draw(gg.simple_graphs(nmin=23, nmax=40, max_edges=70, kinds=kinds))
        return {'family': fam, 'rseed': rseed, 'case': {'graph': g, 'cls': 'CNF'}}
    n = I(10, 16)
    g = draw(gg.simple_graphs(nmin=n, nmax=n, max_edges=45, kinds=kinds))
    E = {tuple(e) for e in g['edges']}
    if fam == 'domset':
        return {'family': fam, 'rseed': rseed, 'G': g, 'd': I(1, 6), 'alternative': draw(st.booleans())}
    if fam == 'clique':
        k = I(2, 5)
        if draw(st.integers(0, 3)):
            P = draw(st.permutations(list(range(1, n + 1))))[:k]
            E |= {tuple(sorted((a, b))) for a in P for b in P if a < b}
        g = dict(g, edges=sorted(list(e) for e in E))
        return {'family': fam, 'rseed': rseed, 'G': g, 'k': k}
    if fam == 'subgraph':
        h = draw(gg.simple_graphs(nmin=2, nmax=5, kinds=('cnfgen', 'networkx')))
        if draw(st.integers(0, 3)):
            P = draw(st.permutations(list(range(1, n + 1))))[:h['n']]
            E |= {tuple(sorted((P[a - 1], P[b - 1]))) for a, b in h['edges']}
        g = dict(g, edges=sorted(list(e) for e in E))
        return {'family': fam, 'rseed': rseed, 'G': g, 'H': h, 'induced': draw(st.booleans())}
    if fam == 'iso':
        P = draw(st.permutations(list(range(1, n + 1))))
        h = {'n': n, 'edges': sorted(sorted([P[u - 1], P[v - 1]]) for u, v in g['edges']), 'as': draw(st.sampled_from(kinds))}
        if draw(st.integers(0, 4)) == 0 and h['edges']:
            h['edges'] = h['edges'][1:]
        return {'family': fam, 'rseed': rseed, 'G': g, 'H': h, 'nontrivial': draw(st.booleans())}
    # automorphism: make the graph symmetric under a swap with some probability
    if draw(st.booleans()):
        a, b = 1, 2
        sw = lambda x: b if x == a else (a if x == b else x)      # noqa
        E |= {tuple(sorted((sw(u), sw(v)))) for u, v in E}
        g = dict(g, edges=sorted(list(e) for e in E if e[0] != e[1]))
    return {'family': fam, 'rseed': rseed, 'G': g}


NT = "non-trivial: >=1 variable and >=1 clause; distinct by (family, parameters, edge lists, class, object kind)"

LARGE_PRED.update(tseitin=run_tseitin, kcolor=run_kcolor, evencolor=run_evencolor, tiling=run_tiling)

SUBCHECKS = [
    SubCheck('large', run_large, strategy=strat_large, quick=300, thorough=10000,
             rule="the same families at 25-260 variables on graphs with 8..40 vertices (all object kinds): Tseitin, colouring with up to 11 colours (two-digit indices), even colouring on unions of cycles, tiling: the reference predicates on ~110 sampled assignments (DPLL models, their 1-3 flip neighbours, random, all-false/true); clique, subgraph (plain and induced), isomorphism and automorphism on 10..16 vertices (with planted witnesses): candidate maps (embeddings found by the harness's backtracking, their one-image moves, swaps, collisions, a second or a missing image, random maps) as assignments, accepted exactly when the map is a witness; dominating set: the x variables fixed to candidate sets around a greedy dominating set and around the bound, restricted formula satisfiable (node-bounded DPLL) exactly when the set is dominating and small enough; non-trivial: >22 variables and >=20 rows (>=10 decided sets)",
             required_labels=['tseitin', 'kcolor', 'evencolor', 'tiling', 'clique', 'subgraph', 'iso', 'auto', 'domset', 'witness-present', 'no-witness', 'models-found', 'dominating']),
    SubCheck('tseitin', run_tseitin, enumerate_cases=enum_tseitin, strategy=strat_tseitin, quick=300, thorough=20000,
             rule="every labelled graph <=4 vertices x every charge vector (+ charges=None); Hypothesis graphs <=8 vertices/18 edges with short/long/integer charge vectors; oracle: model set == per-vertex parity predicate and count == 2^(|E|-|V|+c) iff every component has even charge; " + NT,
             required_labels=['sat', 'unsat', 'disconnected', 'isolated-vertex', 'short-charges', 'long-charges', 'non-bool-charges', 'default-charges', 'networkx']),
    SubCheck('kcolor', run_kcolor, enumerate_cases=enum_kcolor, strategy=strat_kcolor, quick=200, thorough=10000,
             rule="every graph <=4 vertices x k in 0..4 x functional; Hypothesis graphs <=7 vertices; oracle: model set == (total[, functional], proper) predicate; count == number of proper k-colourings when functional; " + NT,
             required_labels=['sat', 'unsat', 'k>n', 'k=0', 'functional', 'relational']),
    SubCheck('evencolor', run_evencolor, enumerate_cases=enum_evencolor,
             rule="every graph <=5 (thorough 6) vertices (a seventh of those with an odd vertex, which must raise ValueError); oracle: model set == balanced-at-every-vertex predicate; satisfiable iff every component has an even number of edges; " + NT,
             required_labels=['sat', 'unsat', 'odd-degree-rejected', 'even-degrees']),
    SubCheck('domset', run_domset, enumerate_cases=enum_domset, strategy=strat_domset, quick=150, thorough=8000,
             rule="every graph <=4 vertices x d in 1..n+1 x both encodings; Hypothesis graphs <=6 vertices; oracle: the projections of the models on the x variables are exactly the dominating sets of size <=d (brute force over vertex subsets); " + NT,
             required_labels=['sat', 'unsat', 'alternative', 'standard', 'd>n', 'disconnected']),
    SubCheck('tiling', run_tiling, enumerate_cases=enum_tiling, strategy=strat_tiling, quick=200, thorough=10000,
             rule="every graph <=5 (thorough 6) vertices; Hypothesis <=10 vertices; oracle: model set == exactly-one-per-closed-neighbourhood predicate; count == brute force number of tilings; " + NT,
             required_labels=['sat', 'unsat', 'disconnected']),
    SubCheck('iso', run_iso, enumerate_cases=enum_iso, strategy=strat_iso, quick=200, thorough=10000,
             rule="all pairs of graphs <=3 vertices x nontrivial flag; Hypothesis pairs <=5 vertices (relabelled copies, equal and unequal orders); oracle: model count == number of isomorphisms (minus the identity when nontrivial), each isomorphism is a model; " + NT,
             required_labels=['sat', 'unsat', 'orders-differ', 'nontrivial', 'plain']),
    SubCheck('auto', run_auto, enumerate_cases=enum_auto, strategy=strat_auto, quick=40, thorough=600,
             rule="every graph <=4 vertices, Hypothesis graphs on 5 vertices (DPLL count); oracle: model count == |Aut(G)|-1; " + NT,
             required_labels=['sat', 'unsat']),
    SubCheck('subgraph', run_subgraph, enumerate_cases=enum_subgraph, strategy=strat_subgraph, quick=200, thorough=10000,
             rule="pattern graphs <=3 vertices x host graphs <=4 vertices x induced x symbreak (symbreak only with complete/empty patterns); Hypothesis patterns <=4, hosts <=6; oracle: model count == number of (induced) embeddings (/k! with symmetry breaking); " + NT,
             required_labels=['sat', 'unsat', 'induced', 'plain', 'symbreak', 'nosymbreak', 'k>n']),
    SubCheck('clique', run_clique, enumerate_cases=enum_clique, strategy=strat_clique, quick=200, thorough=10000,
             rule="every graph <=4 (thorough 5) vertices x k in 0..n+1 x unary/binary x symbreak; Hypothesis graphs <=8; oracle: model count == number of k-cliques (x k! without symmetry breaking); " + NT,
             required_labels=['sat', 'unsat', 'binary', 'unary', 'symbreak', 'nosymbreak', 'k>n', 'k=0', 'n-not-power-of-two']),
    SubCheck('ramlb', run_ramlb, enumerate_cases=enum_ramlb, strategy=strat_ramlb, quick=200, thorough=8000,
             rule="every graph <=4 vertices x k,s in 0..4 (including k!=s) x symbreak; oracle: satisfiable iff a k-clique or an s-independent set exists (brute force); " + NT,
             required_labels=['sat', 'unsat', 'k!=s', 'symbreak', 'nosymbreak']),
]


# ---------------------------------------------------------------------------
# the same cases after other work in the same process

from vlib import after as _after   # noqa: E402

SUBCHECKS.append(_after.make(SUBCHECKS, inner=['tseitin', 'kcolor', 'evencolor', 'domset', 'tiling', 'iso', 'subgraph', 'clique', 'ramlb'],
                             as_prefix=['tseitin', 'kcolor', 'clique', 'iso'],
                             required_labels=['after:cli', 'after:complete', 'after:case', 'then:tseitin', 'then:clique', 'then:kcolor']))

# ---------------------------------------------------------------------------
# the same cases with the formula built by the command line tools

from vlib import viacli as _viacli   # noqa: E402

SUBCHECKS.append(_viacli.make(SUBCHECKS, inner=['tseitin', 'kcolor', 'evencolor', 'domset', 'tiling', 'iso', 'auto', 'subgraph', 'clique', 'ramlb'], required_labels=['built-by-tool', 'via:cnfgen', 'via:pbgen']))
