"""C04 - linear, parity and mapping constraint builders mean what their names say."""
import itertools
import os

from hypothesis import strategies as st

from vlib.core import SubCheck, Violation, Outcome, fresh
from vlib import tt

PROPERTY = "C04"
ASSUMPTIONS = [
    "the semantics of a literal list is positional: a literal occurring twice counts twice",
    "check=False is only used with literals inside the declared variable range (the precondition of every caller in the tree)",
    "binary mappings: injective / non-decreasing are compared on assignments whose codes are all in range (completeness)",
]

OPS = ['<=', '>=', '<', '>', '==', '!=']
METHODS = ['add_linear', 'cardinality_geq', 'cardinality_leq', 'cardinality_eq', 'cardinality_neq',
           'add_loose_majority', 'add_strict_majority', 'add_loose_minority', 'add_strict_minority',
           'add_parity']
CONTAINERS = ['list', 'tuple', 'generator', 'range']


def _mk(clsname):
    from cnfgen.formula.cnf import CNF
    from cnfgen.formula.opb import OPB
    return CNF() if clsname == 'CNF' else OPB()


def _container(kind, lits):
    if kind == 'list':
        return list(lits)
    if kind == 'tuple':
        return tuple(lits)
    if kind == 'generator':
        return (l for l in list(lits))
    if kind == 'range':
        return range(lits[0], lits[-1] + 1) if lits else range(1, 1)
    raise ValueError(kind)


def _reference(n, method, lits, op, const):
    masks = [tt.lit_mask(n, l) for l in lits]
    L = len(lits)
    if method == 'add_parity':
        x = tt.xor_all(n, masks)
        return x if const == 1 else tt.neg(n, x)
    if method == 'add_loose_majority':      # at least half: ceil(L/2)
        return tt.at_least(n, masks, -(-L // 2))
    if method == 'add_strict_majority':     # more than half: floor(L/2)+1
        return tt.at_least(n, masks, L // 2 + 1)
    if method == 'add_loose_minority':      # at most half: floor(L/2)
        return tt.at_most(n, masks, L // 2)
    if method == 'add_strict_minority':     # fewer than half: <= floor((L-1)/2)
        return tt.at_most(n, masks, (L - 1) // 2)
    if method == 'cardinality_geq':
        op = '>='
    elif method == 'cardinality_leq':
        op = '<='
    elif method == 'cardinality_eq':
        op = '=='
    elif method == 'cardinality_neq':
        op = '!='
    if op == '>=':
        return tt.at_least(n, masks, const)
    if op == '>':
        return tt.at_least(n, masks, const + 1)
    if op == '<=':
        return tt.at_most(n, masks, const)
    if op == '<':
        return tt.at_most(n, masks, const - 1)
    if op == '==':
        return tt.exactly(n, masks, const)
    if op == '!=':
        return tt.neg(n, tt.exactly(n, masks, const))
    raise ValueError(op)


def run_linear(case):
    clsname, method, lits = case['cls'], case['method'], list(case['lits'])
    kind, op, const, check = case['container'], case.get('op'), case.get('const'), case['check']
    nv = case['nv']
    if clsname == 'OPB' and method == 'add_linear':
        return Outcome(nontrivial=False, labels=('skipped-no-such-method',))
    F = _mk(clsname)
    F.update_variable_number(nv)
    F.add_clause([1, -nv] if nv else [])        # something that must stay untouched
    before = [list(r) for r in F]
    arg = _container(kind, lits)
    m = getattr(F, method)
    if method == 'add_linear':
        m(arg, fresh(op), const, check=check)
    elif method == 'add_parity':
        m(arg, const, check=check)
    elif method.startswith('cardinality_'):
        m(arg, const, check=check)
    else:
        m(arg, check=check)
    rows = [r for r in F]
    if [list(r) for r in rows[:len(before)]] != before:
        raise Violation("earlier constraints changed by {}".format(method))
    if F.number_of_variables() != nv:
        raise Violation("{} changed the variable count {} -> {}".format(method, nv, F.number_of_variables()))
    added = rows[len(before):]
    if clsname == 'CNF':
        got = tt.cnf_tt(nv, added)
    else:
        for r in added:
            if r[-2] not in ('>=', '=='):
                raise Violation("OPB constraint with relation {!r}".format(r[-2]))
            if any(c <= 0 for c, _ in r[:-2]):
                raise Violation("OPB constraint with non positive coefficient {}".format(r))
        got = tt.opb_tt(nv, added)
    want = _reference(nv, method, lits, op, const)
    if got != want:
        diff = got ^ want
        a = tt.first_row(diff)
        raise Violation("{}.{}({}, op={}, const={}, check={}) as {}: assignment {} is {} by the formula but {} by the arithmetic; added={}".format(
            clsname, method, lits, op, const, check, kind, tt.row_assignment(nv, a),
            'accepted' if (got >> a) & 1 else 'rejected', 'true' if (want >> a) & 1 else 'false', added[:8]))
    L = len(lits)
    labels = [clsname, method, kind, 'check' if check else 'nocheck']
    if op:
        labels.append('op' + op)
    if const is not None:
        if const < 0:
            labels.append('const<0')
        elif const == 0:
            labels.append('const=0')
        elif const == L:
            labels.append('const=n')
        elif const > L:
            labels.append('const>n')
    if L == 0:
        labels.append('empty-list')
    if len(set(lits)) < L:
        labels.append('repeated-literal')
    if any(-l in lits for l in lits):
        labels.append('opposite-literal')
    nontrivial = L >= 2 and (const is None or method == 'add_parity' or 0 < const < L)
    return Outcome(labels=labels, nontrivial=nontrivial)


def _needs(method):
    if method == 'add_linear':
        return True, True
    if method in ('add_parity',) or method.startswith('cardinality_'):
        return False, True
    return False, False


EXTREME_CONSTANTS = [10 ** 10, 2 ** 31, 2 ** 63, 2 ** 64 + 1, -2 ** 63, -10 ** 10, 10 ** 18 + 1]


def enum_linear(tier):
    maxL = 4 if tier == 'quick' else 6
    for L in range(0, maxL + 1):
        for signs in itertools.product([1, -1], repeat=L):
            lits = [s * (i + 1) for i, s in enumerate(signs)]
            for clsname in ('CNF', 'OPB'):
                for method in METHODS:
                    if clsname == 'OPB' and method == 'add_linear':
                        continue
                    need_op, need_const = _needs(method)
                    ops = OPS if need_op else [None]
                    if method == 'add_parity':
                        consts = [0, 1]
                    elif need_const:
                        consts = list(range(-2, L + 3))
                        if L in (0, 1, 3):
                            consts += EXTREME_CONSTANTS       # far outside the range: the constraint is a constant
                    else:
                        consts = [None]
                    for op in ops:
                        for const in consts:
                            for kind in CONTAINERS:
                                if kind == 'range' and any(s < 0 for s in signs):
                                    continue
                                for check in (True, False):
                                    yield {'cls': clsname, 'method': method, 'lits': lits, 'nv': max(L, 1) + 1,
                                           'container': kind, 'op': op, 'const': const, 'check': check}


@st.composite
def strat_linear(draw):
    nv = draw(st.integers(1, 7))
    kind = draw(st.sampled_from(CONTAINERS))
    if kind == 'range':
        a = draw(st.integers(1, nv))
        b = draw(st.integers(a - 1, nv))
        lits = list(range(a, b + 1))
    else:
        lits = draw(st.lists(st.integers(1, nv).flatmap(lambda v: st.sampled_from([v, -v])), max_size=7))
    clsname = draw(st.sampled_from(['CNF', 'OPB']))
    method = draw(st.sampled_from(METHODS if clsname == 'CNF' else METHODS[1:]))
    need_op, need_const = _needs(method)
    op = draw(st.sampled_from(OPS)) if need_op else None
    if method == 'add_parity':
        const = draw(st.integers(0, 1))
    elif need_const:
        const = draw(st.integers(-3, len(lits) + 3) | st.sampled_from(EXTREME_CONSTANTS))
    else:
        const = None
    return {'cls': clsname, 'method': method, 'lits': lits, 'nv': nv, 'container': kind,
            'op': op, 'const': const, 'check': draw(st.booleans())}


# ---------------------------------------------------------------------------
# normalize_opb / OPB.add_constraint

IN_OPS = ['>=', '<=', '>', '<', '==']      # every operator add_constraint documents


def run_normalize(case):
    from cnfgen.formula.baseopb import normalize_opb
    from cnfgen.formula.opb import OPB
    nv = case['nv']
    terms = [tuple(t) for t in case['terms']] if case.get('pairs', 'tuple') == 'tuple' else [list(t) for t in case['terms']]
    op, d = case['op'], case['d']
    cons = list(terms) + [fresh(op), d]
    snapshot = list(cons)
    out = normalize_opb(cons)
    if cons != snapshot:
        raise Violation("normalize_opb modified its argument: {} -> {}".format(snapshot, cons))
    want = tt.opb_constraint_tt(nv, snapshot)

    def verify(res, what):
        if res[-2] not in ('>=', '=='):
            raise Violation("{}: relation {!r} left after normalisation of {}".format(what, res[-2], snapshot))
        for c, l in res[:-2]:
            if not (isinstance(c, int) and c > 0):
                raise Violation("{}: coefficient {} not positive after normalisation of {}: {}".format(what, c, snapshot, res))
            if not (isinstance(l, int) and 1 <= abs(l) <= nv):
                raise Violation("{}: literal {} out of range after normalisation of {}".format(what, l, snapshot))
        got = tt.opb_constraint_tt(nv, res)
        if got != want:
            a = tt.first_row(got ^ want)
            raise Violation("{}: {} normalised to {} differ on assignment {}".format(
                what, snapshot, res, tt.row_assignment(nv, a)))
    verify(out, 'normalize_opb')
    F = OPB()
    F.update_variable_number(nv)
    F.add_constraint(list(snapshot), check=case['check'])
    if len(F) != 1 or F.number_of_variables() != nv:
        raise Violation("add_constraint({}) gives {} constraints / {} variables".format(snapshot, len(F), F.number_of_variables()))
    verify(F[0], 'OPB.add_constraint')
    # the other ways in: the batch method (a list, or a one-shot iterator of rows) and the constructor
    for how in ('add_constraints_from', 'add_constraints_from(iterator)', 'OPB(constraints=...)'):
        if how == 'OPB(constraints=...)':
            F2 = OPB([list(snapshot)])
            F2.update_variable_number(nv)
        else:
            F2 = OPB()
            F2.update_variable_number(nv)
            rows = [list(snapshot), list(snapshot)]
            F2.add_constraints_from(rows if how == 'add_constraints_from' else iter(rows), check=case['check'])
        if len(F2) not in (1, 2) or F2.number_of_variables() != nv:
            raise Violation("{}({}) gives {} constraints / {} variables".format(how, snapshot, len(F2), F2.number_of_variables()))
        for row in F2:
            verify(row, 'OPB.' + how)
    labels = ['op' + op]
    if any(c < 0 for c, _ in terms):
        labels.append('negative-coefficient')
    if d < 0:
        labels.append('negative-degree')
    if not terms:
        labels.append('no-terms')
    full = tt.full(nv)
    return Outcome(labels=labels, nontrivial=len(terms) >= 2 and want not in (0, full))


@st.composite
def strat_normalize(draw):
    nv = draw(st.integers(1, 5))
    terms = draw(st.lists(st.tuples(st.integers(-6, 6).filter(lambda c: c != 0),
                                    st.integers(1, nv).flatmap(lambda v: st.sampled_from([v, -v]))),
                          max_size=5))
    return {'nv': nv, 'terms': [list(t) for t in terms], 'op': draw(st.sampled_from(IN_OPS)),
            'd': draw(st.integers(-9, 14)), 'check': draw(st.booleans()), 'pairs': draw(st.sampled_from(['tuple', 'tuple', 'list']))}


def enum_normalize(tier):
    coeffs = [-3, -1, 1, 2] if tier == 'quick' else [-6, -2, -1, 1, 2, 5]
    maxk = 2 if tier == 'quick' else 3
    for k in range(0, maxk + 1):
        for cs in itertools.product(coeffs, repeat=k):
            for signs in itertools.product([1, -1], repeat=k):
                terms = [[c, s * (i + 1)] for i, (c, s) in enumerate(zip(cs, signs))]
                tot = sum(abs(c) for c in cs)
                for op in IN_OPS:
                    for d in range(-tot - 1, tot + 2):
                        yield {'nv': max(k, 1), 'terms': terms, 'op': op, 'd': d, 'check': True}


# ---------------------------------------------------------------------------
# mappings

FORCES = ['complete', 'functional', 'injective', 'surjective', 'nondecreasing']


def _decode(f, n):
    """index tuple -> mask, through the group's own to_index."""
    d = {}
    for v in f:
        d[tuple(f.to_index(v))] = tt.var_mask(n, v)
    return d


def run_mapping(case):
    from cnfgen.graphs import BipartiteGraph
    clsname, kind, force = case['cls'], case['kind'], case['force']
    F = _mk(clsname)
    pre = case.get('pre', 0)
    if pre:
        F.update_variable_number(pre)
    for e in case.get('earlier', []):
        # other mappings of the same formula, created and constrained before the one under test
        if e['kind'] == 'unary':
            g = F.new_mapping(e['n'], e['m'])
        elif e['kind'] == 'binary':
            g = F.new_binary_mapping(e['n'], e['m'])
        else:
            B0 = BipartiteGraph(e['n'], e['m'])
            for u, v in e.get('edges', []):
                B0.add_edge(u, v)
            g = F.new_sparse_mapping(B0)
        if e.get('force'):
            getattr(F, 'force_{}_mapping'.format(e['force']))(g)
    if kind == 'unary':
        n, m = case['n'], case['m']
        f = F.new_mapping(n, m)
        pairs = [(u, v) for u in range(1, n + 1) for v in range(1, m + 1)]
    elif kind == 'sparse':
        n, m = case['n'], case['m']
        B = BipartiteGraph(n, m)
        for u, v in case['edges']:
            B.add_edge(u, v)
        f = F.new_sparse_mapping(B)
        pairs = sorted(tuple(e) for e in case['edges'])
    else:
        n, m = case['n'], case['m']
        f = F.new_binary_mapping(n, m)
        pairs = None
    nv = F.number_of_variables()
    before = len(F)
    getattr(F, 'force_{}_mapping'.format(force))(f)
    if F.number_of_variables() != nv:
        raise Violation("force_{}_mapping changed the number of variables".format(force))
    rows = list(F)[before:]
    if nv > 18:
        return Outcome(nontrivial=False, labels=('too-large',))
    got = tt.cnf_tt(nv, rows) if clsname == 'CNF' else tt.opb_tt(nv, rows)
    FULL = tt.full(nv)
    dec = _decode(f, nv)
    if kind in ('unary', 'sparse'):
        if sorted(dec) != pairs:
            raise Violation("mapping variables {} are not the pairs {}".format(sorted(dec), pairs))
        x = dec
        if force == 'complete':
            want = FULL
            for u in range(1, n + 1):
                row = 0
                for v in range(1, m + 1):
                    if (u, v) in x:
                        row |= x[(u, v)]
                want &= row
        elif force == 'functional':
            want = FULL
            for u in range(1, n + 1):
                want &= tt.at_most(nv, [x[(u, v)] for v in range(1, m + 1) if (u, v) in x], 1)
        elif force == 'injective':
            want = FULL
            for v in range(1, m + 1):
                want &= tt.at_most(nv, [x[(u, v)] for u in range(1, n + 1) if (u, v) in x], 1)
        elif force == 'surjective':
            want = FULL
            for v in range(1, m + 1):
                row = 0
                for u in range(1, n + 1):
                    if (u, v) in x:
                        row |= x[(u, v)]
                want &= row
        else:
            want = FULL
            for (u1, v1) in x:
                for (u2, v2) in x:
                    if u1 < u2 and v1 > v2:
                        want &= FULL & ~(x[(u1, v1)] & x[(u2, v2)])
        cmp_got, cmp_want = got, want
    else:
        bits = (m - 1).bit_length() if m > 1 else 0
        exp_idx = sorted((u, b) for u in range(1, n + 1) for b in range(bits))
        if sorted(dec) != exp_idx:
            raise Violation("binary mapping variables {} are not {}".format(sorted(dec), exp_idx))

        def image_is(u, j):
            r = FULL
            for b in range(bits):
                mk = dec[(u, b)]
                r &= mk if (j >> b) & 1 else FULL & ~mk
            return r
        inrange = FULL
        for u in range(1, n + 1):
            ok = 0
            for j in range(m):
                ok |= image_is(u, j)
            inrange &= ok
        if force == 'complete':
            cmp_got, cmp_want = got, inrange
        elif force == 'functional':
            cmp_got, cmp_want = got, FULL
        elif force == 'injective':
            want = FULL
            for u1 in range(1, n + 1):
                for u2 in range(u1 + 1, n + 1):
                    for j in range(m):
                        want &= FULL & ~(image_is(u1, j) & image_is(u2, j))
            cmp_got, cmp_want = got & inrange, want & inrange
            pair_bad = FULL & ~want      # two elements with the same legal image, whatever the other elements do
        elif force == 'nondecreasing':
            want = FULL
            for u1 in range(1, n + 1):
                for u2 in range(u1 + 1, n + 1):
                    for j1 in range(m):
                        for j2 in range(j1):
                            want &= FULL & ~(image_is(u1, j1) & image_is(u2, j2))
            cmp_got, cmp_want = got & inrange, want & inrange
            pair_bad = FULL & ~want      # two elements with legal images in decreasing order, whatever the other elements do
        else:
            return Outcome(nontrivial=False, labels=('surjective-binary-undocumented',))
    if kind == 'binary' and force in ('injective', 'nondecreasing') and got & pair_bad:
        a = tt.first_row(got & pair_bad)
        raise Violation("{} binary mapping {}: force_{}_mapping accepts assignment {} in which two elements have legal images that {}".format(
            clsname, {k: case[k] for k in case if k not in ('cls', 'kind', 'force')}, force, tt.row_assignment(nv, a),
            'coincide' if force == 'injective' else 'are in decreasing order'))
    if cmp_got != cmp_want:
        a = tt.first_row(cmp_got ^ cmp_want)
        asg = tt.row_assignment(nv, a)
        raise Violation("{} {} mapping {}: force_{}_mapping {} assignment {} but the functional condition is {}".format(
            clsname, kind, {k: case[k] for k in case if k not in ('cls', 'kind', 'force')}, force,
            'accepts' if (cmp_got >> a) & 1 else 'rejects', asg, bool((cmp_want >> a) & 1)))
    labels = [clsname, kind, force]
    if kind == 'binary' and m & (m - 1):
        labels.append('m-not-power-of-two')
    if kind == 'binary' and m == 1:
        labels.append('zero-bits')
    if n == 0 or m == 0:
        labels.append('empty-side')
    if case.get('earlier'):
        labels.append('after-other-mappings')
        if len(list(f)) == 0 and any(_mapping_size(e) == 0 and e.get('force') == force for e in case['earlier']):
            labels.append('second-mapping-without-variables')
    return Outcome(labels=labels, nontrivial=n >= 2 and m >= 2)


def _mapping_size(e):
    if e['kind'] == 'unary':
        return e['n'] * e['m']
    if e['kind'] == 'binary':
        return e['n'] * ((e['m'] - 1).bit_length() if e['m'] > 1 else 0)
    return len(e.get('edges', []))


_DEGENERATE = [{'kind': 'binary', 'n': 1, 'm': 1}, {'kind': 'binary', 'n': 2, 'm': 1}, {'kind': 'binary', 'n': 0, 'm': 4}, {'kind': 'binary', 'n': 3, 'm': 0},
               {'kind': 'unary', 'n': 0, 'm': 3}, {'kind': 'unary', 'n': 2, 'm': 0}, {'kind': 'unary', 'n': 0, 'm': 0},
               {'kind': 'sparse', 'n': 1, 'm': 2, 'edges': []}, {'kind': 'sparse', 'n': 2, 'm': 1, 'edges': []}, {'kind': 'sparse', 'n': 0, 'm': 0, 'edges': []}]
_SMALL = [{'kind': 'binary', 'n': 2, 'm': 2}, {'kind': 'unary', 'n': 2, 'm': 2}, {'kind': 'sparse', 'n': 2, 'm': 2, 'edges': [[1, 1], [2, 1], [2, 2]]}]


def enum_mapping(tier):
    maxn = 3
    # several mappings in one formula, those without variables included: each force call speaks about its own mapping
    k = 0
    for clsname in ('CNF', 'OPB'):
        for force in FORCES:
            for main in _DEGENERATE + _SMALL:
                if main['kind'] == 'binary' and force == 'surjective':
                    continue
                for first in _DEGENERATE + _SMALL:
                    k += 1
                    if tier == 'quick' and first in _SMALL and main in _SMALL and k % 3:
                        continue
                    for f0 in ([force] if tier == 'quick' else [force, None, FORCES[(FORCES.index(force) + 1) % len(FORCES)]]):
                        if first['kind'] == 'binary' and f0 == 'surjective':
                            continue
                        c = dict(main)
                        c.update({'cls': clsname, 'force': force, 'pre': k % 2, 'earlier': [dict(first, force=f0)]})
                        if k % 5 == 0:
                            c['earlier'].append(dict(_DEGENERATE[k % len(_DEGENERATE)], force=None))
                        yield c
    for clsname in ('CNF', 'OPB'):
        for force in FORCES:
            for n in range(0, 4):
                for m in range(0, 5):
                    if n * m <= 12:
                        yield {'cls': clsname, 'kind': 'unary', 'force': force, 'n': n, 'm': m, 'pre': 0}
            for n in range(0, 5):
                for m in range(0, 9):
                    if n * max(0, (m - 1).bit_length()) <= 12 and force != 'surjective':
                        yield {'cls': clsname, 'kind': 'binary', 'force': force, 'n': n, 'm': m, 'pre': (n + m) % 3}
            lim = 2 if tier == 'quick' else 3
            for n in range(0, lim + 1):
                for m in range(0, lim + 1):
                    allp = [(u, v) for u in range(1, n + 1) for v in range(1, m + 1)]
                    for mask in range(1 << len(allp)):
                        edges = [list(p) for i, p in enumerate(allp) if (mask >> i) & 1]
                        yield {'cls': clsname, 'kind': 'sparse', 'force': force, 'n': n, 'm': m,
                               'edges': edges, 'pre': mask % 2}


@st.composite
def strat_mapping(draw):
    clsname = draw(st.sampled_from(['CNF', 'OPB']))
    kind = draw(st.sampled_from(['unary', 'sparse', 'binary']))
    force = draw(st.sampled_from(FORCES if kind != 'binary' else [f for f in FORCES if f != 'surjective']))
    pre = draw(st.integers(0, 3))
    if kind == 'binary':
        n = draw(st.integers(0, 4))
        m = draw(st.integers(0, 9))
        if n * max(0, (m - 1).bit_length()) + pre > 16:
            n = 2
        return {'cls': clsname, 'kind': kind, 'force': force, 'n': n, 'm': m, 'pre': pre}
    n = draw(st.integers(0, 4))
    m = draw(st.integers(0, 4))
    if n * m + pre > 16:
        pre = 0
    c = {'cls': clsname, 'kind': kind, 'force': force, 'n': n, 'm': m, 'pre': pre}
    if kind == 'sparse':
        allp = [[u, v] for u in range(1, n + 1) for v in range(1, m + 1)]
        c['edges'] = draw(st.lists(st.sampled_from(allp), unique_by=tuple, max_size=len(allp))) if allp else []
        c['edges'].sort()
    if n * m <= 6 and draw(st.integers(0, 2)) == 0:
        c['pre'] = min(pre, 1)
        c['earlier'] = [dict(e, force=draw(st.sampled_from([force, force, None] if not (e['kind'] == 'binary' and force == 'surjective') else [None])))
                        for e in draw(st.lists(st.sampled_from(_DEGENERATE + _SMALL[:2]), min_size=1, max_size=2))]
    return c


SUBCHECKS = [
    SubCheck('linear', run_linear, strategy=strat_linear, enumerate_cases=enum_linear,
             quick=3000, thorough=200000,
             rule="every polarity pattern of 0..4 (thorough: 0..6) distinct literals x every builder method x operator x constant -2..L+2 (and, for 0, 1 and 3 literals, constants far outside the range: 2^31, 10^10, 2^63, 2^64+1, -2^63, ...) x container(list/tuple/generator/range) x check x CNF/OPB, enumerated completely; plus Hypothesis lists with repeated/opposite literals; oracle = bit-parallel arithmetic on all 2^n assignments; non-trivial: >=2 literals and constant strictly inside (0,L)",
             required_labels=['CNF', 'OPB', 'list', 'tuple', 'generator', 'range', 'const<0', 'const=0', 'const=n',
                              'const>n', 'empty-list', 'op!=', 'op<', 'op>', 'op==', 'op<=', 'op>=',
                              'repeated-literal', 'opposite-literal']),
    SubCheck('normalize', run_normalize, strategy=strat_normalize, enumerate_cases=enum_normalize,
             quick=3000, thorough=100000,
             rule="0..5 terms with coefficients -6..6 (non zero), five input relations, degrees beyond both trivial bounds; oracle: same truth table, positive coefficients, relation in {>=,==}; non-trivial: >=2 terms and a non-constant constraint",
             required_labels=['negative-coefficient', 'op<', 'op>', 'op<=', 'op==', 'op>=', 'no-terms']),
    SubCheck('mapping', run_mapping, strategy=strat_mapping, enumerate_cases=enum_mapping,
             quick=600, thorough=20000,
             rule="new_mapping(n,m) n<=3,m<=4; new_binary_mapping n<=4,m<=8; every sparse mapping on <=2x2 (thorough 3x3) bipartite graphs; one force_* call each, CNF and OPB; also as the second or third mapping of a formula whose earlier mappings (ten shapes without any variable - binary mappings into 0 or 1 values, unary mappings with an empty side, sparse mappings without edges - and three small ones) were created and constrained first, the rows added by the last force call being judged; oracle: relation decoded via to_index, functional condition evaluated on all assignments (binary mappings: equality on the assignments where every image is a legal value, and no accepted assignment may contain two elements whose legal images coincide / decrease, whatever the others are); non-trivial: n>=2 and m>=2",
             required_labels=['unary', 'sparse', 'binary', 'm-not-power-of-two', 'zero-bits', 'empty-side', 'after-other-mappings', 'second-mapping-without-variables'] + FORCES),
]


# ---------------------------------------------------------------------------
# several builder calls on one formula (state kept between calls must not matter) and long literal lists

def run_sequence(case):
    """the conjunction of several constraints added to the SAME formula"""
    clsname, nv = case['cls'], case['nv']
    F = _mk(clsname)
    F.update_variable_number(nv)
    want = tt.full(nv)
    for (method, lits, op, const, kind) in case['calls']:
        if clsname == 'OPB' and method == 'add_linear':
            method, op = {'<=': 'cardinality_leq', '>=': 'cardinality_geq', '==': 'cardinality_eq', '!=': 'cardinality_neq',
                          '<': 'cardinality_leq', '>': 'cardinality_geq'}[op], None
            if case['calls'] and False:
                pass
        arg = _container(kind, lits)
        m = getattr(F, method)
        if method == 'add_linear':
            m(arg, fresh(op), const)
        elif method == 'add_parity' or method.startswith('cardinality_'):
            m(arg, const)
        else:
            m(arg)
        want &= _reference(nv, method, lits, op, const)
    got = tt.formula_tt(F)
    if F.number_of_variables() != nv:
        raise Violation("sequence {}: variable count changed".format(case))
    if got != want:
        a = tt.first_row(got ^ want)
        raise Violation("{} after the calls {}: assignment {} is {} by the formula but the conjunction of the stated constraints is {}".format(
            clsname, case['calls'], tt.row_assignment(nv, a), 'accepted' if (got >> a) & 1 else 'rejected', bool((want >> a) & 1)))
    return Outcome(labels=[clsname, 'calls={}'.format(min(len(case['calls']), 3))], nontrivial=len(case['calls']) >= 2)


@st.composite
def strat_sequence(draw):
    nv = draw(st.integers(1, 5))
    clsname = draw(st.sampled_from(['CNF', 'OPB']))
    calls = []
    base = draw(st.lists(st.integers(1, nv).flatmap(lambda v: st.sampled_from([v, -v])), min_size=1, max_size=4))
    for _ in range(draw(st.integers(2, 4))):
        # literal lists that share the same set of literals but differ in order / multiplicity are the interesting ones
        how = draw(st.sampled_from(['same', 'perm', 'dup', 'fresh']))
        if how == 'same':
            lits = list(base)
        elif how == 'perm':
            lits = list(draw(st.permutations(base)))
        elif how == 'dup':
            lits = list(base) + [draw(st.sampled_from(base))]
        else:
            lits = draw(st.lists(st.integers(1, nv).flatmap(lambda v: st.sampled_from([v, -v])), max_size=4))
        method = draw(st.sampled_from(METHODS if clsname == 'CNF' else METHODS[1:]))
        need_op, need_const = _needs(method)
        op = draw(st.sampled_from(OPS)) if need_op else None
        const = draw(st.integers(0, 1)) if method == 'add_parity' else (draw(st.integers(-1, len(lits) + 1)) if need_const else None)
        calls.append([method, lits, op, const, draw(st.sampled_from(['list', 'tuple', 'generator']))])
    return {'cls': clsname, 'nv': nv, 'calls': calls}


def run_long(case):
    """long literal lists: evaluated on a batch of random assignments (2^n rows are out of reach)"""
    import random as _r
    clsname, method, L, const, op = case['cls'], case['method'], case['L'], case['const'], case.get('op')
    R = _r.Random(case['rseed'])
    nv = L + 1
    lits = [v if R.random() < 0.7 else -v for v in range(1, L + 1)]
    F = _mk(clsname)
    F.update_variable_number(nv)
    arg = _container(case['container'], lits)
    m = getattr(F, method)
    if method == 'add_linear':
        m(arg, fresh(op), const)
    elif method == 'add_parity' or method.startswith('cardinality_'):
        m(arg, const)
    else:
        m(arg)
    rows = []
    for _ in range(400):
        # assignments whose count of true literals is near the threshold, plus arbitrary ones
        k = R.choice([const, const, const - 1, const + 1, R.randint(0, L)]) if isinstance(const, int) and method != 'add_parity' else R.randint(0, L)
        k = max(0, min(L, k))
        true_lits = set(R.sample(range(L), k))
        rows.append(frozenset(abs(l) for i, l in enumerate(lits) if (i in true_lits) == (l > 0)))
    B = tt.Batch(nv, rows)
    got = tt.formula_tt(F, B)
    want = _reference(B, method, lits, op, const)
    if got != want:
        a = tt.first_row(got ^ want)
        raise Violation("{}.{} on {} literals (op={}, const={}): assignment with true variables {} is {} by the formula but the arithmetic says {}".format(
            clsname, method, L, op, const, sorted(B.rows[a]), 'accepted' if (got >> a) & 1 else 'rejected', bool((want >> a) & 1)))
    return Outcome(labels=[clsname, method, 'L>=16' if L >= 16 else 'L<16'], nontrivial=True)


def enum_long(tier):
    i = 0
    for clsname in ('CNF', 'OPB'):
        for L in ((9, 12, 16, 17) if tier == 'quick' else (9, 10, 12, 15, 16, 17, 18)):
            for const in (0, 1):
                i += 1
                yield {'cls': clsname, 'method': 'add_parity', 'L': L, 'const': const, 'container': CONTAINERS[i % 3], 'rseed': i}
            for method, op in (('add_linear', '>='), ('add_linear', '<'), ('add_linear', '=='), ('add_linear', '!='),
                               ('cardinality_leq', None), ('add_loose_majority', None), ('add_strict_minority', None)):
                if clsname == 'OPB' and method == 'add_linear':
                    continue
                for const in (1, 2, L - 1, L // 2):
                    if method.startswith('add_l') and method != 'add_linear' or method.startswith('add_s'):
                        const = None
                    elif (L > 12 and 2 < const < L - 2 and clsname == 'CNF'):
                        continue                      # C(L, L/2) clauses: skip the middle for long lists
                    i += 1
                    yield {'cls': clsname, 'method': method, 'op': op, 'L': L, 'const': const, 'container': CONTAINERS[i % 3], 'rseed': i}
                    if const is None:
                        break


SUBCHECKS += [
    SubCheck('sequence', run_sequence, strategy=strat_sequence, quick=1500, thorough=60000,
             rule="2..4 builder calls on the same formula, with literal lists that are equal, permuted, or differ only in multiplicity; oracle: the formula is the conjunction of the stated constraints on all assignments (<=5 variables); non-trivial: >=2 calls",
             required_labels=['CNF', 'OPB']),
    SubCheck('long', run_long, enumerate_cases=enum_long,
             rule="parity over 9..17 (thorough 18) literals and threshold/majority constraints over 9..17 literals with constants near the ends, CNF and OPB; oracle: formula and arithmetic agree on a batch of 400 assignments concentrated around the threshold (bit-parallel on the batch); non-trivial: all",
             required_labels=['L>=16', 'add_parity']),
]
