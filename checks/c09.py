"""C09 - shuffling is a signed renaming of variables plus a reordering of clauses."""
import itertools
import os
import random
from collections import Counter

from hypothesis import strategies as st

from vlib.core import SubCheck, Violation, Outcome, fresh
from vlib import tt, cli

PROPERTY = "C09"
ASSUMPTIONS = [
    "with CNFGEN_VERIF=1 Shuffle exposes the flips/permutation/clause mapping it used (hook H2); the check verifies that witness against input and output, so a wrong witness cannot hide a defect; without the attribute a witness is searched by backtracking (small formulas)",
    "explicit arguments follow the docstring: flips in {-1,+1}^N, permutation of 1..N (variable i becomes permutation[i-1]), clause i goes to position S[i]",
    "literal order inside a clause is not required to be preserved (clauses compared as multisets)",
]


def mkF(fc):
    from cnfgen import CNF
    F = CNF(description=fc.get('desc', 'hand made'))
    F.update_variable_number(fc['n'])
    for c in fc['clauses']:
        F.add_clause(list(c))
    return F


def verify_witness(Fc, n, out, w, what, fixed=()):
    flips, perm, pairs = w['flips'], w['permutation'], w['clauses']
    M = len(Fc)
    if len(flips) != n or any(f not in (1, -1) for f in flips):
        raise Violation("{}: polarity flips {} are not in {{-1,+1}}^{}".format(what, flips, n))
    if sorted(perm) != list(range(1, n + 1)):
        raise Violation("{}: {} is not a permutation of 1..{}".format(what, perm, n))
    if sorted(o for o, _ in pairs) != list(range(M)) or sorted(nw for _, nw in pairs) != list(range(M)):
        raise Violation("{}: clause mapping {} is not a permutation of the {} positions".format(what, pairs[:10], M))
    if len(out) != M:
        raise Violation("{}: {} clauses in, {} out".format(what, M, len(out)))
    for old, new in pairs:
        exp = Counter((1 if l > 0 else -1) * flips[abs(l) - 1] * perm[abs(l) - 1] for l in Fc[old])
        if Counter(out[new]) != exp:
            raise Violation("{}: output clause {} = {} is not input clause {} = {} under the one signed renaming (flips {}, permutation {})".format(
                what, new, out[new], old, Fc[old], flips, perm))
    if 'flips' in fixed and any(f != 1 for f in flips):
        raise Violation("{}: polarity flips switched off but {} applied".format(what, flips))
    if 'perm' in fixed and list(perm) != list(range(1, n + 1)):
        raise Violation("{}: variable permutation switched off but {} applied".format(what, perm))
    if 'clauses' in fixed and any(o != nw for o, nw in pairs):
        raise Violation("{}: clause permutation switched off but clauses moved".format(what))


def search_witness(Fc, n, out):
    """Backtracking search for (flips, permutation, clause matching). Small inputs only."""
    M = len(Fc)
    if len(out) != M:
        return None
    used = [False] * M
    img = {}          # var -> signed image
    taken = set()

    def match_clause(c, d, k, pending):
        # extend img so that multiset map(c) == d ; simple recursive matching of literals
        if k == len(c):
            return not pending and rec_next()
        l = c[k]
        v = abs(l)
        if v in img:
            t = img[v] if l > 0 else -img[v]
            if t in pending:
                pending.remove(t)
                if match_clause(c, d, k + 1, pending):
                    return True
                pending.append(t)
            return False
        for t in sorted(set(pending)):
            u = abs(t)
            if u in taken:
                continue
            img[v] = t if l > 0 else -t
            taken.add(u)
            pending.remove(t)
            if match_clause(c, d, k + 1, pending):
                return True
            pending.append(t)
            del img[v]
            taken.discard(u)
        return False

    order = sorted(range(M), key=lambda i: -len(Fc[i]))
    pos = [0]

    def rec_next():
        if pos[0] == M:
            return True
        i = order[pos[0]]
        pos[0] += 1
        for j in range(M):
            if not used[j] and len(out[j]) == len(Fc[i]):
                used[j] = True
                if match_clause(Fc[i], out[j], 0, list(out[j])):
                    return True
                used[j] = False
        pos[0] -= 1
        return False

    return rec_next()


def consequences(Fc, n, out_n, out, what):
    if out_n != n:
        raise Violation("{}: {} variables in, {} out".format(what, n, out_n))
    if len(out) != len(Fc):
        raise Violation("{}: {} clauses in, {} out".format(what, len(Fc), len(out)))
    if sorted(map(len, Fc)) != sorted(map(len, out)):
        raise Violation("{}: multiset of clause widths changed".format(what))
    if n <= 14:
        a, b = tt.popcount(tt.cnf_tt(n, Fc)), tt.popcount(tt.cnf_tt(n, out))
        if a != b:
            raise Violation("{}: {} models before, {} after".format(what, a, b))


def kind_of(x):
    return x if isinstance(x, str) else 'explicit'


def as_container(seq, how):
    """the same integer sequence handed over in another legal way (the documentation asks for a sequence)"""
    seq = list(seq)
    if how == 'tuple':
        return tuple(seq)
    if how == 'range' and len(seq) >= 1 and all(isinstance(x, int) for x in seq):
        step = seq[1] - seq[0] if len(seq) > 1 else 1
        r = range(seq[0], seq[0] + step * len(seq), step) if step else None
        if r is not None and list(r) == seq:
            return r
    if how == 'array':
        import array
        return array.array('i', seq) if all(isinstance(x, int) for x in seq) else array.array('d', seq)
    if how == 'userlist':
        from collections import UserList
        return UserList(seq)
    return list(seq)


def run_lib(case):
    from cnfgen import Shuffle
    F = mkF(case['F'])
    n = F.number_of_variables()
    Fc = [list(c) for c in F]
    M = len(Fc)
    args = {}
    invalid = case.get('invalid', False)
    for key in ('pf', 'vp', 'cp'):
        v = case[key]
        if isinstance(v, dict):
            seq = v['seq']
            v = as_container(seq, v.get('as', 'tuple' if v.get('tuple') else 'list'))
        args[key] = v
    before = [list(a) if not isinstance(a, str) else a for a in args.values()]
    random.seed(case['rseed'])
    what = "Shuffle(F={}, flips={}, perm={}, clauses={})".format(case['F'], args['pf'], args['vp'], args['cp'])
    try:
        G = Shuffle(F, polarity_flips=fresh(args['pf']), variables_permutation=fresh(args['vp']), clauses_permutation=fresh(args['cp']))
    except ValueError:
        if invalid:
            return Outcome(labels=['invalid-rejected'], rejected=True, nontrivial=True)
        raise Violation("{}: ValueError for valid arguments".format(what))
    if invalid:
        raise Violation("{}: invalid explicit argument accepted".format(what))
    if [list(a) if not isinstance(a, str) else a for a in args.values()] != before:
        raise Violation("{}: an explicit argument was modified".format(what))
    if [list(c) for c in F] != Fc or F.number_of_variables() != n:
        raise Violation("{}: the input formula was modified".format(what))
    out = [list(c) for c in G]
    consequences(Fc, n, G.number_of_variables(), out, what)
    labels = ['pf:' + kind_of(args['pf']), 'vp:' + kind_of(args['vp']), 'cp:' + kind_of(args['cp'])]
    for k in args:
        if isinstance(args[k], range) and list(args[k]) != sorted(args[k]):
            labels.append('descending-range')
        elif not isinstance(args[k], (str, list, tuple)):
            labels.append('as:' + type(args[k]).__name__)
    if all(not isinstance(args[k], str) or args[k] == 'fixed' for k in args):
        # fully determined: reference implementation
        flips = [1] * n if args['pf'] == 'fixed' else list(args['pf'])
        perm = list(range(1, n + 1)) if args['vp'] == 'fixed' else list(args['vp'])
        S = list(range(M)) if args['cp'] == 'fixed' else list(args['cp'])
        ref = [None] * M
        for i, c in enumerate(Fc):
            ref[S[i]] = Counter((1 if l > 0 else -1) * flips[abs(l) - 1] * perm[abs(l) - 1] for l in c)
        if [Counter(c) for c in out] != ref:
            raise Violation("{}: result {} differs from the documented mapping {}".format(what, out, [sorted(r.elements(), key=abs) for r in ref]))
        labels.append('reference')
    w = getattr(G, '_verif_witness', None)
    fixed = [k2 for k, k2 in (('pf', 'flips'), ('vp', 'perm'), ('cp', 'clauses')) if args[k] == 'fixed']
    if w is not None:
        verify_witness(Fc, n, out, w, what, fixed)
        # explicit arguments must be the ones applied
        if not isinstance(args['pf'], str) and list(w['flips']) != list(args['pf']):
            raise Violation("{}: applied flips {} differ from the given ones".format(what, w['flips']))
        if not isinstance(args['vp'], str) and list(w['permutation']) != list(args['vp']):
            raise Violation("{}: applied permutation {} differs from the given one".format(what, w['permutation']))
        if not isinstance(args['cp'], str) and sorted(w['clauses']) != sorted(enumerate(args['cp'])):
            raise Violation("{}: applied clause mapping differs from the given one".format(what))
        labels.append('hook-witness')
    elif M <= 8 and n <= 8:
        if not search_witness(Fc, n, out):
            raise Violation("{}: no signed renaming + clause permutation maps {} to {}".format(what, Fc, out))
        labels.append('searched-witness')
    if M <= 6 and n <= 6 and len(labels) and case.get('also_search', False):
        if not search_witness(Fc, n, out):
            raise Violation("{}: no signed renaming + clause permutation maps {} to {}".format(what, Fc, out))
        labels.append('searched-witness')
    hd = G.header.get('description', '')
    if case['F'].get('desc', 'hand made') not in hd:
        raise Violation("{}: the description {!r} lost the original text".format(what, hd))
    nontrivial = n >= 3 and len(set(map(tuple, Fc))) >= 3 and any(v != 'fixed' for v in args.values())
    return Outcome(labels=labels, nontrivial=nontrivial)


@st.composite
def strat_formula(draw, nmax=8, mmax=10):
    n = draw(st.integers(0, nmax))
    if n == 0:
        cls = draw(st.lists(st.just([]), max_size=2))
    else:
        lit = st.integers(1, n).flatmap(lambda v: st.sampled_from([v, -v]))
        cls = draw(st.lists(st.lists(lit, max_size=4), max_size=mmax))
    return {'n': n, 'clauses': cls, 'desc': draw(st.sampled_from(['hand made', 'php', 'a (reshuffled) formula']))}


@st.composite
def strat_lib(draw):
    F = draw(strat_formula())
    n, M = F['n'], len(F['clauses'])
    case = {'F': F, 'rseed': draw(st.integers(0, 10 ** 6)), 'invalid': False, 'also_search': draw(st.booleans())}
    bad_slot = draw(st.sampled_from([None, None, None, 'pf', 'vp', 'cp']))
    for key, size in (('pf', n), ('vp', n), ('cp', M)):
        kind = draw(st.sampled_from(['fixed', 'shuffle', 'explicit']))
        if key == bad_slot:
            kind = 'invalid'
        if kind in ('fixed', 'shuffle'):
            case[key] = kind
            continue
        if key == 'pf':
            seq = draw(st.lists(st.sampled_from([1, -1]), min_size=size, max_size=size))
        elif key == 'vp':
            seq = draw(st.permutations(list(range(1, size + 1))))
        else:
            seq = draw(st.permutations(list(range(size))))
        seq = list(seq)
        how_as = draw(st.sampled_from(['list', 'list', 'tuple', 'range', 'array', 'userlist']))
        if how_as == 'range' and key != 'pf' and kind != 'invalid':
            # the permutations that a range can express: identity and reversal
            seq = sorted(seq, reverse=draw(st.booleans()))
        if kind == 'invalid':
            how = draw(st.sampled_from(['short', 'long', 'repeat', 'range', 'zero', 'shift', 'negative-alias', 'negative-alias', 'all-negative', 'fraction', 'fraction', 'same-sum', 'same-sum']))
            if how == 'short':
                if not seq:
                    seq = [1]
                else:
                    seq = seq[:-1]
            elif how == 'long':
                seq = seq + [1]
            elif how == 'repeat' and len(seq) >= 2 and key != 'pf':
                seq[0] = seq[1]
            elif how == 'range' and seq:
                seq[0] = {'pf': 2, 'vp': size + 1, 'cp': size}[key]
            elif how == 'zero' and seq:
                seq[0] = {'pf': 0, 'vp': 0, 'cp': -1}[key]
            elif how == 'negative-alias' and seq and key != 'pf':
                # an image replaced by the negative number that indexes the same slot of a table from the end
                i = draw(st.integers(0, len(seq) - 1))
                seq[i] = seq[i] - (size + 1 if key == 'vp' else size)
            elif how == 'fraction' and len(seq) >= 3 and key != 'pf':
                # a non-integral number strictly between the smallest and the largest entry: lengths, bounds and
                # distinctness are all fine, only "is a permutation" is not
                order = sorted(range(len(seq)), key=lambda i_: seq[i_])
                i = order[draw(st.integers(1, len(seq) - 2))]
                seq[i] = seq[i] + draw(st.sampled_from([0.5, -0.5, 0.25]))
            elif how == 'same-sum' and len(seq) >= 3 and key != 'pf':
                # right length, every entry in range, the right sum and even the right sum of squares in some cases - but entries
                # repeat: the smallest entry is raised by one and the largest lowered by one
                i, j = seq.index(min(seq)), seq.index(max(seq))
                seq[i], seq[j] = seq[i] + 1, seq[j] - 1
            elif how == 'all-negative' and seq and key != 'pf':
                seq = [x - (size + 1 if key == 'vp' else size) for x in seq]
            elif how == 'shift' and seq and key != 'pf':
                seq = [x + (-1 if key == 'vp' else 1) for x in seq]
            else:
                seq = seq + [1]
            case['invalid'] = True
        case[key] = {'seq': seq, 'as': how_as}
    return case


def enum_lib(tier):
    """every explicit (flips, permutation, clause permutation) on two fixed small formulas"""
    forms = [{'n': 3, 'clauses': [[1, -2], [2, 3], [-1, -3, 2]], 'desc': 'hand made'},
             {'n': 2, 'clauses': [[1], [], [1, 2], [1, 2]], 'desc': 'hand made'}]
    for F in forms:
        n, M = F['n'], len(F['clauses'])
        for flips in itertools.product([1, -1], repeat=n):
            for perm in itertools.permutations(range(1, n + 1)):
                for S in itertools.permutations(range(M)):
                    if tier == 'quick' and (sum(S[:2]) + perm[0] + flips[0]) % 4:
                        continue
                    yield {'F': F, 'rseed': 1, 'invalid': False, 'also_search': False,
                           'pf': {'seq': list(flips)}, 'vp': {'seq': list(perm)}, 'cp': {'seq': list(S)}}
                    for how in ('range', 'array', 'userlist', 'tuple'):
                        # the same arguments through the other sequence types (range: where expressible)
                        if how == 'range' and not (list(perm) in (sorted(perm), sorted(perm, reverse=True)) or
                                                   list(S) in (sorted(S), sorted(S, reverse=True))):
                            continue
                        yield {'F': F, 'rseed': 1, 'invalid': False, 'also_search': False,
                               'pf': {'seq': list(flips), 'as': how}, 'vp': {'seq': list(perm), 'as': how}, 'cp': {'seq': list(S), 'as': how}}


# ---------------------------------------------------------------------------
# tools

# comment lines before the problem line: any line that starts with the letter c
HEADS = [[], [], ['c a comment\n'], ['c\n', 'c two\n'], ['c-----\n'], ['c--- first part ---\n', 'c\n'], ['cnf formula below\n'], ['c\tTabbed\n', 'c1 2 0\n']]
LAYOUTS = ['clause-per-line', 'literal-per-line', 'wrapped-2', 'two-clauses-per-line', 'one-line', 'zero-on-next-line']


def dimacs_text(F, layout=None):
    """the formula as DIMACS text; the format lets a clause run over any number of lines and a line hold several clauses"""
    head = "p cnf {} {}\n".format(F['n'], len(F['clauses']))
    toks = [list(map(str, list(c) + [0])) for c in F['clauses']]
    if layout in (None, 'clause-per-line'):
        return head + "".join(" ".join(t) + "\n" for t in toks)
    if layout == 'literal-per-line':
        return head + "".join(x + "\n" for t in toks for x in t)
    if layout == 'wrapped-2':
        return head + "".join("".join(" ".join(t[i:i + 2]) + "\n" for i in range(0, len(t), 2)) for t in toks)
    if layout == 'two-clauses-per-line':
        return head + "".join(" ".join(x for t in toks[i:i + 2] for x in t) + "\n" for i in range(0, len(toks), 2))
    if layout == 'one-line':
        return head + " ".join(x for t in toks for x in t) + ("\n" if toks else "")
    if layout == 'zero-on-next-line':
        # every clause ends on the line of the next one: "1 -2\n0 2 3\n0 ..."
        flat = [x for t in toks for x in t]
        lines, cur = [], []
        for x in flat:
            if x == '0':
                lines.append(" ".join(cur))
                cur = ['0']
            else:
                cur.append(x)
        if cur:
            lines.append(" ".join(cur))
        return head + "".join(l + "\n" for l in lines)
    raise RuntimeError("harness: unknown layout " + str(layout))


def run_tool(case):
    kind = case['kind']
    if kind == 'cnfshuffle':
        F = case['F']
        Fc = [list(c) for c in F['clauses']]
        n = F['n']
        flags = case['flags']
        args = ['--seed', str(case['seed'])] + flags
        random.seed(case['rseed'])
        G = cli.build('cnfshuffle', args, stdin_text=''.join(case.get('head', [])) + dimacs_text(F, case.get('layout')))
        what = "cnfshuffle {} on {}".format(' '.join(args), F)
        random.seed(case['rseed'] + 1)
        r = cli.run_main('cnfshuffle', args, stdin_text=''.join(case.get('head', [])) + dimacs_text(F, case.get('layout')))
        if r.code != 0 or r.exc is not None:
            raise Violation("{}: fails: {}".format(what, r))
        from checks.c17 import parse_dimacs
        n2, m2, cls2, _ = parse_dimacs(r.out)
        if n2 != G.number_of_variables() or cls2 != [list(c) for c in G]:
            raise Violation("{}: printed formula differs from the formula built under the same seed".format(what))
        fixed = [k for f, k in (('-p', 'flips'), ('-v', 'perm'), ('-c', 'clauses')) if f in flags]
    else:
        base = case['base']
        tflags = case['flags']
        random.seed(case['rseed'])
        F0 = cli.build('cnfgen', base)
        Fc = [list(c) for c in F0]
        n = F0.number_of_variables()
        args = ['--seed', str(case['seed'])] + base + ['-T', 'shuffle'] + tflags
        G = cli.build('cnfgen', args)
        what = "cnfgen {}".format(' '.join(args))
        fixed = [k for f, k in (('--no-polarity-flips', 'flips'), ('--no-variables-permutation', 'perm'),
                                ('--no-clauses-permutation', 'clauses')) if f in tflags]
    out = [list(c) for c in G]
    consequences(Fc, n, G.number_of_variables(), out, what)
    w = getattr(G, '_verif_witness', None)
    labels = [kind, 'tool']
    if kind == 'cnfshuffle' and any(len(h) > 1 and h[1] not in ' \t\n' for h in case.get('head', [])):
        labels.append('comment-glued-to-the-c')
    if kind == 'cnfshuffle' and case.get('layout'):
        labels.append('layout:' + case['layout'])
        if case['layout'] in ('literal-per-line', 'wrapped-2') and any(len(c) >= 3 for c in Fc):
            labels.append('clause-over-three-lines')
    if w is not None:
        verify_witness(Fc, n, out, w, what, fixed)
        labels.append('hook-witness')
    elif len(Fc) <= 8 and n <= 8:
        if not search_witness(Fc, n, out):
            raise Violation("{}: output is not a signed renaming + clause permutation of the input".format(what))
        labels.append('searched-witness')
    if len(fixed) == 3 and out != Fc:
        raise Violation("{}: everything switched off but the clauses changed".format(what))
    if len(fixed) == 3:
        labels.append('all-off')
    return Outcome(labels=labels, nontrivial=n >= 3 and len(Fc) >= 3 and len(fixed) < 3)


@st.composite
def strat_tool(draw):
    seed = draw(st.integers(0, 10 ** 6))
    if draw(st.booleans()):
        return {'kind': 'cnfshuffle', 'F': draw(strat_formula(nmax=7, mmax=8)), 'seed': seed, 'rseed': draw(st.integers(0, 99)),
                'flags': draw(st.lists(st.sampled_from(['-p', '-v', '-c', '-q']), unique=True)),
                'layout': draw(st.sampled_from(LAYOUTS)), 'head': draw(st.sampled_from(HEADS))}
    base = draw(st.sampled_from([['php', '3', '2'], ['op', '3'], ['tseitin', 'first', 'grid', '2', '2'], ['rphp', '2', '2', '1'],
                                 ['kcolor', '2', 'complete', '3'], ['and', '2', '2'], ['false'], ['true'], ['count', '4', '2'],
                                 ['php', '20', '10'], ['ram', '3', '3', '5']]))
    return {'kind': 'cnfgen-T', 'base': base, 'seed': seed, 'rseed': draw(st.integers(0, 99)),
            'flags': draw(st.lists(st.sampled_from(['--no-polarity-flips', '--no-variables-permutation', '--no-clauses-permutation']), unique=True))}


def run_pipe(case):
    """the real cnfshuffle process reading the formula from a pipe (a stream that cannot be rewound)"""
    from checks.c17 import parse_dimacs
    F = case['F']
    Fc = [list(c) for c in F['clauses']]
    n = F['n']
    text = ''.join(case['head']) + dimacs_text(F, case.get('layout'))
    args = ['--seed', str(case['seed'])] + case['flags']
    what = "cnfshuffle {} reading {!r} from a pipe".format(' '.join(args), text[:60])
    import tempfile
    import shutil
    d = tempfile.mkdtemp(prefix="c09p_")
    try:
        if case.get('out'):
            args = args + ['-o', case['out']]
            what += " writing to " + case['out']
        r = cli.run_subprocess('cnfshuffle', args, stdin_text=text, hashseed=case['hashseed'], cwd=d)
        if r.code != 0:
            raise Violation("{}: exit status {} and {!r}".format(what, r.code, (r.out + r.err)[-300:]))
        produced = r.out
        if case.get('out'):
            p = os.path.join(d, case['out'])
            if not os.path.isfile(p):
                raise Violation("{}: exit status 0 but the file was not written".format(what))
            with open(p, encoding='utf-8', errors='replace') as fh:
                produced = fh.read()
            if r.out.strip():
                raise Violation("{}: text on the standard output although -o was given".format(what))
    finally:
        shutil.rmtree(d, ignore_errors=True)
    if not produced.lstrip().startswith(('c', 'p')):
        raise Violation("{}: the output is not DIMACS: {!r}".format(what, produced[:120]))
    n2, m2, out, _ = parse_dimacs(produced)
    if n2 is None:
        raise Violation("{}: the output is not DIMACS: {!r}".format(what, r.out[:200]))
    consequences(Fc, n, n2, out, what)
    fixed = [k for f, k in (('-p', 'flips'), ('-v', 'perm'), ('-c', 'clauses')) if f in case['flags']]
    if len(Fc) <= 8 and n <= 8 and not search_witness(Fc, n, out):
        raise Violation("{}: output is not a signed renaming + clause permutation of the input".format(what))
    if len(fixed) == 3 and out != Fc:
        raise Violation("{}: everything switched off but the clauses changed".format(what))
    return Outcome(labels=['pipe', 'headerless' if not case['head'] else 'with-comments'] + (['to-file'] if case.get('out') else []),
                   nontrivial=n >= 3 and len(Fc) >= 3)


def enum_pipe(tier):
    forms = [{'n': 3, 'clauses': [[1, -2], [2, 3], [-1, -3, 2]]}, {'n': 4, 'clauses': [[1], [], [1, 2], [-4, 3, 2], [1, 2]]},
             {'n': 5, 'clauses': [[-5, 1], [2, -3, 4], [3], [-1, -2]]}, {'n': 1, 'clauses': []}]
    heads = [[], ['c a comment\n'], ['c\n', 'c two\n'], ['c-----\n', 'c1 2 0\n']]
    flagsets = [[], ['-q'], ['-p', '-v', '-c'], ['-v'], ['-c', '-q'], ['-p']]
    i = 0
    for F in forms:
        for head in heads:
            for fl in flagsets:
                i += 1
                if tier == 'quick' and i % 8 != 1:
                    continue
                yield {'F': F, 'head': head, 'flags': fl, 'seed': i, 'hashseed': str(i % 3), 'layout': LAYOUTS[i % len(LAYOUTS)]}
    # the shuffled formula is DIMACS whatever the name of the output file looks like
    for k, out in enumerate(['shuffled.cnf', 'shuffled', 'shuffled.opb', 'shuffled.tex', 'shuffled.dimacs', 'shuffled.txt', 'out.gml']):
        yield {'F': forms[k % 3], 'head': heads[k % 3], 'flags': flagsets[k % len(flagsets)], 'seed': k, 'hashseed': '0', 'out': out}


SUBCHECKS = [
    SubCheck('library', run_lib, strategy=strat_lib, enumerate_cases=enum_lib, quick=3000, thorough=120000,
             rule="CNFs with 0..8 variables, 0..10 clauses (duplicates, empty clauses, unused variables) x each of the three arguments in {'fixed','shuffle', explicit sequence given as list / tuple / range (identity, reversal) / array.array / UserList, explicit invalid (wrong length, repeated, out of range, 0/2 flips, shifted base, images replaced by the negative numbers that index the same table slot from the end, a non-integral number between the extremes, entries in range with the right sum but repeated)} x seeds; complete slice: every explicit (flips, permutation, clause permutation) on two small formulas; oracle: explicit => equals the documented mapping, invalid => ValueError, random => hook witness verified (or backtracking search), same variable/clause counts, width multiset and model count, inputs untouched, description keeps the original text; non-trivial: >=3 variables, >=3 distinct clauses, some component not fixed",
             required_labels=['pf:fixed', 'pf:shuffle', 'pf:explicit', 'vp:fixed', 'vp:shuffle', 'vp:explicit', 'cp:fixed',
                              'cp:shuffle', 'cp:explicit', 'invalid-rejected', 'hook-witness', 'searched-witness', 'reference',
                              'descending-range', 'as:array', 'as:UserList']),
    SubCheck('tools', run_tool, strategy=strat_tool, quick=400, thorough=20000,
             rule="cnfshuffle (DIMACS on stdin in six legal layouts: a clause per line, a literal per line, lines wrapped after two tokens, two clauses per line, everything on one line, the closing 0 at the start of the next line; 0..2 comment lines first, also ones whose text is glued to the letter c; every subset of -p -v -c -q, --seed) and 'cnfgen <family> -T shuffle' with every subset of the three --no-* switches; oracle: witness verified, switched-off components are the identity, printed text equals the formula built under the same seed, all three off => clauses unchanged",
             required_labels=['cnfshuffle', 'cnfgen-T', 'all-off', 'hook-witness', 'clause-over-three-lines', 'comment-glued-to-the-c'] + ['layout:' + l for l in LAYOUTS]),
    SubCheck('pipe', run_pipe, enumerate_cases=enum_pipe,
             rule="the cnfshuffle tool as a real process with its input on a pipe: 4 formulas x {no comment before the problem line, one, two comment lines} x 6 switch sets (quick: every eighth), and -o into files named .cnf / .opb / .tex / .dimacs / .txt / .gml / without extension; oracle: exit status 0, DIMACS output, same counts and clause multiset shape, a signed renaming + clause permutation exists (searched), everything off = identity; non-trivial: >=3 variables and >=3 clauses",
             required_labels=['pipe', 'headerless', 'with-comments', 'to-file']),
]
