"""C15 - graph constructions on the command line deliver the structure they name.

A case is ``{'gtype', 'tokens', 'rseed'}`` (plus ``'cmd'`` for the sub-check that goes through a
real sub-command): the token list is exactly what follows the formula arguments on the command
line, the file name after ``save`` is relative and is placed in a scratch directory by run_case.
Two more kinds of case, both run by the sub-checks `options` (library) and `cli` (command line):
``'kind': 'file'`` (graph arguments read from files of the harness, see run_file) and
``'kind': 'target'`` (what the target of `save` held before the command, see run_target).
"""
import atexit
import itertools
import os
import random
import shutil
import sys
import tempfile

from hypothesis import strategies as st

from vlib.core import SubCheck, Violation, Outcome, exception_in_tree, short_tb
from vlib import graphspec_ref as M
from vlib import rd_graphs as R
from vlib import graphs_gen as gg
from vlib import cli

PROPERTY = "C15"
ASSUMPTIONS = [
    "legal ranges are the ones of cnfgen/clitools/graph_docs.py and of the texts of the error messages (N, L, R >= 1; gnm 0<=m<=N(N-1)/2; gnd N>d, N*d even; glrm 0<=m<=L*R; glrd and regular 0<=d<=R, regular R | L*d; shift offsets 0..R without repetition; path/tree/pyramid >= 0; plantclique 0<=k<=order; plantbiclique within the sides; addedges at most the missing edges; splitedges at most the present edges); everything else must raise ValueError (command line: CLIError)",
    "gray (a refusal and a graph with the structure are both accepted): unusual spellings of a legal number ('+2', '02', '2.0', '-0'), 'gnd N 0', grid/torus without any dimension, a shift pattern containing both 0 and R, an option given twice",
    "modifiers: the observed outcome must be explained by SOME order of application of the modifiers present (the documented order plantclique/plantbiclique, addedges, splitedges is tried first); each step is compared with the graph the tree builds from the specification without the later modifiers under the same seed of the global generator (sound because the construction draws its random numbers before any modifier does)",
    "splitedges: the new vertices are the ones appended after the old ones",
    "grid/torus are compared up to isomorphism, path/tree/pyramid up to isomorphism plus 'every edge goes from a smaller to a larger vertex'; complete N B up to the numbering of the blocks; t-partite gnp: some partition in t independent blocks of N; shift exactly",
    "torus with a side of length 1: the cycle of length 1 contributes no edge in a simple graph (torus 1 3 is the triangle); with a side 2 the cycle of length 2 is a single edge",
    "saved gml/dot files: vertices are numbered by increasing identifier, each side on its own for bipartite graphs; a file of a directed graph must be marked directed",
    "sizes: at most 9 vertices per side / 16 vertices for grids and trees, except `regular` in its dense, unbalanced region (up to 130 left and 6 right vertices); a defect that needs larger graphs is out of reach",
    "cases with 'chance' (ScriptedChance): the functions random.randint, random.choice and random.sample are replaced, for the time of the build, by harness functions that answer from a private generator and in runs with the lowest / highest legal value (sample: the previous answer for an equal population and k); the property is quantified over 'all outcomes of the random choices made by the samplers', every scripted sequence consists of legal answers and so has positive probability under an honest generator; draws made through other functions (random.random, random.shuffle, networkx's own use of the generator) stay with the global generator seeded from rseed",
    "which branch of a sampler ran (a free pair picked from the list / restart in `regular`, listing of the missing edges in `addedges`) is observed by pass-through wrappers around random.choice, random.sample and the name cnfgen.graphs.bipartite_random_regular that look at the name of the calling function; arguments, results and the stream of random numbers are untouched, the observation only labels the case",
    "position of `save`: the help texts (cnfgen --help-simple / --help-bipartite / --help-dag, docstring of cnfgen/clitools/graph_args.py) list `save` among the options that 'may follow' the construction or file, 'for reproducibility', storing 'the graph generated', and say nothing about its place among the modifiers: wherever it is written, the saved file must hold the final graph, the one the formula is built from",
    "graphs read from files: the files are written by the harness (vlib/rd_graphs.py writers; gml/dot documents with identifiers 1..N, left side first), at most 7 vertices / 4 per side; file names never contain a newline (the unchanged tree copies the file name into the comment line of a saved kthlist file, which a newline breaks); non-ASCII letters in the comment lines of saved kthlist/dimacs files are ignored by the reference readers; the digraph type has no formula on the command line and is only reached through make_graph_from_spec",
    "target of `save` (case kind 'target'): the file named after `save` is a regular file in a scratch directory or does not exist (no links, devices, directories, read-only files); whatever it held before, after an accepted command it must be byte for byte what the same request (same seed of the global generator) stores under a name that did not exist; the reference is produced through make_graph_from_spec also for the in-process command lines (under the same seed both store the same bytes: observed on the unchanged tree, and checked again by every case); the unchanged tree reads the file of the graph argument completely and closes it before `save` opens its target (obtain_graph: read_graph_from_input, modifiers, then writeGraph(mode 'w')), the documentation says nothing about saving over the input: `<file> ... save <the same file>` is taken as legal and must leave the graph that was in the file (plus the modifiers) in the format asked for; a refused request is not judged on what it leaves in the target",
]

_TMP = {}


def _tmpdir():
    pid = os.getpid()
    if pid not in _TMP:
        base = os.path.join(os.path.dirname(os.path.dirname(os.path.abspath(__file__))), 'out', 'tmp')
        os.makedirs(base, exist_ok=True)
        d = tempfile.mkdtemp(prefix='c15_', dir=base)
        _TMP.clear()
        _TMP[pid] = d
        atexit.register(shutil.rmtree, d, True)
        try:        # worker processes of the runner do not run atexit handlers
            from multiprocessing import util as _mpu
            _mpu.Finalize(None, shutil.rmtree, args=(d, True), exitpriority=0)
        except Exception:      # noqa
            pass
    return _TMP[pid]


class Rejected(Exception):
    """The tree refused the specification in the documented way."""


class Obs(object):
    """What one call produced: the graph (as Desc), the object / formula when there is one."""
    __slots__ = ('desc', 'obj', 'formula', 'labels')

    def __init__(self, desc, obj=None, formula=None, labels=()):
        self.desc, self.obj, self.formula, self.labels = desc, obj, formula, list(labels)


def _spec_text(gtype, tokens):
    return "[{}] {}".format(gtype, ' '.join(tokens))


def _internal(e, what):
    return Violation("{}: internal failure {}: {} [{}]".format(what, type(e).__name__, str(e)[:300], short_tb(e)))


def _dot_missing(fmt):
    if fmt != 'dot':
        return False
    from cnfgen.graphs import has_dot_library
    return not has_dot_library()


def _parse(gtype, tokens):
    """M.parse_spec, also for a graph read from a file: `<format> <file> options...` is read as the
    construction '<file>' (the file name alone is already read that way)"""
    if len(tokens) >= 2 and tokens[0] in M.FORMATS[gtype] and tokens[0] not in M.CONSTRUCTIONS[gtype]:
        return M.parse_spec(gtype, list(tokens[1:]))
    return M.parse_spec(gtype, tokens)


def _realize(gtype, tokens, tmp, tag):
    """tokens with the file of every `save` placed in the scratch directory; list of (fmt, path)
    of the files a well formed `save` announces"""
    S = _parse(gtype, tokens)
    out = list(tokens)
    files = []
    i = 0
    k = 0
    while i < len(out):
        if out[i] == 'save' and i + 1 < len(out):
            j = i + 1
            fmt = None
            if out[j] in M.FORMATS[gtype] and j + 1 < len(out):
                fmt = out[j]
                j += 1
            elif out[j] in M.FORMATS[gtype]:
                break
            name = os.path.basename(out[j])
            path = os.path.join(tmp, "{}{}_{}".format(tag, k, name))
            k += 1
            out[j] = path
            files.append((M.save_format(gtype, fmt, name), path))
            i = j + 1
        else:
            i += 1
    return S, out, files


def _read_file(fmt, gtype, path, what):
    try:
        with open(path, encoding='utf-8') as f:
            text = f.read()
    except FileNotFoundError:
        raise Violation("{}: `save` did not write the file".format(what))
    except UnicodeDecodeError as e:
        raise Violation("{}: the saved {} file is not UTF-8 text: {}".format(what, fmt, e))
    return _parse_saved(fmt, gtype, text, what)


def _parse_saved(fmt, gtype, text, what):
    """(Desc, how) of the whole text of a file written by `save`"""
    shown = text
    if fmt in ('kthlist', 'dimacs') and not text.isascii():
        # the comment lines carry the name of the graph (with the name of the file it was read from):
        # what they say is not part of the graph, the reference readers only know the plain alphabet
        text = '\n'.join((''.join(ch if ' ' <= ch <= '~' else '?' for ch in l) if l[:1] == 'c' else l)
                         for l in text.split('\n'))
    try:
        d, how = M.read_saved(fmt, gtype, text)
    except M.Mismatch as e:
        raise Violation("{}: saved {} file: {} -- file: {!r}".format(what, fmt, e, shown[:400]))
    except Exception as e:      # noqa  (the third-party parsers fail in their own ways on a broken document)
        raise Violation("{}: the saved {} file cannot be parsed, neither by the harness's reader nor by the third-party one ({}: {}) "
                        "-- file: {!r}".format(what, fmt, type(e).__name__, str(e)[:200], shown[:400]))
    return d, how


def _tree_read(fmt, gtype, path, what, by_extension):
    """The saved file given back to the tree as a graph argument (`<format> <file>`, or the file alone
    when its extension tells the format): Desc of what comes out."""
    import cnfgen.clitools.msg as msg
    from cnfgen.clitools.graph_args import make_graph_from_spec
    msg._prefix = ''
    try:
        H = make_graph_from_spec(gtype, [path] if by_extension else [fmt, path])
    except Exception as e:      # noqa
        try:
            with open(path, encoding='utf-8', errors='replace') as f:
                text = f.read()
        except OSError:
            text = ''
        raise Violation("{}: the {} file written by `save` is refused when it is given back as a {} graph argument: "
                        "{}: {} -- file: {!r}".format(what, fmt, gtype, type(e).__name__, str(e)[:200], text[:400]))
    finally:
        msg._prefix = ''
    try:
        return M.describe(H, gtype)
    except M.Mismatch as e:
        raise Violation("{}: the {} file written by `save`, read back: {}".format(what, fmt, e))


def _cleanup(paths):
    for p in paths:
        try:
            os.unlink(p)
        except OSError:
            pass


# ---------------------------------------------------------------------------
# which of the rarely taken branches of the samplers ran (labels only)

class BranchObserver(object):
    """Pass-through wrappers around random.choice, random.sample and the module-level name
    cnfgen.graphs.bipartite_random_regular (arguments, results and the stream of random numbers are
    untouched).  The branch is told from the function the call comes from:
      regular:fallback-pick   random.choice called by bipartite_random_regular: all the 3*d*d retries for one edge
                              hit pairs that are joined already and a free pair of stubs was picked from the list
      regular:fallback-pick-kept  ... and the construction was not started again afterwards: the graph returned contains
                              the edge that was picked from the list
      regular:restart         bipartite_random_regular called through its module-level name (by itself): no free
                              pair was left, the construction started again
      addedges:listing        random.sample called by add_random_missing_edges itself (its rejection sampler lives
                              in a nested function): the 10*m draws fell short, the missing edges were listed"""

    def __enter__(self):
        import cnfgen.graphs as cg
        self.seen = seen = set()
        self._cg, self._choice, self._sample = cg, random.choice, random.sample
        self._regular = getattr(cg, 'bipartite_random_regular', None)
        choice0, sample0, regular0 = self._choice, self._sample, self._regular

        def choice(seq):
            if sys._getframe(1).f_code.co_name == 'bipartite_random_regular':
                seen.add('regular:fallback-pick')
                seen.add('regular:fallback-pick-kept')
            return choice0(seq)

        def sample(population, k, *args, **kwargs):
            if sys._getframe(1).f_code.co_name == 'add_random_missing_edges':
                seen.add('addedges:listing')
            return sample0(population, k, *args, **kwargs)

        def regular(*args, **kwargs):
            seen.add('regular:restart')
            seen.discard('regular:fallback-pick-kept')
            return regular0(*args, **kwargs)

        random.choice, random.sample = choice, sample
        if regular0 is not None:
            cg.bipartite_random_regular = regular
        return self

    def __exit__(self, *exc):
        random.choice, random.sample = self._choice, self._sample
        if self._regular is not None:
            self._cg.bipartite_random_regular = self._regular
        return False

    def labels(self):
        return sorted(self.seen)


class ScriptedChance(object):
    """The random choices of the samplers as an input of the case (case['chance'] = [key, percent, lengths]).

    While a build runs, random.randint, random.choice and random.sample (the three functions through which the
    samplers of cnfgen/graphs.py and graph_build.py draw) are answered from a private generator seeded with `key`,
    which now and then (each call outside a run starts one with probability `percent`/100) enters a RUN of
    `lengths[j]` calls in which every answer is the lowest (or, for the whole run, the highest) legal one:
    randint(a, b) gives a (resp. b), choice(seq) gives seq[0] (resp. seq[-1]) and sample(population, k) repeats its
    previous answer when that one was drawn from an equal population with the same k.  Every sequence
    of answers is a possible outcome of an honest generator (each value lies in the requested range, a sample has
    k distinct members of the population), so the promise of the construction must hold; runs make the outcomes in
    which a rejection sampler keeps hitting what it already has - the ones that lead into the fall-back branches -
    frequent instead of one in 10^5.  Runs are finite and there are at most MAX_RUNS of them in one build, so every
    retry loop (and the restart of `regular`, whose dead ends would otherwise follow each other for minutes on dense
    parameters) goes on with honest draws afterwards.
    The same key gives the same answers to the same sequence of calls: a specification and its prefixes (same
    construction, fewer modifiers) see the same outcome of the construction, as they do under a seed."""

    MAX_RUNS = 6        # per build: after the sixth run every answer is an honest draw

    def __init__(self, spec):
        key, percent, lengths = spec
        self.rng = random.Random(key)
        self.percent, self.lengths = percent, list(lengths)
        self.left, self.high, self.last = 0, False, None
        self.runs = 0

    def _in_run(self):
        if self.left > 0:
            self.left -= 1
            return True
        if self.runs < self.MAX_RUNS and self.rng.randrange(100) < self.percent:
            self.left = self.lengths[self.rng.randrange(len(self.lengths))]
            self.high = self.rng.randrange(4) == 0
            self.runs += 1
        return False

    def __enter__(self):
        self._saved = (random.randint, random.choice, random.sample)

        def randint(a, b):
            if a > b:
                raise ValueError("empty range for randrange() ({}, {}, {})".format(a, b + 1, b + 1 - a))
            if self._in_run():
                return b if self.high else a
            return self.rng.randint(a, b)

        def choice(seq):
            if not len(seq):
                raise IndexError('Cannot choose from an empty sequence')
            if self._in_run():
                return seq[-1] if self.high else seq[0]
            return seq[self.rng.randrange(len(seq))]

        def sample(population, k, **kwargs):
            run = self._in_run()
            if (run and self.last is not None and not kwargs and self.last[1] == k
                    and type(self.last[0]) is type(population) and self.last[0] == population):
                return list(self.last[2])
            out = self.rng.sample(population, k, **kwargs)
            self.last = (population, k, list(out))
            return out

        random.randint, random.choice, random.sample = randint, choice, sample
        return self

    def __exit__(self, *exc):
        random.randint, random.choice, random.sample = self._saved
        return False


class _NoChance(object):
    def __enter__(self):
        return self

    def __exit__(self, *exc):
        return False


def _chance(spec):
    return ScriptedChance(spec) if spec else _NoChance()


# ---------------------------------------------------------------------------
# the two ways to obtain the graph of a specification

def _reread(fmt, gtype, path, what, d, rseed):
    """labels; the file must come back through the tree's own reader as the graph d"""
    if fmt is None or _dot_missing(fmt):
        return []
    by_ext = rseed % 2 == 0 and M.save_format(gtype, None, os.path.basename(path)) == fmt
    back = _tree_read(fmt, gtype, path, what, by_ext)
    if not back.same(d):
        raise Violation("{}: the {} file written by `save`, given back as a graph argument, is {} but the graph "
                        "in use is {}".format(what, fmt, back.show(), d.show()))
    return ['reread-by-tree', 'reread-by-tree/' + fmt]


def lib_builder(gtype, rseed, tmp, reread=False, chance=None):
    import cnfgen.clitools.msg as msg
    from cnfgen.clitools.graph_args import make_graph_from_spec

    def build(tokens, tag):
        what = _spec_text(gtype, tokens)
        S, real, files = _realize(gtype, tokens, tmp, tag)
        try:
            random.seed(rseed)
            msg._prefix = ''
            seen = BranchObserver()
            try:
                with _chance(chance), seen:
                    G = make_graph_from_spec(gtype, list(real))
            except ValueError as e:
                raise Rejected(str(e))
            except Exception as e:      # noqa
                if exception_in_tree(e):
                    raise _internal(e, what)
                raise
            try:
                d = M.describe(G, gtype)
            except M.Mismatch as e:
                raise Violation("{}: {}".format(what, e))
            labels = seen.labels()
            for fmt, path in files:
                if fmt is None or _dot_missing(fmt):
                    continue
                fd, how = _read_file(fmt, gtype, path, what)
                if not fd.same(d):
                    raise Violation("{}: the {} file written by `save` holds {} but the graph returned is {}".format(
                        what, fmt, fd.show(), d.show()))
                labels += ['saved', 'saved/{}/{}'.format(gtype, fmt), 'reader-' + how]
                if reread:
                    labels += _reread(fmt, gtype, path, what, d, rseed)
            return Obs(d, obj=G, labels=labels)
        finally:
            _cleanup(p for _, p in files)
    return build


def _library_formula(cmd, gtype, d):
    import cnfgen
    if gtype == 'simple':
        G = gg.build_simple({'n': d.n, 'edges': sorted(d.edges)})
        if cmd[0] == 'kcolor':
            return cnfgen.GraphColoringFormula(G, int(cmd[1]))
        if cmd[0] == 'domset':
            return cnfgen.DominatingSet(G, int(cmd[1]))
    elif gtype == 'bipartite':
        B = gg.build_bipartite({'L': d.L, 'R': d.R, 'edges': sorted(d.edges)})
        return cnfgen.GraphPigeonholePrinciple(B, functional='--functional' in cmd, onto='--onto' in cmd)
    else:
        D = gg.build_digraph({'n': d.n, 'edges': sorted(d.edges)})
        if cmd[0] == 'peb':
            return cnfgen.PebblingFormula(D)
    raise KeyError(cmd)


def cli_builder(cmd, gtype, rseed, tmp, reread=False, chance=None):
    from cnfgen.clitools.cmdline import CLIError

    def build(tokens, tag):
        what = "cnfgen {} {}".format(' '.join(cmd), ' '.join(tokens))
        S, real, files = _realize(gtype, tokens, tmp, tag)
        own = None
        if not any(name == 'save' for name, _ in S.options):
            own = os.path.join(tmp, tag + '_obs.kthlist')
            real = real + ['save', 'kthlist', own]
            files = files + [('kthlist', own)]
        try:
            random.seed(rseed)
            seen = BranchObserver()
            try:
                with _chance(chance), seen:
                    F = cli.build('cnfgen', list(cmd) + real)
            except CLIError as e:
                raise Rejected(str(e))
            except SystemExit as e:
                raise Violation("{}: the command line interface exits ({}) instead of raising its error".format(what, e.code))
            except Exception as e:      # noqa
                if exception_in_tree(e):
                    raise _internal(e, what)
                raise
            good = [(fmt, p) for fmt, p in files if fmt is not None and not _dot_missing(fmt)]
            if not good:
                return Obs(None, formula=F, labels=['unobserved'])
            descs = [_read_file(fmt, gtype, p, what) for fmt, p in good]
            d = descs[0][0]
            labels = ['reader-' + descs[0][1]] + seen.labels()
            if own is None:
                labels += ['saved', 'saved/{}/{}'.format(gtype, good[0][0])]
            for other, _ in descs[1:]:
                if not other.same(d):
                    raise Violation("{}: two `save` files of one run differ".format(what))
            # the formula the sub-command builds is the library formula on the saved graph
            Flib = _library_formula(cmd, gtype, d)
            _same_formula(F, Flib, what, d)
            if reread and own is None:
                for fmt, p in good:
                    labels += _reread(fmt, gtype, p, what, d, rseed)
            return Obs(d, formula=F, labels=labels)
        finally:
            _cleanup(p for _, p in files)
    return build


def _same_formula(A, B, what, d):
    if A.number_of_variables() != B.number_of_variables():
        raise Violation("{}: the formula has {} variables, the library formula on the saved graph ({}) has {}".format(
            what, A.number_of_variables(), d.show(), B.number_of_variables()))
    la, lb = list(A.all_variable_labels()), list(B.all_variable_labels())
    if la != lb:
        raise Violation("{}: variable names differ from the library formula on the saved graph ({})".format(what, d.show()))
    ra, rb = [list(r) for r in A], [list(r) for r in B]
    if ra != rb:
        i = next((i for i, (x, y) in enumerate(zip(ra, rb)) if x != y), min(len(ra), len(rb)))
        raise Violation("{}: the formula is not the library formula on the saved graph ({}): {} vs {} clauses, first difference at {}: {} / {}".format(
            what, d.show(), len(ra), len(rb), i, ra[i] if i < len(ra) else None, rb[i] if i < len(rb) else None))


# ---------------------------------------------------------------------------
# the oracle

def _chain(gtype, what, base_desc, base_tokens, mods, full, full_msg, build):
    """Labels of the chain of step relations that explains `full` (Obs, or None when the whole specification
    was refused with the message full_msg) from the graph base_desc of `base_tokens` through the modifiers
    mods = [(name, numeric tokens)]; 'rejected' is among the labels when the refusal is the right answer.
    Every step is observed through build(base_tokens + the modifiers so far) under the same seed."""
    labels = []
    def explain(order):
        prev = base_desc
        step_labels = []
        for j, (name, nums) in enumerate(order):
            status, vals, marks = M.step_validity(name, nums, prev)
            step_labels += ['{}:{}'.format(name, m) for m in sorted(marks)]
            if status == 'invalid':
                if full is None:
                    if 'just-outside' in marks:
                        step_labels.append('just-outside-rejected')
                    return None, step_labels + ['rejected']
                return "`{} {}` cannot be applied to {} but the specification is accepted".format(
                    name, ' '.join(nums), prev.show()), None
            if status == 'gray' and full is None:
                return None, step_labels + ['gray', 'gray-rejected', 'rejected']
            prefix = base_tokens + [t for n, ns in order[:j + 1] for t in [n] + list(ns)]
            try:
                nxt = build(prefix, 'p{}'.format(j))
            except Rejected as e:
                return "`{}` is a legal request on {} but `{}` is refused: {!r}".format(
                    ' '.join([name] + list(nums)), prev.show(), ' '.join(prefix), str(e).splitlines()[0]), None
            try:
                M.check_step(name, vals, prev, nxt.desc)
            except M.Mismatch as e:
                return str(e), None
            if vals and any(v for v in vals):
                step_labels.append('modifier-nonzero')
            prev = nxt.desc
        if full is None:
            return "every step is a legal request but the specification is refused: {!r}".format(full_msg), None
        if not full.desc.same(prev):
            return "under the same seed the specification gives {} but its modifiers applied one by one give {}".format(
                full.desc.show(), prev.show()), None
        return None, step_labels

    documented = sorted(mods, key=lambda x: M.MODIFIERS[gtype].index(x[0]))
    orders = [documented] + [list(p) for p in itertools.permutations(documented) if list(p) != documented]
    first_msg = None
    for i, order in enumerate(orders):
        msg, step_labels = explain(order)
        if msg is None:
            labels += step_labels
            if i > 0:
                labels.append('explained-by-another-order')
            break
        if first_msg is None:
            first_msg = msg
    else:
        raise Violation("{} (generator seeded with rseed): {}".format(what, first_msg))
    return labels


def in_dense_regular_region(L, Rr, d):
    """`regular L R d` with few right vertices, every left vertex joined to all of them or to all but one, and
    many more left vertices than right ones: where the retries of the sampler run out while a free pair exists
    (survey on an instrumented copy of the unchanged tree: once in 10..300 runs, against once in 10^5 elsewhere)"""
    return 2 <= Rr <= 6 and d >= 2 and d >= Rr - 1 and L >= 6 * Rr


def judge(gtype, tokens, build):
    """Outcome for the specification, obtained through build(tokens, tag) -> Obs / Rejected."""
    what = _spec_text(gtype, tokens)
    S = M.parse_spec(gtype, tokens)
    J = M.judge_base(gtype, S.cons, S.args)
    labels = ['{}/{}'.format(gtype, S.cons) if S.cons in M.CONSTRUCTIONS[gtype] else 'foreign-construction']
    labels += sorted(J.marks)
    hard = [p[1:] for p in S.problems if p[0] == '!']
    soft = [p[1:] for p in S.problems if p[0] == '?']
    mods = [(n, nums) for n, nums in S.options if n != 'save']
    saves = [v for n, v in S.options if n == 'save']
    for n, _ in S.options:
        labels.append('opt-' + n)
    for fmt, name in saves:
        if name is not None and M.save_format(gtype, fmt, name) is None:
            hard.append('cannot tell the format of {}'.format(name))
            labels.append('save-unknown-format')
    if len(S.options) >= 2:
        labels.append('options>=2')
        doc = [n for n in M.ALL_OPTION_NAMES if n in [x for x, _ in S.options]]
        if [n for n, _ in S.options] != doc:
            labels.append('options-reordered')

    full_msg = ''
    try:
        full = build(tokens, 'f')
    except Rejected as e:
        full = None
        full_msg = str(e).splitlines()[0] if str(e) else ''

    def rejected(extra):
        return Outcome(labels=labels + ['rejected'] + extra, nontrivial=False, rejected=True)

    # 1. specifications that are wrong whatever the graph is
    if hard or J.status == 'invalid':
        reason = (hard + J.why)[0]
        if full is not None:
            raise Violation("{}: accepted although {} -- result: {}".format(
                what, reason, full.desc.show() if full.desc is not None else 'a formula'))
        extra = ['just-outside-rejected'] if 'just-outside' in J.marks and J.status == 'invalid' else []
        return rejected(extra)
    if soft or (J.status == 'gray' and full is None):
        if full is None:
            return rejected(['gray', 'gray-rejected'])
        return Outcome(labels=labels + ['gray', 'gray-accepted'], nontrivial=False)
    if full is not None:
        labels += full.labels

    # 2. the construction itself
    base_tokens = [S.cons] + list(S.args)
    try:
        base = build(base_tokens, 'b') if (mods or saves) else full
    except Rejected as e:
        base = None
        full_msg = str(e).splitlines()[0] if str(e) else ''
    if base is None:
        if J.status == 'gray':
            return rejected(['gray', 'gray-rejected'])
        sig = 'torus-side-1-refused' if (S.cons == 'torus' and 1 in J.P.get('dims', [])) else None
        raise Violation("{}: a request inside the documented range is refused: {!r}".format(
            _spec_text(gtype, base_tokens), full_msg), signature=sig)
    if base.desc is None:
        return Outcome(labels=labels + ['unobserved'], nontrivial=False)
    try:
        labels += M.check_base(gtype, S.cons, J.P, base.desc)
    except M.Mismatch as e:
        sig = 'regular-degrees' if S.cons == 'regular' else None
        raise Violation("{} (generator seeded with rseed): {}".format(_spec_text(gtype, base_tokens), e), signature=sig)
    if J.status == 'gray':
        labels += ['gray', 'gray-accepted']
    if S.cons == 'regular' and in_dense_regular_region(J.P['L'], J.P['R'], J.P['d']):
        labels.append('regular-dense-unbalanced')
        if 'regular:fallback-pick' in labels:
            labels.append('regular-dense-unbalanced:fallback-pick')

    # 3. modifiers: some order of application must explain what came out
    labels += _chain(gtype, what, base.desc, base_tokens, mods, full, full_msg, build)
    if 'rejected' in labels:
        return Outcome(labels=labels, nontrivial=False, rejected=True)
    nontrivial = S.cons in M.RANDOM_CONSTRUCTIONS or 'modifier-nonzero' in labels
    if any(m.endswith(':at-limit') for m in labels) or 'at-limit' in J.marks:
        labels.append('at-limit-accepted')
    return Outcome(labels=sorted(set(labels)), nontrivial=nontrivial)


def _chance_labels(case, out):
    if case.get('chance'):
        out.labels = tuple(out.labels) + ('scripted-chance',) + tuple(
            'scripted-chance/' + l for l in out.labels if l.startswith(('regular:', 'addedges:')) or '/' in l and l.split('/')[0] in M.TYPES)
    return out


def run_spec(case):
    if case.get('kind') == 'file':
        return run_file(case)
    if case.get('kind') == 'target':
        return run_target(case)
    gtype, tokens, rseed = case['gtype'], [str(t) for t in case['tokens']], case['rseed']
    out = judge(gtype, tokens, lib_builder(gtype, rseed, _tmpdir(), chance=case.get('chance')))
    return _chance_labels(case, out)


# ---------------------------------------------------------------------------
# graph arguments read from a file written by the harness
#
# case: {'kind': 'file', 'gtype', 'graph': description of the graph (vlib.rd_graphs), 'ifmt', 'style',
#        'name': name of the file, 'subdir': '' or a directory name, 'form': 'ext' (the file alone) | 'fmt'
#        (`<format> <file>`), 'opts': the options in the order written, e.g. [['addedges', '2'],
#        ['save', 'dot', 'g.graph']], 'rseed' [, 'cmd': sub-command and its arguments]}

def _input_text(case):
    gtype, ifmt, g, style = case['gtype'], case['ifmt'], case['graph'], case['style']
    if ifmt in R.INHOUSE[gtype]:
        text = R.write_inhouse(ifmt, gtype, g, style & 41)
        if R.ref_read(ifmt, gtype, text).status != 'valid':
            text = R.write_inhouse(ifmt, gtype, g, 0)
        if R.ref_read(ifmt, gtype, text).status != 'valid':
            raise ValueError("the harness wrote an input file that is not plainly valid: {!r}".format(text))
        return text
    if gtype == 'bipartite':
        N, off, side = g['L'] + g['R'], g['L'], [0] * g['L'] + [1] * g['R']
        order = list(range(N))          # the two ways to number the sides coincide
    else:
        N, off, side = g['n'], 0, None
        order = list(range(N))
        if style & 64:                  # node statements in another order: numbering follows the identifiers
            random.Random(style * 1000 + N).shuffle(order)
    doc = {'gtype': gtype, 'ids': list(range(1, N + 1)), 'order': order,
           'edges': [[u - 1, v + off - 1] for u, v in g['edges']], 'side': side,
           'style': style & (63 if ifmt == 'dot' else 31)}
    return R.write_doc(ifmt, doc)


def _name_classes(name):
    out = []
    if ' ' in name:
        out.append('blank')
    if "'" in name:
        out.append('single-quote')
    if '"' in name:
        out.append('double-quote')
    if not name.isascii():
        out.append('non-ascii')
    if name.startswith('.'):
        out.append('leading-dot')
    if name.count('.') >= 2:
        out.append('several-dots')
    if name.endswith('.'):
        out.append('trailing-dot')
    if any(ch in name for ch in '{}%#\\;,&$`'):
        out.append('punctuation')
    if '.' not in name:
        out.append('no-extension')
    return out or ['plain']


def run_file(case):
    import cnfgen.graphs
    gtype, ifmt, g, rseed = case['gtype'], case['ifmt'], case['graph'], case['rseed']
    if ifmt not in cnfgen.graphs.supported_graph_formats()[gtype]:
        return Outcome(labels=['dot-not-available'], nontrivial=False)
    if gtype == 'bipartite':
        D0 = M.Desc('bipartite', [tuple(e) for e in g['edges']], L=g['L'], R=g['R'])
    else:
        D0 = M.Desc(gtype, [tuple(e) for e in g['edges']], n=g['n'])
    text = _input_text(case)
    opts = [[str(t) for t in o] for o in case['opts']]
    mods = [(o[0], o[1:]) for o in opts if o[0] != 'save']
    saves = [o for o in opts if o[0] == 'save']
    labels = ['file', 'file/{}/{}'.format(gtype, ifmt), 'file-form:' + case['form']]
    labels += ['file-name:' + c for c in _name_classes(case['name'])]
    labels += ['opt-' + o[0] for o in opts]
    if case.get('subdir'):
        labels.append('file-in-subdirectory')
    if case['form'] == 'fmt' and M.save_format(gtype, None, case['name']) not in (None, ifmt):
        labels.append('file-extension-of-another-format')
    if saves:
        at = [i for i, o in enumerate(opts) if o[0] == 'save'][0]
        labels.append('save-form:' + ('fmt' if len(saves[0]) == 3 else 'ext'))
        labels.append('file-save/{}/{}'.format(gtype, M.save_format(gtype, saves[0][1] if len(saves[0]) == 3 else None, saves[0][-1])))
        if not mods:
            labels.append('save-without-modifier')
        else:
            labels.append('save-before-modifiers' if at == 0 else 'save-after-modifiers' if at == len(opts) - 1
                          else 'save-between-modifiers')
    if len(mods) >= 2 and [n for n, _ in mods] != [n for n in M.MODIFIERS[gtype] if n in [x for x, _ in mods]]:
        labels.append('options-reordered')

    top = tempfile.mkdtemp(prefix='file_', dir=_tmpdir())
    try:
        folder = os.path.join(top, case['subdir']) if case.get('subdir') else top
        os.makedirs(folder, exist_ok=True)
        path = os.path.join(folder, case['name'])
        with open(path, 'w', encoding='utf-8') as f:
            f.write(text)
        head = [path] if case['form'] == 'ext' else [ifmt, path]
        tokens = head + [t for o in opts for t in o]
        if 'cmd' in case:
            cmd = [str(t) for t in case['cmd']]
            build = cli_builder(cmd, gtype, rseed, top, reread=True)
            what = "cnfgen {} {}".format(' '.join(cmd), ' '.join(tokens))
            labels += ['cmd-' + cmd[0], 'file-via-command-line']
        else:
            build = lib_builder(gtype, rseed, top, reread=True)
            what = _spec_text(gtype, tokens)
        # 1. the file alone is the graph the harness wrote
        try:
            base = build(head, 'b')
        except Rejected as e:
            raise Violation("{}: a valid {} file of a {} graph ({!r}) is refused: {!r}".format(
                _spec_text(gtype, head), ifmt, gtype, text, str(e)[:300]))
        if not base.desc.same(D0):
            raise Violation("{}: the file {!r} holds {} but the graph argument gives {}".format(
                _spec_text(gtype, head), text, D0.show(), base.desc.show()))
        # 2. the whole argument; the files of `save` are compared with the graph in use inside build()
        full_msg = ''
        try:
            full = build(tokens, 'f')
        except Rejected as e:
            full = None
            full_msg = str(e).splitlines()[0] if str(e) else ''
        if full is not None:
            labels += full.labels
        # 3. the graph in use is the graph of the file plus what the modifiers do
        labels += _chain(gtype, what, D0, head, mods, full, full_msg, build)
    finally:
        shutil.rmtree(top, True)
    if 'rejected' in labels:
        return Outcome(labels=sorted(set(labels)), nontrivial=False, rejected=True)
    if 'modifier-nonzero' in labels and saves and mods and labels.count('save-after-modifiers') == 0:
        labels.append('save-not-last-with-effective-modifier')
    return Outcome(labels=sorted(set(labels)), nontrivial=len(D0.edges) >= 1 and D0.order() >= 3)


# ---------------------------------------------------------------------------
# the state of the `save` target before the command
#
# case: {'kind': 'target', 'gtype', 'oname': file name of the target, 'scenario': name, 'steps': [...] [, 'cmd']}
#   {'op': 'put', 'what': 'empty' | 'junk-ascii' | 'junk-utf8' | 'junk-bytes', 'size': bytes, 'fmt': flavour of the ascii lines}
#   {'op': 'put', 'what': 'graph', 'graph': description (vlib.rd_graphs), 'fmt', 'style', 'pad': comment lines put in front}
#         the harness writes the target
#   {'op': 'run', 'src': [construction and its arguments] | 'self' (the graph argument is the target file itself) |
#         {'graph', 'ifmt', 'name', 'style'} (another file, written by the harness), 'form': 'ext' | 'fmt',
#         'mods': [[name, number...], ...] in the documented order, 'ofmt', 'sform': 'ext' | 'fmt', 'rseed', 'via': 'lib' | 'cli'}
#         the tree runs `<graph argument> <modifiers> save [<ofmt>] <target>`; the oracle is applied after every run

_JUNK_LINES = {'kthlist': '7 : 8 9 0\n', 'dimacs': 'e 8 9\n', 'matrix': '1 0 1 1\n',
               'gml': '  edge [ source 1 target 2 ]\n]\n', 'dot': '1 -- 2;\n}\n'}
_PAD_LINE = {'kthlist': 'c padding line written by the harness\n', 'dimacs': 'c padding line written by the harness\n',
             'gml': '# padding line written by the harness\n', 'dot': '// padding line written by the harness\n'}


def _desc_of(gtype, g):
    if gtype == 'bipartite':
        return M.Desc('bipartite', [tuple(e) for e in g['edges']], L=g['L'], R=g['R'])
    return M.Desc(gtype, [tuple(e) for e in g['edges']], n=g['n'])


def _put_content(gtype, step):
    """(bytes the harness writes into the target, (Desc, format) when they are a graph file, short description)"""
    what = step['what']
    if what == 'graph':
        fmt = step['fmt']
        text = _input_text({'gtype': gtype, 'ifmt': fmt, 'graph': step['graph'], 'style': step.get('style', 0)})
        pad = step.get('pad', 0)
        if pad and fmt in _PAD_LINE:
            text = _PAD_LINE[fmt] * pad + text
        d = _desc_of(gtype, step['graph'])
        return text.encode('utf-8'), (d, fmt), "a {} file of {} written by the harness".format(fmt, d.show())
    if what == 'empty':
        return b'', None, 'an empty file'
    size = step['size']
    if what == 'junk-ascii':
        unit = _JUNK_LINES[step['fmt']].encode('ascii')
    elif what == 'junk-utf8':
        unit = 'граф №1 — ünï cödé γράφος\n'.encode('utf-8')
    else:
        unit = bytes(range(128, 256)) + b'\x00\xff\xfe\n'
    data = (unit * (size // len(unit) + 1))[:size]
    if what == 'junk-utf8':
        data = data.decode('utf-8', 'ignore').encode('utf-8')
    return data, None, '{} bytes of {}'.format(len(data), what)


def _after_document(fmt, text):
    """what follows the end of the first block of a gml / dot document; None when the block is never closed"""
    opener, closer = ('[', ']') if fmt == 'gml' else ('{', '}')
    depth, i, n, seen = 0, 0, len(text), False
    while i < n:
        ch = text[i]
        if ch == '"':
            i += 1
            while i < n and text[i] != '"':
                i += 2 if (fmt == 'dot' and text[i] == '\\') else 1
        elif ch == opener:
            depth += 1
            seen = True
        elif ch == closer:
            depth -= 1
            if seen and depth <= 0:
                return text[i + 1:]
        i += 1
    return None


def _write_bytes(path, data):
    with open(path, 'wb') as f:
        f.write(data)


def _read_bytes(path):
    try:
        with open(path, 'rb') as f:
            return f.read()
    except FileNotFoundError:
        return None


def _flat(opts):
    return [t for o in opts for t in o]


def _target_run(gtype, cmd, step, top, target, cur, note):
    """One `... save <target>` command. Returns (labels, (Desc, format) now in the target or None when the request
    was refused, text describing the command)."""
    import cnfgen.clitools.msg as msg
    from cnfgen.clitools.graph_args import make_graph_from_spec
    from cnfgen.clitools.cmdline import CLIError
    rseed, ofmt, src = step['rseed'], step['ofmt'], step['src']
    via = step.get('via', 'cli' if cmd else 'lib')
    oname = os.path.basename(target)
    labels = []
    D0 = J = None
    if src == 'self':
        if cur is None:
            raise RuntimeError("harness: the target holds no graph that could be the graph argument")
        D0, ifmt = cur
        by_ext = step.get('form') == 'ext' and M.save_format(gtype, None, oname) == ifmt
        head = [target] if by_ext else [ifmt, target]
        labels += ['target-is-input', 'target-is-input/{}->{}'.format(ifmt, ofmt),
                   'target-is-input:' + ('same-format' if ifmt == ofmt else 'other-format')]
    elif isinstance(src, dict):
        D0, ifmt = _desc_of(gtype, src['graph']), src['ifmt']
        ipath = os.path.join(top, src['name'])
        if os.path.abspath(ipath) == os.path.abspath(target):
            raise RuntimeError("harness: input file and target coincide, use src='self'")
        with open(ipath, 'w', encoding='utf-8') as f:
            f.write(_input_text({'gtype': gtype, 'ifmt': ifmt, 'graph': src['graph'], 'style': src.get('style', 0)}))
        by_ext = step.get('form') == 'ext' and M.save_format(gtype, None, src['name']) == ifmt
        head = [ipath] if by_ext else [ifmt, ipath]
        labels.append('target-with-input-file')
    else:
        head = [str(t) for t in src]
        J = M.judge_base(gtype, head[0], head[1:])
        if J.status != 'valid':
            raise RuntimeError("harness: the construction {} of a target case is not plainly valid".format(head))
    mods = [[str(t) for t in m] for m in step.get('mods', [])]
    by_ext_save = step.get('sform') == 'ext' and M.save_format(gtype, None, oname) == ofmt
    save = ['save', target] if by_ext_save else ['save', ofmt, target]
    labels.append('target-save-form:' + ('ext' if by_ext_save else 'fmt'))

    def shown(tokens):
        return ' '.join(t[len(top) + 1:] if t.startswith(top + os.sep) else t for t in tokens)
    line = shown(head + _flat(mods) + save)
    line = "cnfgen {} {}".format(' '.join(cmd), line) if via == 'cli' else "[{}] {}".format(gtype, line)
    what = "{} (target before the command: {}; generator seeded with {})".format(line, note, rseed)

    def lib(tokens):
        random.seed(rseed)
        msg._prefix = ''
        try:
            return make_graph_from_spec(gtype, list(tokens))
        except ValueError as e:
            raise Rejected(str(e))
        except Exception as e:      # noqa
            if exception_in_tree(e):
                raise _internal(e, what)
            raise
        finally:
            msg._prefix = ''

    def plain(tokens):
        try:
            return M.describe(lib(tokens), gtype)
        except Rejected as e:
            raise Violation("{}: `{}` is a legal request but it is refused: {!r}".format(what, shown(tokens), str(e)[:300]))
        except M.Mismatch as e:
            raise Violation("{}: `{}`: {}".format(what, shown(tokens), e))

    before = _read_bytes(target)
    # 1. the graph the command has to use, step by step, without `save` and under the same seed
    prev = plain(head)
    if D0 is None:
        try:
            M.check_base(gtype, head[0], J.P, prev)
        except M.Mismatch as e:
            raise Violation("{}: {}".format(what, e))
    elif not prev.same(D0):
        raise Violation("{}: the file given as graph argument holds {} but the graph argument gives {}".format(
            what, D0.show(), prev.show()))
    refuse = None
    for j, m in enumerate(mods):
        status, vals, _ = M.step_validity(m[0], m[1:], prev)
        if status != 'valid':
            refuse = (status, "`{}` on {}".format(' '.join(m), prev.show()))
            break
        nxt = plain(head + _flat(mods[:j + 1]))
        try:
            M.check_step(m[0], vals, prev, nxt)
        except M.Mismatch as e:
            raise Violation("{}: {}".format(what, e))
        prev = nxt
    # 2. the command itself
    G = F = None
    try:
        if via == 'cli':
            random.seed(rseed)
            try:
                F = cli.build('cnfgen', list(cmd) + head + _flat(mods) + save)
            except CLIError as e:
                raise Rejected(str(e))
            except SystemExit as e:
                raise Violation("{}: the command line interface exits ({}) instead of raising its error".format(what, e.code))
            except Exception as e:      # noqa
                if exception_in_tree(e):
                    raise _internal(e, what)
                raise
        else:
            G = lib(head + _flat(mods) + save)
    except Rejected as e:
        if refuse is None:
            raise Violation("{}: every part of the request is legal but it is refused: {!r}".format(what, str(e)[:300]))
        return labels + ['target:request-refused'], None, line
    if refuse is not None:
        if refuse[0] == 'invalid':
            raise Violation("{}: accepted although {} cannot be done".format(what, refuse[1]))
        return labels + ['gray', 'gray-accepted'], None, line
    # 3. the target holds exactly the graph in use, whatever it held before
    after = _read_bytes(target)
    if after is None:
        raise Violation("{}: `save` did not write the file".format(what))
    if before is None:
        state = 'absent'
    elif not before:
        state = 'empty'
    else:
        state = 'longer' if len(before) > len(after) else 'shorter' if len(before) < len(after) else 'equal'
    labels += ['target:' + state, 'target:{}/{}/{}'.format(state, gtype, ofmt)]
    if src == 'self':
        labels.append('target-is-input:' + state)
    sizes = "{} bytes before, {} bytes after".format('no file' if before is None else len(before), len(after))
    try:
        text = after.decode('utf-8')
    except UnicodeDecodeError as e:
        raise Violation("{}: the saved {} file is not UTF-8 text ({}): {} -- end of the file: {!r}".format(
            what, ofmt, sizes, e, after[-120:]))
    fd, how = _parse_saved(ofmt, gtype, text, "{} [{}]".format(what, sizes))
    if ofmt in ('gml', 'dot'):
        rest = _after_document(ofmt, text)
        if rest is None or rest.strip():
            raise Violation("{}: the saved {} file ({}) has text after the end of the graph: {!r}".format(
                what, ofmt, sizes, (rest if rest is not None else text)[:200]))
    if G is not None:
        try:
            d = M.describe(G, gtype)
        except M.Mismatch as e:
            raise Violation("{}: {}".format(what, e))
        if not d.same(prev):
            raise Violation("{}: with `save` the graph returned is {}, without it (same seed) {}".format(what, d.show(), prev.show()))
    if not fd.same(prev):
        raise Violation("{}: the {} file written by `save` ({}) holds {} but the graph in use is {}".format(
            what, ofmt, sizes, fd.show(), prev.show()))
    if F is not None:
        _same_formula(F, _library_formula(cmd, gtype, fd), what, fd)
        labels.append('target-formula-checked')
    # 4. ... and nothing else: byte for byte what the same request stores in a file that does not exist yet
    ref = os.path.join(top, 'fresh_' + oname)
    if os.path.lexists(ref):
        raise RuntimeError("harness: scratch name in use")
    if src == 'self':
        _write_bytes(target, before)
    try:
        lib(head + _flat(mods) + ['save', ofmt, ref])
        fresh = _read_bytes(ref)
    except Rejected as e:
        raise Violation("{}: the same request with a new file name is refused: {!r}".format(what, str(e)[:300]))
    finally:
        _cleanup([ref])
        if src == 'self':
            _write_bytes(target, after)
    if fresh != after:
        k = 0
        while k < min(len(fresh or b''), len(after)) and fresh[k] == after[k]:
            k += 1
        raise Violation("{}: the target ({}) is not what the same request stores in a file that did not exist ({} bytes): "
                        "they agree on the first {} bytes, then the target has {!r}, the new file {!r}".format(
                            what, sizes, len(fresh or b''), k, after[k:k + 120], (fresh or b'')[k:k + 120]))
    labels.append('reader-' + how)
    if ofmt != 'dot' or rseed % 4 == 0:
        labels += _reread(ofmt, gtype, target, what, fd, rseed)
    return labels, (fd, ofmt), line


def run_target(case):
    import cnfgen.graphs
    gtype = case['gtype']
    cmd = [str(t) for t in case['cmd']] if 'cmd' in case else None
    allowed = cnfgen.graphs.supported_graph_formats()[gtype]
    for step in case['steps']:
        fmts = [step.get('fmt') if step.get('what') in ('graph',) else None, step.get('ofmt'),
                step['src'].get('ifmt') if isinstance(step.get('src'), dict) else None]
        if any(f is not None and f not in allowed for f in fmts):
            return Outcome(labels=['dot-not-available'], nontrivial=False)
    labels = ['target', 'target-scenario:' + case.get('scenario', '?')]
    if cmd:
        labels += ['cmd-' + cmd[0], 'target-via-command-line']
    top = tempfile.mkdtemp(prefix='tgt_', dir=_tmpdir())
    nontrivial = rejected = False
    try:
        target = os.path.join(top, case['oname'])
        cur, note, lines, old = None, 'no such file', [], 'absent'
        for step in case['steps']:
            if step['op'] == 'put':
                data, cur, note = _put_content(gtype, step)
                _write_bytes(target, data)
                old = step['what'] if step['what'] != 'graph' else 'graph-by-harness'
                labels.append('target-old:' + old)
                note = "{} bytes, {}".format(len(data), note) if step['what'] == 'graph' else note
                continue
            lab, now, line = _target_run(gtype, cmd, step, top, target, cur, note)
            labels += lab
            if now is None:
                rejected = 'target:request-refused' in lab
                break
            if line in lines:
                labels.append('target-same-command-again')
            if lines:
                old = 'earlier-run-other-format' if (cur is not None and cur[1] != now[1]) else 'earlier-run'
                labels.append('target-old:' + old)
            for l in ('target:longer', 'target:shorter', 'target:equal'):
                if l in lab:
                    nontrivial = True
                    labels.append('{}<-{}'.format(l, old))
            lines.append(line)
            cur = now
            note = "{} bytes left by `{}`".format(len(_read_bytes(target) or b''), line)
    finally:
        shutil.rmtree(top, True)
    return Outcome(labels=sorted(set(labels)), nontrivial=nontrivial, rejected=rejected)


def run_cli(case):
    if case.get('kind') == 'file':
        return run_file(case)
    if case.get('kind') == 'target':
        return run_target(case)
    gtype, tokens, rseed = case['gtype'], [str(t) for t in case['tokens']], case['rseed']
    cmd = [str(t) for t in case['cmd']]
    out = judge(gtype, tokens, cli_builder(cmd, gtype, rseed, _tmpdir(), chance=case.get('chance')))
    out.labels = tuple(out.labels) + ('cmd-' + cmd[0],)
    return _chance_labels(case, out)


# ---------------------------------------------------------------------------
# generators

class Stream(object):
    """Harness choices: a private generator seeded by an integer drawn by Hypothesis (the global
    generator is never used for them).
    budget: how many deliberate faults (values outside a range, wrong arity, foreign names)
    the case may still contain."""

    def __init__(self, key):
        self.rnd = random.Random(key)
        self.budget = 0

    def below(self, k):
        return self.rnd.randrange(k)

    def pick(self, seq):
        return seq[self.below(len(seq))]

    def chance(self, percent):
        return self.below(100) >= 100 - percent

    def fault(self, percent):
        """a deliberate fault, with the given probability, when the budget allows one"""
        if self.below(100) >= 100 - percent and self.budget > 0:
            self.budget -= 1
            return True
        return False


ODD_INT = ['+{}', '0{}', '{}.0', '{}e0']
P_IN = ['0.5', '0', '1', '.3', '0.9', '1.0', '0.0', '1e-1']
P_OUT = ['-0.1', '1.1', '2', 'nan', 'inf', '-0', '-1', '1.0000001']


def _size(s, hi=6, plain_hi=4):
    """a vertex-count parameter (legal range 1..): mostly small legal values"""
    if s.fault(12):
        return s.pick(['0', '0', '-1', '0.5']) if s.chance(75) else s.pick(ODD_INT).format(1 + s.below(3))
    r = s.below(100)
    if r < 70:
        return str(1 + s.below(plain_hi))
    if r < 90:
        return str(1 + s.below(hi))
    return '1'


def _bounded(s, lo, hi, extra=()):
    """an integer parameter with legal range lo..hi"""
    hi = max(hi, lo)
    if s.fault(25):
        r = s.below(100)
        if r < 35:
            return str(hi + 1)
        if r < 60:
            return str(lo - 1)
        if r < 72:
            return str(hi + 2 + s.below(40))
        if r < 80:
            return s.pick(['0.5', 'nan', '1.5', '-2'])
        if r < 90 and extra:
            return str(s.pick(list(extra)))
        return s.pick(ODD_INT).format(lo + s.below(hi - lo + 1))
    r = s.below(100)
    if r < 50:
        return str(lo + s.below(hi - lo + 1))
    if r < 70:
        return str(hi)
    if r < 82:
        return str(lo)
    if r < 92:
        return str(max(lo, hi - 1))
    if extra:
        return str(s.pick(list(extra)))
    return str(min(hi, lo + 1))


def _intval(tok, default):
    x = M.int_arg(tok)
    return x.value if x.value is not None else default


def _prob(s):
    return s.pick(P_OUT) if s.fault(15) else s.pick(P_IN)


def gen_base(s, gtype):
    """(tokens, predicted order (or sides), predicted number of edges or None)"""
    cons = s.pick(M.CONSTRUCTIONS[gtype])
    n = edges = None
    if gtype == 'simple':
        if cons == 'gnp':
            if s.chance(35):
                N, t = _size(s, 3, 3), _bounded(s, 1, 3)
                toks = [cons, N, _prob(s), t]
                n = max(1, _intval(N, 1)) * max(1, _intval(t, 1))
            else:
                N = _size(s, 8, 5)
                toks = [cons, N, _prob(s)]
                n = _intval(N, 1)
        elif cons == 'gnm':
            N = _size(s, 8, 5)
            n = max(1, _intval(N, 1))
            m = _bounded(s, 0, n * (n - 1) // 2)
            toks = [cons, N, m]
            edges = _intval(m, 0)
        elif cons == 'gnd':
            N = _size(s, 8, 6)
            n = max(1, _intval(N, 1))
            toks = [cons, N, _bounded(s, 1, n - 1, extra=(n, n + 1, 0))]
            edges = n * _intval(toks[2], 0) // 2
        elif cons in ('grid', 'torus'):
            k = 0 if s.fault(3) else 1 + s.below(3)
            dims, prod = [], 1
            for _ in range(k):
                d = s.pick(['0', '-1', '2.0', '0']) if s.fault(12) else s.pick(['2', '3', '1', '4', '2', '3', '1'])
                v = max(1, _intval(d, 1))
                if prod * v > 16:
                    d, v = '1', 1
                prod *= v
                dims.append(d)
            toks = [cons] + dims
            n = prod
        elif cons == 'complete':
            if s.chance(40):
                N, B = _size(s, 3, 3), _bounded(s, 1, 3)
                toks = [cons, N, B]
                n = max(1, _intval(N, 1)) * max(1, _intval(B, 1))
            else:
                N = _size(s, 8, 5)
                toks = [cons, N]
                n = max(1, _intval(N, 1))
                edges = n * (n - 1) // 2
        else:
            N = _size(s, 8, 5)
            toks = [cons, N]
            n = max(1, _intval(N, 1))
            edges = 0
        shape = n
    elif gtype == 'bipartite':
        L, Rr = _size(s, 8, 4), _size(s, 8, 4)
        l, r = max(1, _intval(L, 1)), max(1, _intval(Rr, 1))
        shape = (l, r)
        if cons == 'glrp':
            toks = [cons, L, Rr, _prob(s)]
        elif cons == 'glrm':
            m = _bounded(s, 0, l * r, extra=(l * r // 3, l * r // 3 + 1))
            toks = [cons, L, Rr, m]
            edges = _intval(m, 0)
        elif cons == 'glrd':
            toks = [cons, L, Rr, _bounded(s, 0, r)]
            edges = l * _intval(toks[3], 0)
        elif cons == 'regular' and s.chance(20):
            # the dense, unbalanced region (see in_dense_regular_region): R 2..5, d = R-1 or R, L a multiple of R in 6R..66
            r = 2 + s.below(4)
            dd = r if (r == 2 or s.chance(15)) else r - 1
            l = r * (6 + s.below(max(1, 66 // r - 5)))
            L, Rr, shape = str(l), str(r), (l, r)
            toks = [cons, L, Rr, str(dd)]
            edges = l * dd
        elif cons == 'regular':
            good = [d for d in range(0, r + 1) if (l * d) % r == 0]
            d = str(s.pick(good)) if s.chance(65) else _bounded(s, 0, r)
            toks = [cons, L, Rr, d]
            edges = l * _intval(d, 0)
        elif cons == 'shift':
            k = s.below(4)
            pat = []
            for _ in range(k):
                pat.append(_bounded(s, 0, r))
            if len(set(pat)) != len(pat) and not s.fault(50):
                pat = sorted(set(pat))
            toks = [cons, L, Rr] + pat
        else:
            toks = [cons, L, Rr]
            edges = l * r if cons == 'complete' else 0
    else:
        hi = {'path': 8, 'tree': 3, 'pyramid': 4}[cons]
        if s.fault(20):
            a = s.pick(['-1', '-1', '1.0', '+1', '01', '0.5', 'nan', '1e0'])
        elif s.chance(15):
            a = '0'
        else:
            a = str(s.below(hi + 1))
        toks = [cons, a]
        shape = None
    if s.fault(5):            # wrong number of arguments
        if s.chance(50) and len(toks) > 1:
            toks = toks[:-1]
        else:
            toks = toks + ['1']
    if s.fault(4):            # construction of another kind of graph
        other = [c for t in M.TYPES for c in M.CONSTRUCTIONS[t] if c not in M.CONSTRUCTIONS[gtype]]
        toks = [s.pick(other)] + toks[1:]
    return toks, shape, edges


EXT = {'kthlist': 'kthlist', 'gml': 'gml', 'dot': 'dot', 'dimacs': 'dimacs', 'matrix': 'matrix'}


def gen_options(s, gtype, shape, edges, want_save=None):
    opts = []
    for name in M.MODIFIERS[gtype]:
        if not s.chance(45):
            continue
        if name == 'plantclique':
            nums = [_bounded(s, 0, shape)]
        elif name == 'plantbiclique':
            nums = [_bounded(s, 0, shape[0]), _bounded(s, 0, shape[1])]
        elif name == 'addedges':
            total = shape[0] * shape[1] if gtype == 'bipartite' else shape * (shape - 1) // 2
            if edges is not None and s.chance(60):
                nums = [_bounded(s, 0, max(0, total - edges))]
            else:
                nums = [_bounded(s, 0, 3, extra=(total,))]
        else:
            if edges is not None and s.chance(60):
                nums = [_bounded(s, 0, edges)]
            else:
                nums = [_bounded(s, 0, 3)]
        if s.fault(4):
            nums = nums[:-1] if s.chance(50) else nums + ['1']
        opts.append([name] + nums)
    save = s.chance(35) if want_save is None else want_save
    if save:
        fmt = s.pick(M.FORMATS[gtype])
        if s.fault(12):
            r = s.below(100)
            if r < 45:
                o = ['save', 'g.' + s.pick(['txt', 'cnf', 'matrix' if gtype != 'bipartite' else 'dimacs'])]
            elif r < 70:
                o = ['save', s.pick([f for f in M.ALL_FORMATS if f not in M.FORMATS[gtype]]), 'g.gml']
            elif r < 85:
                o = ['save']
            else:
                o = ['save', fmt]
        elif s.chance(55):
            o = ['save', fmt, 'g.' + s.pick(['graph', fmt, 'txt'])]
        else:
            o = ['save', 'g.' + fmt]
        opts.append(o)
    if s.fault(4):
        foreign = [n for n in M.ALL_OPTION_NAMES if n != 'save' and n not in M.MODIFIERS[gtype]]
        opts.append([s.pick(foreign), '1'])
    if opts and s.fault(3):
        opts.append(list(opts[0]))
    # any order; an incomplete `save` only makes sense at the end
    order = list(range(len(opts)))
    for i in range(len(order) - 1, 0, -1):
        j = s.below(i + 1)
        order[i], order[j] = order[j], order[i]
    opts = [opts[i] for i in order]
    tail = [o for o in opts if o[0] == 'save' and len(o) < 3 and (len(o) == 1 or o[1] in M.FORMATS[gtype])]
    opts = [o for o in opts if o not in tail] + tail[:1]
    return [t for o in opts for t in o]


INTS = st.integers(0, 2 ** 62)
SEEDS = st.integers(0, 2 ** 32 - 1)
BUDGETS = [0] * 10 + [1] * 7 + [2, 2, 9]
TYPE_WEIGHTS = ['simple'] * 5 + ['bipartite'] * 5 + ['dag', 'digraph']


def _decode_spec(pair):
    ints, rseed = pair
    s = Stream(ints)
    if s.below(12) == 0:
        return _decode_target(s, 'spec')
    s.budget = s.pick(BUDGETS)
    gtype = s.pick(TYPE_WEIGHTS)
    toks, shape, edges = gen_base(s, gtype)
    if gtype in ('dag', 'digraph'):
        toks = toks + gen_options(s, gtype, shape, edges, want_save=s.chance(70))
    else:
        toks = toks + gen_options(s, gtype, shape, edges)
    case = {'gtype': gtype, 'tokens': toks, 'rseed': rseed}
    if s.below(8) == 0:
        case['chance'] = _chance_of(s.below(10 ** 6))
    return case


STRAT_SPEC = st.tuples(INTS, SEEDS).map(_decode_spec)


def strat_spec():
    return STRAT_SPEC


CMDS = {
    'simple': [['kcolor', '2'], ['kcolor', '3'], ['domset', '2'], ['kcolor', '1']],
    'bipartite': [['php'], ['php', '--functional'], ['php', '--onto'], ['php', '--functional', '--onto']],
    'dag': [['peb']],
}


def _decode_cli(pair):
    ints, rseed = pair
    s = Stream(ints)
    if s.below(8) == 0:
        return _decode_target(s, 'cli')
    s.budget = s.pick(BUDGETS)
    gtype = s.pick(['simple', 'simple', 'bipartite', 'bipartite', 'dag'])
    cmd = s.pick(CMDS[gtype])
    toks, shape, edges = gen_base(s, gtype)
    toks = toks + gen_options(s, gtype, shape, edges, want_save=s.chance(60))
    case = {'gtype': gtype, 'tokens': toks, 'rseed': rseed, 'cmd': cmd}
    if s.below(8) == 0:
        case['chance'] = _chance_of(s.below(10 ** 6))
    return case


STRAT_CLI = st.tuples(INTS, SEEDS).map(_decode_cli)


def strat_cli():
    return STRAT_CLI


# ---- complete boundary grids of the constructions (no options), a few seeds each

def _around(lo, hi):
    return sorted(set([lo - 1, lo, lo + 1, (lo + hi) // 2, hi - 1, hi, hi + 1]))


def boundary_specs():
    sizes = [0, 1, 2, 3, 4]
    for N in sizes + [5, 6]:
        for p in ['0', '1', '0.5', '-0.1', '1.1']:
            yield 'simple', ['gnp', N, p]
        total = N * (N - 1) // 2
        for m in _around(0, max(total, 0)):
            yield 'simple', ['gnm', N, m]
        for d in range(-1, N + 2):
            yield 'simple', ['gnd', N, d]
        yield 'simple', ['complete', N]
        yield 'simple', ['empty', N]
    for N in [0, 1, 2, 3]:
        for t in [0, 1, 2, 3]:
            for p in ['0', '1', '0.5']:
                yield 'simple', ['gnp', N, p, t]
            yield 'simple', ['complete', N, t]
    dims = [0, 1, 2, 3, 4]
    for cons in ('grid', 'torus'):
        yield 'simple', [cons]
        for a in dims:
            yield 'simple', [cons, a]
            for b in dims:
                yield 'simple', [cons, a, b]
                for c in [1, 2, 3]:
                    if max(a, 1) * max(b, 1) * c <= 18:
                        yield 'simple', [cons, a, b, c]
    for L in sizes:
        for Rr in sizes:
            for p in ['0', '1', '0.5', '1.5']:
                yield 'bipartite', ['glrp', L, Rr, p]
            for m in sorted(set(_around(0, L * Rr) + [L * Rr // 3, L * Rr // 3 + 1])):
                yield 'bipartite', ['glrm', L, Rr, m]
            for d in range(-1, Rr + 2):
                yield 'bipartite', ['glrd', L, Rr, d]
                yield 'bipartite', ['regular', L, Rr, d]
            yield 'bipartite', ['complete', L, Rr]
            yield 'bipartite', ['empty', L, Rr]
            yield 'bipartite', ['shift', L, Rr]
            for a in range(-1, Rr + 2):
                yield 'bipartite', ['shift', L, Rr, a]
                for b in range(a, Rr + 2):
                    yield 'bipartite', ['shift', L, Rr, a, b]
    for L, Rr in [(6, 4), (8, 8), (6, 3), (8, 2), (2, 8), (7, 5)]:
        for m in sorted(set(_around(0, L * Rr) + [L * Rr // 3, L * Rr // 3 + 1])):
            yield 'bipartite', ['glrm', L, Rr, m]
        for d in range(0, Rr + 1):
            yield 'bipartite', ['regular', L, Rr, d]
            yield 'bipartite', ['glrd', L, Rr, d]
    # numbers that are not integers where a count is due, and probabilities that are not numbers: to be refused, not rounded
    for x in ['2.5', '0.5', '25e-1', '-0.5', '6.5', '1.999999', 'nan', 'inf', '-inf', '1e400']:
        for N in (4, 6):
            yield 'simple', ['gnm', N, x]
            yield 'simple', ['gnd', N, x]
            yield 'simple', ['gnp', N, x] if x in ('nan', 'inf', '-inf', '1e400') else ['gnp', x, '0.5']
        yield 'simple', ['complete', x]
        yield 'simple', ['grid', 2, x]
        yield 'bipartite', ['glrm', 3, 3, x]
        yield 'bipartite', ['glrd', 3, 3, x]
        yield 'bipartite', ['regular', 4, 4, x]
        yield 'bipartite', ['glrp', 3, 3, x] if x in ('nan', 'inf', '-inf', '1e400') else ['glrp', 3, x, '0.5']
        yield 'bipartite', ['complete', x, 3]
        yield 'bipartite', ['shift', 3, 3, x]
    for gtype in ('dag', 'digraph'):
        for x in ['2.5', '0.5', 'nan', 'inf']:
            yield gtype, ['path', x]
            yield gtype, ['tree', x]
            yield gtype, ['pyramid', x]
        for a in range(-1, 9):
            yield gtype, ['path', a]
        for a in range(-1, 4):
            yield gtype, ['tree', a]
        for a in range(-1, 5):
            yield gtype, ['pyramid', a]
        for cons in ('path', 'tree', 'pyramid'):
            yield gtype, [cons]
            yield gtype, [cons, 1, 1]


def enum_boundary(tier):
    nseeds = 2 if tier == 'quick' else 40
    rnd = random.Random(15)
    for gtype, toks in boundary_specs():
        toks = [str(t) for t in toks]
        det = toks[0] not in M.RANDOM_CONSTRUCTIONS
        for _ in range(1 if det else nseeds):
            yield {'gtype': gtype, 'tokens': toks, 'rseed': rnd.randrange(2 ** 32)}


# ---- seed sweeps of the samplers that retry (a rare random outcome must not break the promise)

SWEEPS = [
    ('bipartite', 'regular 4 2 2', 12000, 180000),
    ('bipartite', 'regular 6 3 2', 6000, 120000),
    ('bipartite', 'regular 6 4 2', 3000, 90000),
    ('bipartite', 'regular 3 3 2', 1500, 60000),
    ('bipartite', 'regular 4 4 3', 1500, 60000),
    ('bipartite', 'regular 5 5 4', 800, 30000),
    ('bipartite', 'glrm 3 3 3', 800, 24000),
    ('bipartite', 'glrm 3 3 4', 800, 24000),
    ('bipartite', 'glrm 4 5 6', 500, 15000),
    ('bipartite', 'glrm 1 1 1', 100, 1500),
    ('bipartite', 'empty 3 3 addedges 9', 800, 24000),
    ('bipartite', 'glrm 3 3 5 addedges 4', 800, 24000),
    ('bipartite', 'glrd 4 3 2 plantbiclique 2 2 addedges 2', 500, 15000),
    ('simple', 'empty 4 addedges 6', 800, 24000),
    ('simple', 'gnm 5 8 addedges 2', 800, 24000),
    ('simple', 'gnd 6 3', 500, 15000),
    ('simple', 'gnd 5 4', 200, 6000),
    ('simple', 'gnd 8 5 plantclique 4', 300, 9000),
    ('simple', 'gnm 5 4 splitedges 4 addedges 3 plantclique 3', 800, 24000),
    ('simple', 'gnp 2 .5 3 plantclique 3 splitedges 2', 500, 15000),
    # the last missing edges of an almost complete graph: the 10*m draws of addedges fall short, the missing edges are listed
    ('simple', 'gnm 6 14 addedges 1', 300, 9000),
    ('simple', 'gnm 7 19 addedges 2', 300, 9000),
    ('bipartite', 'glrm 4 4 15 addedges 1', 300, 9000),
    ('bipartite', 'glrd 5 4 3 addedges 5', 300, 9000),
    ('bipartite', 'regular 6 3 2 addedges 6', 300, 9000),
]

# `regular L R d` in its dense, unbalanced region (in_dense_regular_region): (L, R, d, seeds quick, seeds thorough).
# Survey on an instrumented scratch copy of the unchanged tree (share of the runs in which the 3*d*d retries for one
# edge run out while a free pair of stubs exists, so that the pair is picked from the list of the free ones):
#   30 2 2: 0.4%   48 3 2: 1%   96 3 2: 1.8%   32 4 3: 1%   64 4 3: 3.5%   96 4 3: 6%   128 4 3: 10%   50 5 4: 3%
#   65 5 4: 5%   48 6 5: 2.5%   14 4 2, 20 4 3, 20 5 4, 30 5 3: 0.03..0.7%;  about 1 in 10^5 on balanced or sparse
#   parameters (6 3 2, 4 4 3, 8 8 3, 20 8 2: none in 3000 runs).  The restart of the whole construction (no free pair
#   left) is frequent everywhere (0.2 .. 5 per run for d >= 2).
DENSE_REGULAR = [
    (30, 2, 2, 1500, 24000), (40, 2, 2, 800, 12000), (33, 3, 2, 800, 12000), (48, 3, 2, 1000, 15000), (96, 3, 2, 300, 4500),
    (32, 4, 3, 300, 4500), (64, 4, 3, 400, 6000), (96, 4, 3, 150, 2400), (128, 4, 3, 60, 900), (50, 5, 4, 100, 1500),
    (65, 5, 4, 60, 900), (48, 6, 5, 30, 450), (30, 5, 3, 300, 4500), (14, 4, 2, 2000, 30000), (20, 4, 3, 500, 7500),
    (20, 5, 4, 300, 4500), (18, 3, 3, 200, 3000), (24, 4, 4, 100, 1500),
]
DENSE_REGULAR_TAILS = [[], [], ['save', 'g.matrix'], [], [], ['addedges', '3'], [], ['save', 'kthlist', 'g.graph'], [], [],
                       ['plantbiclique', '2', '2', 'save', 'g.matrix'], [], ['addedges', '2', 'save', 'g.kthlist']]
DENSE_REGULAR_CLI = [(30, 2, 2, 60, 1500), (48, 3, 2, 60, 1500), (64, 4, 3, 60, 1500), (96, 4, 3, 60, 1200), (128, 4, 3, 40, 600),
                     (50, 5, 4, 30, 600), (14, 4, 2, 60, 3000)]
DENSE_REGULAR_CLI_TAILS = [[], [], ['save', 'B.matrix'], [], ['save', 'kthlist', 'B.graph'], [], ['addedges', '2']]


def enum_sweep(tier):
    for gtype, text, nq, nt in SWEEPS:
        toks = text.split()
        for seed in range(nq if tier == 'quick' else nt):
            yield {'gtype': gtype, 'tokens': toks, 'rseed': seed}
    for L, Rr, d, nq, nt in DENSE_REGULAR:
        for seed in range(nq if tier == 'quick' else nt):
            yield {'gtype': 'bipartite', 'rseed': seed,
                   'tokens': ['regular', str(L), str(Rr), str(d)] + DENSE_REGULAR_TAILS[seed % len(DENSE_REGULAR_TAILS)]}
    for case in scripted_cases(tier):
        yield case


# ---- the random choices as an input (ScriptedChance): the fall-back branches at ordinary, small parameters

CHANCE_PERCENTS = [2, 5, 10, 25]
CHANCE_LENGTHS = [[13], [30], [13, 60], [200], [5, 28, 110], [60]]
SCRIPTED_SPECS = [
    ('bipartite', 'glrm 4 4 5'), ('bipartite', 'glrm 4 4 6'), ('bipartite', 'glrm 3 3 3'), ('bipartite', 'glrm 3 3 4'),
    ('bipartite', 'glrm 5 3 15'), ('bipartite', 'glrm 2 6 4'), ('bipartite', 'glrd 5 4 2 addedges 6'),
    ('bipartite', 'glrd 4 6 6'), ('bipartite', 'glrd 6 3 1 addedges 12'), ('bipartite', 'empty 4 4 addedges 7'),
    ('bipartite', 'empty 3 3 addedges 9'), ('bipartite', 'complete 3 4 addedges 0'), ('bipartite', 'glrp 4 4 .5 addedges 3'),
    ('bipartite', 'glrd 4 4 2 plantbiclique 2 2 addedges 3'), ('bipartite', 'regular 6 3 2 addedges 6'),
    ('bipartite', 'regular 8 4 2 plantbiclique 2 2 save g.matrix'), ('bipartite', 'regular 12 6 3 addedges 4 save kthlist g.graph'),
    ('bipartite', 'glrm 4 5 6 addedges 14 save g.kthlist'),
    ('simple', 'gnm 6 5 addedges 5'), ('simple', 'empty 5 addedges 10'), ('simple', 'empty 4 addedges 6'),
    ('simple', 'gnm 6 7 plantclique 3 addedges 2 splitedges 2'), ('simple', 'gnm 5 4 splitedges 4 addedges 3 plantclique 3'),
    ('simple', 'gnd 6 3 addedges 4 save g.gml'), ('simple', 'gnp 5 .5 addedges 2 splitedges 1'), ('simple', 'complete 4 splitedges 6'),
]
SCRIPTED_CLI_SPECS = ['regular 6 3 2', 'regular 8 4 2 save B.matrix', 'regular 14 4 2 save B.matrix', 'regular 9 6 2', 'regular 8 8 3 save kthlist B.graph',
                      'regular 10 5 3 addedges 4', 'regular 12 4 1', 'regular 4 4 4', 'glrm 4 4 5 addedges 5', 'glrd 5 4 2 addedges 6 save B.matrix',
                      'empty 3 3 addedges 9', 'glrd 4 4 2 plantbiclique 2 2 addedges 3']


def scripted_regular_points():
    """every `regular L R d` with R 1..8, d 1..R, L in 1..16 such that R divides L*d and L*d <= 60"""
    for Rr in range(1, 9):
        for d in range(1, Rr + 1):
            for L in range(1, 17):
                if (L * d) % Rr == 0 and L * d <= 60:
                    yield L, Rr, d


def _chance_of(j):
    return [1 + 7 * j, CHANCE_PERCENTS[j % len(CHANCE_PERCENTS)], CHANCE_LENGTHS[(j // 2) % len(CHANCE_LENGTHS)]]


def scripted_cases(tier):
    reps, nspec = (10, 150) if tier == 'quick' else (150, 3000)
    j = 0
    for L, Rr, d in scripted_regular_points():
        for _ in range(reps):
            j += 1
            yield {'gtype': 'bipartite', 'rseed': j, 'chance': _chance_of(j),
                   'tokens': ['regular', str(L), str(Rr), str(d)] + (['save', 'g.matrix'] if j % 11 == 0 else [])}
    for gtype, text in SCRIPTED_SPECS:
        for _ in range(nspec):
            j += 1
            yield {'gtype': gtype, 'rseed': j, 'chance': _chance_of(j), 'tokens': text.split()}


def scripted_cli_cases(tier):
    n = 14 if tier == 'quick' else 400
    j = 0
    for text in SCRIPTED_CLI_SPECS:
        for _ in range(n):
            j += 1
            yield {'gtype': 'bipartite', 'rseed': j, 'chance': _chance_of(j), 'cmd': FILE_CMDS['bipartite'][(j // 5) % 4],
                   'tokens': text.split()}


def dense_regular_cli_cases(tier):
    for L, Rr, d, nq, nt in DENSE_REGULAR_CLI:
        for seed in range(nq if tier == 'quick' else nt):
            yield {'gtype': 'bipartite', 'rseed': seed, 'cmd': FILE_CMDS['bipartite'][(seed // 7) % 4],
                   'tokens': ['regular', str(L), str(Rr), str(d)] + DENSE_REGULAR_CLI_TAILS[seed % len(DENSE_REGULAR_CLI_TAILS)]}


# ---- graph arguments read from files written by the harness, with modifiers and `save`

FILE_STEMS = ['g', 'two words', ' lead and trail ', "it's", "'q'", 'say "hi"', '"', 'a\'b"c', 'a.b', 'v1.2..3',
              '.hidden', 'g.gml', 'grafo_è', 'γράφος', 'граф №1',
              '{0}%s#x\\y;z', 'ünï cödé.v2']
FILE_MODSETS = {
    'simple': [[], ['plantclique'], ['addedges'], ['splitedges'], ['plantclique', 'addedges'], ['addedges', 'splitedges'],
               ['plantclique', 'splitedges'], ['plantclique', 'addedges', 'splitedges'], ['addedges'], ['splitedges', 'addedges'],
               ['splitedges', 'addedges', 'plantclique']],
    'bipartite': [[], ['plantbiclique'], ['addedges'], ['plantbiclique', 'addedges'], ['addedges', 'plantbiclique'],
                  ['addedges'], ['plantbiclique', 'addedges']],
    'dag': [[]],
    'digraph': [[]],
}
FILE_STYLES = [0, 1, 8, 32, 41, 2, 4, 16, 3, 64, 0, 33, 9, 96]
FILE_CMDS = {
    'simple': [['kcolor', '3'], ['domset', '2'], ['kcolor', '2']],
    'bipartite': [['php'], ['php', '--functional'], ['php', '--onto'], ['php', '--functional', '--onto']],
    'dag': [['peb']],
}


def _file_graph(rnd, gtype):
    p = rnd.choice([0.0, 0.3, 0.3, 0.6, 0.6, 1.0])
    if gtype == 'bipartite':
        L, Rr = rnd.choice([1, 2, 3, 3, 4]), rnd.choice([1, 2, 3, 4, 4])
        pairs = [(u, v) for u in range(1, L + 1) for v in range(1, Rr + 1)]
        return R.make_desc(gtype, L=L, R=Rr, edges=[e for e in pairs if rnd.random() < p])
    n = rnd.choice([1, 2, 3, 4, 4, 5, 5, 6, 7])
    if gtype == 'digraph':
        n = min(n, 6)
        pairs = [(u, v) for u in range(1, n + 1) for v in range(1, n + 1) if u != v]
        p = p / 2
    else:
        pairs = [(u, v) for u in range(1, n + 1) for v in range(u + 1, n + 1)]
    return R.make_desc(gtype, n=n, edges=[e for e in pairs if rnd.random() < p])


def _file_number(rnd, hi, small):
    """an argument of a modifier whose legal range is 0..hi"""
    if rnd.random() < 0.06:
        return hi + 1
    if small:
        hi = min(hi, 2)
    return min(hi, rnd.choice([0, 1, 1, 2, 2, 3, hi // 2, hi, hi]))


def _file_case(rnd, k, rep, gtype, ifmt, ofmt, via):
    g = _file_graph(rnd, gtype)
    fmts = M.FORMATS[gtype]
    others = [f for f in fmts if f != ifmt]
    form = 'ext' if (k + rep) % 2 == 0 else 'fmt'
    idx = 5 * k + rep
    stem = FILE_STEMS[idx % len(FILE_STEMS)]
    if form == 'ext':
        name = stem + '.' + ifmt
    else:
        v = (k // 2 + rep) % 6
        name = [stem + '.' + ifmt, stem, stem + '.' + others[k % len(others)], stem + '.', '.' + ifmt, stem + '.txt'][v]
    subdir = ['', '', 'sub dir.' + others[rep % len(others)], ''][(k // 3 + rep) % 4]
    # modifiers, in the documented order or not, with numbers that fit the graph of the file (mostly)
    msets = FILE_MODSETS[gtype]
    mset = msets[(k // len(fmts) + 3 * rep) % len(msets)]
    if via == 'cli' and len(mset) > 2:
        mset = mset[:2]
    mods = []
    if gtype == 'bipartite':
        missing, present = g['L'] * g['R'] - len(g['edges']), len(g['edges'])
    else:
        missing, present = g['n'] * (g['n'] - 1) // 2 - len(g['edges']), len(g['edges'])
    for name_ in mset:
        if name_ == 'plantclique':
            nums = [_file_number(rnd, g['n'], False)]
        elif name_ == 'plantbiclique':
            nums = [_file_number(rnd, g['L'], False), _file_number(rnd, g['R'], False)]
        elif name_ == 'addedges':
            nums = [_file_number(rnd, missing, len(mset) > 1 and rnd.random() < 0.7)]
        else:
            nums = [_file_number(rnd, present, False)]
        mods.append([name_] + [str(x) for x in nums])
    # `save`: both forms, before / between / after the modifiers
    sform = 'ext' if (k // 2 + rep) % 2 == 0 else 'fmt'
    if sform == 'ext':
        save = ['save', ['g.' + ofmt, 'out put.' + ofmt, 'salida_ñ.v2.' + ofmt][(k + rep) % 3]]
    else:
        save = ['save', ofmt, ['g.graph', 'g.' + ifmt, 'g', 'g.' + ofmt, 'out put.' + others[0]][(k + 2 * rep) % 5]]
    pos = (k // 4 + rep) % (len(mods) + 1)
    opts = mods[:pos] + [save] + mods[pos:]
    case = {'kind': 'file', 'gtype': gtype, 'graph': g, 'ifmt': ifmt, 'style': FILE_STYLES[(k + rep) % len(FILE_STYLES)],
            'name': name, 'subdir': subdir, 'form': form, 'opts': opts, 'rseed': rnd.randrange(2 ** 32)}
    if via == 'cli':
        case['cmd'] = FILE_CMDS[gtype][(k + rep) % len(FILE_CMDS[gtype])]
    return case


def file_cases(tier, via):
    """every graph type x every input format x every `save` format, `reps` times with the other dimensions
    (file name, form of the argument, modifiers and their order, form and position of `save`, style of the
    input file) cycling so that each combination meets each of them within a few repetitions"""
    reps = {('spec', 'quick'): 6, ('spec', 'thorough'): 170, ('cli', 'quick'): 2, ('cli', 'thorough'): 51}[(via, tier)]
    rnd = random.Random(1507 if via == 'spec' else 1511)
    types = R.TYPES if via == 'spec' else ('simple', 'bipartite', 'dag')
    for rep in range(reps):
        k = 0
        for gtype in types:
            for ifmt in M.FORMATS[gtype]:
                for ofmt in M.FORMATS[gtype]:
                    yield _file_case(rnd, k, rep, gtype, ifmt, ofmt, via)
                    k += 1


# ---- the state of the `save` target before the command

TGT_BIG = {
    'simple': [['gnm', 9, 20], ['complete', 7], ['gnd', 8, 4], ['grid', 3, 3], ['gnm', 8, 16], ['torus', 3, 3], ['gnp', 8, '0.9']],
    'bipartite': [['glrm', 6, 6, 20], ['complete', 5, 5], ['glrd', 7, 5, 3], ['regular', 6, 6, 3], ['shift', 8, 8, 0, 1, 3]],
    'dag': [['pyramid', 3], ['tree', 3], ['path', 8]],
    'digraph': [['pyramid', 3], ['tree', 3], ['path', 8]],
}
TGT_SMALL = {
    'simple': [['gnm', 5, 3], ['empty', 2], ['complete', 2], ['gnm', 1, 0], ['grid', 2], ['gnm', 4, 2], ['complete', 3]],
    'bipartite': [['glrm', 2, 3, 2], ['empty', 1, 1], ['complete', 1, 2], ['glrd', 3, 2, 1], ['shift', 2, 2, 0]],
    'dag': [['path', 1], ['path', 0], ['tree', 1], ['pyramid', 1]],
    'digraph': [['path', 1], ['path', 0], ['tree', 1], ['pyramid', 1]],
}
TGT_TINY = {'simple': ['gnm', 1, 0], 'bipartite': ['empty', 1, 1], 'dag': ['path', 0], 'digraph': ['path', 0]}
TGT_MODS = {
    'simple': [[], [], [], [['plantclique', 2]], [['addedges', 1]], [['splitedges', 1]], [['plantclique', 3], ['splitedges', 1]],
               [['addedges', 1], ['splitedges', 1]], [['addedges', 2]]],
    'bipartite': [[], [], [], [['plantbiclique', 1, 1]], [['addedges', 1]], [['plantbiclique', 1, 2], ['addedges', 1]]],
    'dag': [[]],
    'digraph': [[]],
}
TGT_SCENARIOS = ['absent', 'empty', 'own-longer', 'own-longer-other-format', 'own-shorter', 'junk-longer', 'junk-shorter',
                 'graph-longer', 'twice', 'again-other-seed', 'other-input-file', 'input-own']
TGT_SCENARIOS_CLI_QUICK = ['absent', 'own-longer', 'junk-longer', 'twice', 'own-longer-other-format']
TGT_NAMES = ['g', 'out put', 'salida_ñ.v2', 'γράφος']


def _target_graph(rnd, gtype, big):
    """description of a graph for a file written by the harness"""
    p = rnd.choice([0.5, 0.7, 0.9]) if big else rnd.choice([0.0, 0.3, 0.6])
    if gtype == 'bipartite':
        L, Rr = (rnd.choice([5, 6, 7]), rnd.choice([5, 6])) if big else (rnd.choice([1, 2, 3]), rnd.choice([1, 2, 3]))
        pairs = [(u, v) for u in range(1, L + 1) for v in range(1, Rr + 1)]
        return R.make_desc(gtype, L=L, R=Rr, edges=[e for e in pairs if rnd.random() < p])
    n = rnd.choice([7, 8, 9]) if big else rnd.choice([1, 2, 3, 4])
    pairs = [(u, v) for u in range(1, n + 1) for v in range(u + 1, n + 1)]      # upward: fine for every type
    return R.make_desc(gtype, n=n, edges=[e for e in pairs if rnd.random() < p])


def _target_case(rnd, gtype, ofmt, scenario, via, ifmt=None):
    fmts = M.FORMATS[gtype]
    others = [f for f in fmts if f != ofmt]
    other = rnd.choice(others)
    sform = rnd.choice(['ext', 'fmt'])
    stem = rnd.choice(TGT_NAMES)
    if scenario == 'input':
        # the extension tells the format of the file as it is at first, another one, or nothing
        oname = stem + rnd.choice(['.' + ifmt, '.' + ifmt, '.graph', '', '.' + ofmt])
    else:
        oname = stem + ('.' + ofmt if sform == 'ext' else rnd.choice(['.graph', '', '.' + other, '.' + ofmt]))
    seed = lambda: rnd.randrange(2 ** 32)       # noqa
    big, small = rnd.choice(TGT_BIG[gtype]), rnd.choice(TGT_SMALL[gtype])
    mods = rnd.choice(TGT_MODS[gtype]) if (via == 'spec' or rnd.random() < 0.4) else []
    if scenario in ('own-longer-other-format', 'graph-longer') and (ofmt == 'gml' or (gtype == 'bipartite' and ofmt == 'dot')):
        # the new text is in a verbose format: the smallest graphs, so that the earlier content can still be the longer one
        small, mods = TGT_TINY[gtype], []

    def run(src, fmt=ofmt, mods=(), form=None, rseed=None, sform_=None):
        return {'op': 'run', 'src': src, 'form': form or rnd.choice(['ext', 'fmt']), 'mods': [list(m) for m in mods],
                'ofmt': fmt, 'sform': sform_ or sform, 'rseed': seed() if rseed is None else rseed}

    def junk(size):
        what = rnd.choice(['junk-ascii', 'junk-utf8', 'junk-bytes'])
        return {'op': 'put', 'what': what, 'size': size, 'fmt': ofmt}

    def other_file(big_one):
        f = rnd.choice(fmts)
        return {'graph': _target_graph(rnd, gtype, big_one), 'ifmt': f, 'style': rnd.choice(FILE_STYLES),
                'name': 'in put' + rnd.choice(['.' + f, '.txt', ''])}
    if scenario == 'absent':
        steps = [run(rnd.choice([big, small]), mods=mods)]
    elif scenario == 'empty':
        steps = [{'op': 'put', 'what': 'empty'}, run(rnd.choice([big, small]), mods=mods)]
    elif scenario == 'own-longer':
        steps = [run(big), run(small, mods=mods)]
    elif scenario == 'own-longer-other-format':
        # gml is the most verbose format, matrix the tersest: the earlier graph is large enough in every pairing
        steps = [run(big, fmt=other, sform_='fmt'), run(small, mods=mods)]
    elif scenario == 'own-shorter':
        steps = [run(small, fmt=rnd.choice([ofmt, other]), sform_='fmt'), run(big, mods=mods)]
    elif scenario == 'junk-longer':
        steps = [junk(rnd.choice([3000, 4096, 5000, 8193])), run(rnd.choice([big, small]), mods=mods)]
    elif scenario == 'junk-shorter':
        steps = [junk(rnd.choice([1, 2, 3, 7, 16])), run(rnd.choice([big, small]), mods=mods)]
    elif scenario == 'graph-longer':
        f = rnd.choice([ofmt, ofmt, other])
        steps = [{'op': 'put', 'what': 'graph', 'graph': _target_graph(rnd, gtype, True), 'fmt': f,
                  'style': rnd.choice(FILE_STYLES), 'pad': rnd.choice([0, 0, 3])}, run(small, mods=mods)]
    elif scenario == 'twice':
        one = run(rnd.choice([big, small]), mods=mods)
        steps = [one, dict(one)]
    elif scenario == 'again-other-seed':
        cons = rnd.choice([c for c in TGT_BIG[gtype] + TGT_SMALL[gtype] if c[0] in M.RANDOM_CONSTRUCTIONS] or [big])
        steps = [run(cons, mods=mods), run(cons, mods=mods), run(cons, mods=mods)]
    elif scenario == 'other-input-file':
        first = rnd.choice([junk(5000), run(big, fmt=rnd.choice([ofmt, other]), sform_='fmt')])
        steps = [first, run(other_file(False), mods=mods), run(other_file(True))]
    elif scenario == 'input-own':
        # the tree writes the file, then reads it and saves over it (the second time with modifiers: a longer text)
        steps = [run(rnd.choice([big, small])), run('self', form='ext' if sform == 'ext' else 'fmt', mods=mods), run('self')]
    elif scenario == 'input':
        # the harness writes the file; the command reads it and saves over it, in the same format or another one;
        # padded with comment lines (or written with attributes) so that the text stored is shorter than the one read
        g = _target_graph(rnd, gtype, rnd.random() < 0.5)
        pad = rnd.choice([0, 4, 4, 9])
        style = rnd.choice(FILE_STYLES)
        if pad and ifmt == 'matrix':
            style |= 32
        if pad and ifmt == 'dot':
            style |= 2
        if pad and ifmt == 'gml':
            style = (style | 2) & ~8
        steps = [{'op': 'put', 'what': 'graph', 'graph': g, 'fmt': ifmt, 'style': style, 'pad': pad},
                 run('self', mods=[] if pad else mods, sform_=rnd.choice(['ext', 'fmt']))]
        if ifmt == ofmt:
            steps.append(run('self', sform_=rnd.choice(['ext', 'fmt'])))
    else:
        raise KeyError(scenario)
    case = {'kind': 'target', 'gtype': gtype, 'oname': oname, 'scenario': scenario, 'steps': steps}
    if via == 'cli':
        case['cmd'] = rnd.choice(FILE_CMDS[gtype])
        # the earlier commands of a history go through the library in half of the cases (in-process commands are slow)
        if len(steps) > 1 and rnd.random() < 0.5:
            for st_ in steps[:-1]:
                if st_['op'] == 'run':
                    st_['via'] = 'lib'
    return case


def target_cases(tier, via):
    """every graph type x every `save` format x every scenario of the earlier content of the target, then every
    (format read, format saved) pair with the target being the file of the graph argument"""
    rounds = {('spec', 'quick'): 1, ('spec', 'thorough'): 40, ('cli', 'quick'): 1, ('cli', 'thorough'): 12}[(via, tier)]
    rnd = random.Random(1513 if via == 'spec' else 1517)
    types = M.TYPES if via == 'spec' else ('simple', 'bipartite', 'dag')
    for rep in range(rounds):
        k = 0
        for gtype in types:
            fmts = M.FORMATS[gtype]
            for ofmt in fmts:
                scenarios = TGT_SCENARIOS if (via == 'spec' or tier != 'quick') else TGT_SCENARIOS_CLI_QUICK
                for sc in scenarios:
                    yield _target_case(rnd, gtype, ofmt, sc, via)
            for i, ifmt in enumerate(fmts):
                for j, o in enumerate(fmts):
                    k += 1
                    if via == 'cli' and tier == 'quick' and i != j and (i + 2 * j + rep) % 3:
                        continue
                    yield _target_case(rnd, gtype, o, 'input', via, ifmt=ifmt)


def _decode_target(s, via):
    gtype = s.pick(M.TYPES if via == 'spec' else ('simple', 'bipartite', 'dag'))
    fmts = M.FORMATS[gtype]
    if s.chance(30):
        return _target_case(s.rnd, gtype, s.pick(fmts), 'input', via, ifmt=s.pick(fmts))
    return _target_case(s.rnd, gtype, s.pick(fmts), s.pick(TGT_SCENARIOS), via)


def enum_files_spec(tier):
    return itertools.chain(file_cases(tier, 'spec'), target_cases(tier, 'spec'))


def enum_files_cli(tier):
    return itertools.chain(file_cases(tier, 'cli'), target_cases(tier, 'cli'), dense_regular_cli_cases(tier), scripted_cli_cases(tier))


_FILE_LABELS = (['file/{}/{}'.format(t, f) for t in M.TYPES for f in M.FORMATS[t]]
                + ['file-save/{}/{}'.format(t, f) for t in M.TYPES for f in M.FORMATS[t]]
                + ['reread-by-tree/' + f for f in M.ALL_FORMATS]
                + ['file-form:ext', 'file-form:fmt', 'save-form:ext', 'save-form:fmt', 'save-without-modifier',
                   'save-before-modifiers', 'save-between-modifiers', 'save-after-modifiers',
                   'save-not-last-with-effective-modifier', 'file-in-subdirectory', 'file-extension-of-another-format']
                + ['file-name:' + c for c in ('blank', 'single-quote', 'double-quote', 'non-ascii', 'leading-dot', 'several-dots',
                                              'trailing-dot', 'punctuation', 'no-extension', 'plain')])
_FILE_LABELS_CLI = (['file/{}/{}'.format(t, f) for t in ('simple', 'bipartite', 'dag') for f in M.FORMATS[t]]
                    + ['file-save/{}/{}'.format(t, f) for t in ('simple', 'bipartite', 'dag') for f in M.FORMATS[t]]
                    + ['file-via-command-line', 'file-form:ext', 'file-form:fmt', 'save-form:ext', 'save-form:fmt',
                       'save-before-modifiers', 'save-after-modifiers', 'file-name:blank', 'file-name:single-quote',
                       'file-name:double-quote', 'file-name:non-ascii', 'file-name:several-dots', 'reread-by-tree'])

_TARGET_LABELS = (['target:longer/{}/{}'.format(t, f) for t in M.TYPES for f in M.FORMATS[t]]
                  + ['target:absent', 'target:empty', 'target:longer', 'target:shorter', 'target:equal', 'target-same-command-again',
                     'target:longer<-earlier-run', 'target:longer<-earlier-run-other-format', 'target:longer<-graph-by-harness',
                     'target:longer<-junk-ascii', 'target:longer<-junk-utf8', 'target:longer<-junk-bytes',
                     'target:shorter<-earlier-run', 'target:equal<-earlier-run', 'target-with-input-file',
                     'target-is-input', 'target-is-input:same-format', 'target-is-input:other-format', 'target-is-input:longer',
                     'target-is-input:shorter', 'target-save-form:ext', 'target-save-form:fmt']
                  + ['target-is-input/{0}->{0}'.format(f) for f in M.ALL_FORMATS])
_TARGET_LABELS_CLI = (['target:longer/{}/{}'.format(t, f) for t in ('simple', 'bipartite', 'dag') for f in M.FORMATS[t]]
                      + ['target:absent', 'target:longer', 'target:equal', 'target-same-command-again', 'target-via-command-line',
                         'target-formula-checked', 'target:longer<-earlier-run', 'target:longer<-earlier-run-other-format',
                         'target:longer<-graph-by-harness', 'target-is-input', 'target-is-input:same-format',
                         'target-is-input:other-format', 'target-is-input:longer']
                      + ['target-is-input/{0}->{0}'.format(f) for f in M.ALL_FORMATS])

_CONS_LABELS = ['{}/{}'.format(t, c) for t in M.TYPES for c in M.CONSTRUCTIONS[t]]
_SAVE_LABELS = ['saved/{}/{}'.format(t, f) for t in M.TYPES for f in M.FORMATS[t]]

SUBCHECKS = [
    SubCheck('boundary', run_spec, enumerate_cases=enum_boundary, quick=0, thorough=0,
             rule="every construction of every graph type with every combination of arguments from {limit-1, limit, limit+1, middle} of each documented range (sides 0..4 and a few larger ones, grids up to 3 dimensions, glrm on both sides of m = L*R//3, regular with every d in -1..R+1, gnd with every d in -1..N+1), random constructions under 2 (thorough: 40) seeds; oracle: ValueError exactly outside the documented range, otherwise the structure predicates of the definition; non-trivial: accepted random construction",
             required_labels=_CONS_LABELS + ['dense-path', 'sparse-path', 'at-switch', 'above-switch', 'at-limit-accepted',
                                             'just-outside-rejected', 'impossible', 'd=R', 'd=0', 'dimension-1', 'dimension-2',
                                             't-partite', 'multipartite', 'p=0', 'p=1', 'offset=R', 'arity', 'no-dimension',
                                             'gnd-N=d', 'gnd-N=d+1']),
    SubCheck('options', run_spec, strategy=strat_spec, enumerate_cases=enum_files_spec, quick=4000, thorough=480000,
             rule="(a) enumerated: graph arguments READ FROM A FILE written by the harness, for every graph type (simple, digraph, dag, bipartite) x every input format of the type (kthlist, gml, dot, dimacs / matrix; harness-side writers, several layouts) x every `save` format of the type, 6 (thorough: 170) rounds in which the other dimensions cycle: file names with blanks, single and double quotes, several / leading / trailing dots, the extension of another format, non-ASCII letters, punctuation, a directory whose name ends like an extension; `<file>` (format from the extension) and `<format> <file>` (no, unknown or misleading extension); every subset of the modifiers the type allows, in the documented order or another, with numbers that fit the graph of the file (6%: one too many); `save <out.ext>` and `save <format> <out>` (output names with blanks, non-ASCII letters, the extension of the input format) written before, between and after the modifiers. Oracle: the file alone gives exactly the graph the harness wrote; wherever `save` stands, the saved file -- read by the harness's reference readers and given back to the tree as a graph argument -- is exactly the graph returned, and that graph is the file's graph plus the step relations of the modifiers (addedges k: k new edges, old ones and vertices kept; splitedges k: k vertices and k edges more, each new vertex subdivides one old edge; plantclique/plantbiclique: old edges kept, the new ones complete a clique of the requested size), refusal exactly when a number does not fit; non-trivial: file graph with an edge and >= 3 vertices. (a') enumerated, THE STATE OF THE `save` TARGET BEFORE THE COMMAND: every graph type x every `save` format of the type x the histories {target absent; empty file; an earlier, larger graph saved there by the tree in the same format / in another format; an earlier smaller one; 3000-8193 bytes / 1-16 bytes of junk (ASCII lines that look like the format, non-ASCII UTF-8 text, bytes that are not UTF-8); a larger graph file written by the harness (same or other format, any layout, comment lines in front); the same command twice under the same seed; a random construction three times under three seeds; another input file of the harness given as graph argument; the tree's own file read back as graph argument and saved over, twice}, plus every (format read, format saved) pair with the target being THE FILE OF THE GRAPH ARGUMENT itself (`g.kthlist save g.kthlist`, `kthlist g.graph save gml g.graph`; harness files padded with comments / attributes so that the text stored is shorter than the text read; saved over a second time when the format stays), 1 (thorough: 40) rounds, constructions from a list of large (7-15 vertices) and small (1-5 vertices) ones, up to two modifiers in the documented order, both forms of `save` and of the file argument, odd target names. Oracle after EVERY command of the history: the graph in use is the construction's structure / the file's graph plus the step relations (same specification without `save` under the same seed); the whole target, read by the harness's readers, is exactly that graph, nothing but blanks follows the closing bracket / brace of a gml / dot file, the bytes equal what the same request stores under a new name, and the file is accepted back as a graph argument; labelled longer / shorter / equal from the actual lengths; non-trivial: a command that found a non-empty target. (b) generated (1 case in 12 is a random history of (a')): construction with boundary arguments followed by any subset of the options valid for the type (plantclique / plantbiclique / addedges / splitedges with arguments inside, at and just outside what the graph allows; save in every format, explicit or by extension, unknown extension, missing file) in any order, plus foreign constructions/options, wrong arities, repeated options, odd number spellings; oracle: chain of step relations against the same specification without the later modifiers under the same seed, saved file read by the harness's readers equals the returned graph; non-trivial: accepted random construction or a modifier with a non-zero argument; one `regular` case in five is drawn from the dense, unbalanced region of sub-check `sweep` (R 2..5, d = R-1 or R, L a multiple of R in 6R..66); one case in 8 runs with the random choices scripted (ScriptedChance, see `sweep` (c))",
             required_labels=_CONS_LABELS + _SAVE_LABELS + ['regular-dense-unbalanced', 'regular:restart', 'addedges:listing', 'scripted-chance',
                                                           'scripted-chance/addedges:listing', 'opt-plantclique', 'opt-plantbiclique', 'opt-addedges', 'opt-splitedges',
                                                           'opt-save', 'saved', 'options>=2', 'options-reordered', 'modifier-nonzero',
                                                           'just-outside-rejected', 'at-limit-accepted', 'dense-path', 'sparse-path',
                                                           'save-unknown-format', 'gray-accepted', 'foreign-construction',
                                                           'plantclique:at-limit', 'addedges:at-limit', 'splitedges:at-limit',
                                                           'plantbiclique:at-limit', 'addedges:just-outside', 'splitedges:just-outside',
                                                           'plantclique:just-outside', 'plantbiclique:just-outside'] + _FILE_LABELS
             + _TARGET_LABELS),
    SubCheck('sweep', run_spec, enumerate_cases=enum_sweep, quick=0, thorough=0,
             rule="(a) fixed small specifications of the samplers with retry loops and fall-backs (regular, glrm at the sparse/dense switch, gnd, addedges up to the complete graph and for the last 1..6 missing edges of an almost complete simple / bipartite graph, modifier chains) under every seed 0..N-1 (N between 100 and 12000, thorough up to 180000). "
                  "(b) THE RARE BRANCHES OF `regular L R d`: the dense, unbalanced region found by a survey on an instrumented copy of the unchanged tree (few right vertices, d = R-1 or R, L a large multiple: the 3*d*d retries for one edge run out while a free pair of stubs exists once in 10..300 runs, against once in 10^5 on balanced parameters): (L,R,d) in {(30,2,2), (40,2,2), (33,3,2), (48,3,2), (96,3,2), (32,4,3), (64,4,3), (96,4,3), (128,4,3), (50,5,4), (65,5,4), (48,6,5), (18,3,3), (24,4,4)} and, next to the region, {(14,4,2), (20,4,3), (20,5,4), (30,5,3)}, under every seed 0..N-1 (N = 30..2000 by cost, 8900 cases in all; thorough 15 times as many), 5 cases in 13 followed by `save g.matrix`, `save kthlist g.graph`, `addedges 2|3 [save g.kthlist]` or `plantbiclique 2 2 save g.matrix`. "
                  "Which branch ran is observed from outside by pass-through wrappers (random.choice called by bipartite_random_regular = a free pair picked from the list; its module-level name called again = restart; random.sample called by add_random_missing_edges itself = listing of the missing edges) and only labels the case: about 65 picks from the list, 3400 restarts, 600 listings per quick run. "
                  "(c) THE RANDOM CHOICES AS AN INPUT (case['chance'] = [key, percent, run lengths], class ScriptedChance): random.randint / choice / sample are answered from a private generator that now and then (2, 5, 10 or 25% of the calls) starts a run (at most 6 per build) of 5..200 calls answered with the lowest (one run in four: the highest) legal value, sample repeating its previous answer - every answer is legal, so every such sequence is a possible outcome of an honest generator, and the outcomes in which a rejection sampler keeps hitting what it has already become frequent at ordinary small parameters: every `regular L R d` with R 1..8, d 1..R, L 1..16, R | L*d, L*d <= 60 (197 triples x 10 keys, thorough 150; one in 11 with `save g.matrix`), and 26 specifications of glrm (both sides of the switch, m = L*R), glrd, glrp, empty/complete + addedges up to the complete graph, gnm/gnd/gnp + addedges/plantclique/splitedges chains, regular + addedges/plantbiclique + save (150 keys each, thorough 3000): about 650 picks from the list of free pairs whose edge is in the graph returned ('regular:fallback-pick-kept'), 400 restarts, 700 listings of the missing edges per quick run. "
                  "oracle unchanged: every left vertex has degree d, every right vertex degree L*d/R, no repeated edge (edges are a set of pairs within the sides), the saved file read by the harness is the graph returned, modifiers explained by the step relations under the same seed; non-trivial: every accepted case",
             required_labels=['bipartite/regular', 'bipartite/glrm', 'simple/gnd', 'opt-addedges', 'dense-path', 'sparse-path',
                              'regular-dense-unbalanced', 'regular:fallback-pick', 'regular-dense-unbalanced:fallback-pick',
                              'regular:restart', 'addedges:listing', 'saved/bipartite/matrix', 'saved/bipartite/kthlist',
                              'scripted-chance', 'scripted-chance/regular:fallback-pick', 'scripted-chance/regular:fallback-pick-kept',
                              'scripted-chance/regular:restart', 'scripted-chance/addedges:listing', 'scripted-chance/bipartite/regular',
                              'scripted-chance/bipartite/glrm', 'scripted-chance/bipartite/glrd', 'scripted-chance/simple/gnm',
                              'scripted-chance/simple/gnd']),
    SubCheck('cli', run_cli, strategy=strat_cli, enumerate_cases=enum_files_cli, quick=320, thorough=24000,
             rule="(a) enumerated: the graph arguments read from harness-written files of sub-check `options` (simple, bipartite, dag x every input format x every `save` format, 2 (thorough: 51) rounds, at most two modifiers, odd file names, both forms of the argument and of `save`, `save` before / between / after the modifiers) after `cnfgen kcolor k | domset d | php [--functional] [--onto] | peb`, in-process; oracle: as there, the graphs being the ones found in the saved files, and the formula equals the library formula on the saved graph, the saved file given back as a graph argument is that graph. (a') enumerated: the histories of the `save` target of sub-check `options` (simple, bipartite, dag x every `save` format x {absent, earlier larger graph in the same / another format, long junk, same command twice}, all histories in the thorough tier; target = file of the graph argument for every format kept and a third of the format changes), the last command -- in half of the cases every command -- going through `cnfgen <sub-command>` in-process; same oracle, the graph being the one found in the target, plus: the formula equals the library formula on that graph. (b) generated (1 case in 8 is a random history of (a')): the same specifications after `cnfgen kcolor k | domset d | php [--functional] [--onto] | peb`, run in-process; the graph is the one found in the file written by `save` (the harness appends `save kthlist <file>` when the case has none); oracle: CLIError exactly when the model says refusal, same structure predicates and step relations on the saved graphs, and the clauses and variable names of the formula equal the library formula built on the saved graph; non-trivial as above. (c) enumerated, the rare branches of `regular`: `cnfgen php [--functional] [--onto] regular L R d` with (L,R,d) in {(30,2,2), (48,3,2), (64,4,3), (96,4,3), (128,4,3), (50,5,4), (14,4,2)} (the dense, unbalanced region of sub-check `sweep`) under every seed 0..N-1 (N = 30..60, 370 cases; thorough 600..3000 each), 3 in 7 followed by `save B.matrix`, `save kthlist B.graph` or `addedges 2`; same oracle (degrees on both sides, saved file = graph in use, formula = library formula on the saved graph); the branch taken is observed as in `sweep` (about 8 picks from the list of free pairs per quick run). (d) enumerated, the random choices as an input (ScriptedChance, see `sweep` (c)): `cnfgen php [--functional] [--onto]` + 12 specifications (regular 6 3 2 | 8 4 2 | 14 4 2 | 9 6 2 | 8 8 3 | 10 5 3 | 12 4 1 | 4 4 4 with and without save / addedges, glrm / glrd / empty + addedges, glrd + plantbiclique + addedges) x 14 keys (thorough 400): about 40 kept picks and 20 listings per quick run; one generated case in 8 of (b) also runs under a scripted chance",
             required_labels=['cmd-kcolor', 'cmd-php', 'cmd-peb', 'cmd-domset', 'saved', 'rejected', 'modifier-nonzero',
                              'regular-dense-unbalanced', 'regular:fallback-pick', 'regular:restart', 'addedges:listing',
                              'scripted-chance', 'scripted-chance/regular:fallback-pick-kept', 'scripted-chance/addedges:listing',
                              'opt-plantclique', 'opt-plantbiclique', 'opt-addedges', 'opt-splitedges'] + _FILE_LABELS_CLI
             + _TARGET_LABELS_CLI),
]
