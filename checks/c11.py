"""C11 - variable groups map indices to identifiers bijectively, with names aligned.

Direct sub-checks (one group on a formula that already has 0..4 anonymous variables,
optionally followed by more anonymous variables and a named one)::

    {"cls": "CNF", "pre": 2, "pre_how": "clause", "spec": {"kind": "block", "ranges": [2, 0, 3],
     "label": "b1({},{},{})"}, "post": "both", "fmt": "y[{}]", "render": true}

History sub-checks (the case is the operation log)::

    {"cls": "OPB", "ops": [["group", {"kind": "variable", "label": "X"}], ["add_clause", [4, -1], true],
                           ["group", {...}], ["update_variable_number", 9], ...], "fmt": null}

The reference enumeration of every group kind lives in vlib/groupref.py.
"""
import bisect
import io
import itertools
import os
import random
import re
import sys

from hypothesis import strategies as st

from vlib.core import SubCheck, Violation, Outcome
from vlib import graphs_gen as gg
from vlib import groupref as gr
from vlib import rd_latex

PROPERTY = "C11"
ASSUMPTIONS = [
    "label format strings always have the right number of placeholders (anything else is outside the domain)",
    "the expected name of a variable is computed by the harness from the label format it passed "
    "(block/edges/mappings: label.format(*index); combinations/permutations/words: label.format('i,j,k'), as in the "
    "docstrings); with the default label the expected name is whatever group.label(*index) says",
    "every name reported by all_variable_labels() must be a string; for new_variable() called without a label any "
    "string is accepted (the default name is the natural choice, but it is not documented)",
    "gray: groups of combinations/permutations/words do not offer None entries in a pattern; a ValueError and the "
    "reference answer are both accepted there.  With k = 0 their only index is the empty tuple, which is also the "
    "'everything' pattern: g() may return the identifier or an iterable with that identifier, label() likewise",
    "a simple-graph edge may be addressed in both orientations; the canonical index is (min, max); a pattern (w, None) "
    "or (None, w) selects every edge that contains w",
    "patterns outside the domain must raise ValueError from g(...), g.indices(...) and g.label(...); a lazily produced "
    "result is consumed before deciding that nothing was raised",
    "single variables are observed through the returned identifier and the names only (new_variable returns an int)",
    "constructors called with a negative size (or new_block without ranges, or an unknown sortby) must raise "
    "ValueError and leave the variable count and the names as they were",
    "add_clause(check=False) is used only with literals inside the declared range",
    "constraint builders (add_clauses_from, add_parity, add_linear, cardinality_*, add_*_majority / minority, OPB add_constraint(s_from)): "
    "with check=True ('check that the literals are valid and update the variable count' in the docstrings) the variable count "
    "becomes the largest variable mentioned, whatever the operator and also when the constant makes the constraint trivial or "
    "unsatisfiable (no clause, or the empty clause, is stored); the variables below it that nobody mentioned exist as well and are "
    "anonymous; with check=False the builders are used only with literals inside the count; the literals of one call are on "
    "pairwise distinct variables; which clauses / constraints are stored is not this property's subject",
    "the renderings are read with the independent readers: 'c varname <id> <name>' / '* varname x<id> <name>' lines, "
    "and the literal table of the LaTeX output through unit clauses (names compared after removing braces and blanks)",
    "scale: groups with more than 10^4 variables are questioned on sampled indices only (positions from "
    "random.Random(rseed)); a tuple near a legal index is legal or not according to the definition of the kind (block: "
    "1..range per position; combinations: strictly increasing in 1..n; with replacement: non-decreasing; permutations: "
    "pairwise distinct; words: any), bool entries are not offered",
    "astronomically large groups: only new_block, new_mapping with a domain of at most 64 elements and new_binary_mapping "
    "with a range of at most 1024 elements are used (their constructors store ranges and weights; the other kinds tabulate "
    "every index); a group has at most 2^63 - 1 variables because len() of a Python object cannot say more (the constructors "
    "call len()), larger identifiers come from the variables declared before the group; patterns whose answer would copy a "
    "range of 2^31 elements are not asked",
    "command line: the names of php, op, ram, cliquecoloring, vdw, bphp, kcolor, peb, tseitin are computed by the "
    "harness from the documented naming of the families; for random graphs only the order of the decoded edges is "
    "asserted, together with equality with the names of the formula built through cli(mode='formula')",
]


def _tier():
    a = sys.argv
    for i, x in enumerate(a):
        if x == '--tier' and i + 1 < len(a):
            return a[i + 1]
        if x.startswith('--tier='):
            return x.split('=', 1)[1]
    return os.environ.get('VERIF_TIER', 'quick')


def _mk(clsname):
    from cnfgen.formula.cnf import CNF
    from cnfgen.formula.opb import OPB
    if clsname == 'CNF':
        return CNF()
    if clsname == 'OPB':
        return OPB()
    raise ValueError(clsname)


# ---------------------------------------------------------------------------
# renderings

_DIMACS_VN = re.compile(r'^c varname (\d+) (.*)$')
_OPB_VN = re.compile(r'^\* varname x(\d+) (.*)$')


def _check_varname_lines(text, rx, marker, exp, where):
    got = []
    for line in text.split('\n'):
        if line.startswith(marker + ' varname'):
            m = rx.match(line)
            if m is None:
                raise Violation("{}: malformed name line {!r}".format(where, line))
            got.append((int(m.group(1)), m.group(2)))
    want = [(v, name) for v, name in enumerate(exp, start=1)]
    if got != want:
        k = 0
        while k < min(len(got), len(want)) and got[k] == want[k]:
            k += 1
        raise Violation("{}: {} name lines for {} variables; first difference at position {}: got {} expected {}".format(
            where, len(got), len(want), k + 1, got[k:k + 3], want[k:k + 3]))


def check_renderings(F, clsname, model, exp_default, where):
    """--varnames writers (library path) and the LaTeX literal table."""
    formats = ['dimacs', 'opb'] if clsname == 'CNF' else ['opb']
    for fmt in formats:
        buf = io.StringIO()
        F.to_file(buf, fileformat=fmt, export_header=(model.nv % 2 == 0), export_varnames=True)
        if fmt == 'dimacs':
            _check_varname_lines(buf.getvalue(), _DIMACS_VN, 'c', exp_default, where + " written as DIMACS with names")
        else:
            _check_varname_lines(buf.getvalue(), _OPB_VN, '*', exp_default, where + " written as OPB with names")
    # LaTeX: one unit clause per literal, names read back from the rows
    names_tex = list(F.all_variable_labels(default_label_format='x_{}'))
    exp_tex = gr.expected_names(F, model, 'x_{}', names_tex, where + " (default format 'x_{}' of the LaTeX writer)")
    nv = model.nv
    if nv == 0 or nv > 60:
        return
    start = len(F)
    for v in range(1, nv + 1):
        F.add_clause([v], check=False)
        F.add_clause([-v], check=False)
    doc = rd_latex.read_latex(F.to_latex())
    if doc.errors:
        raise Violation("{}: the LaTeX output cannot be read: {}".format(where, doc.errors[:3]))
    rows = [r for b in doc.blocks for r in b]
    rows = rows[start:]
    if len(rows) != 2 * nv:
        raise Violation("{}: {} LaTeX rows for {} unit clauses".format(where, len(rows), 2 * nv))
    for v in range(1, nv + 1):
        for neg, row in ((False, rows[2 * v - 2]), (True, rows[2 * v - 1])):
            if row.kind == 'clause':
                lits = row.lits
            elif row.kind == 'constraint':
                lits = [(n, s) for (_c, n, s) in row.terms]
            else:
                lits = None
            want = [(rd_latex.norm_name(exp_tex[v - 1]), neg)]
            if lits != want:
                raise Violation("{}: LaTeX row of the unit clause [{}] reads {} (from {!r}), expected {}".format(
                    where, -v if neg else v, lits, row.text.strip(), want))


# ---------------------------------------------------------------------------
# one group

def _graph_classes(spec):
    g = spec.get('graph')
    if g is None:
        return set()
    out = set()
    sizes = [g['L'], g['R']] if 'L' in g else [g['n']]
    if min(sizes) == 0:
        out.add('graph-with-an-empty-vertex-set')
    if not g['edges']:
        out.add('graph-without-edges')
    touched = [set(e[0] for e in g['edges']), set(e[1] for e in g['edges'])]
    if 'L' in g:
        iso = len(touched[0]) < g['L'] or len(touched[1]) < g['R']
    else:
        iso = len(touched[0] | touched[1]) < g['n']
    if iso and g['edges']:
        out.add('isolated-vertex')
    if spec['kind'] == 'digraph_edges':
        if any(u == v for u, v in g['edges']):
            out.add('loop')
        out.add('sortby-' + str(spec.get('sortby', 'omitted')))
    if g.get('as') == 'networkx':
        out.add('networkx-graph')
    return out


def run_group(case):
    clsname = case['cls']
    F = _mk(clsname)
    model = gr.Model()
    pre = case.get('pre', 0)
    if pre:
        if case.get('pre_how') == 'clause':
            F.add_clause([-pre])
        else:
            F.update_variable_number(pre)
        model.nv = pre
    ref = gr.Ref(case['spec'])
    labels = set([clsname, ref.kind])
    where = "{} with {} anonymous variables".format(clsname, pre)
    if ref.invalid:
        try:
            ref.create(F)
        except ValueError:
            names = list(F.all_variable_labels())
            gr.expected_names(F, model, 'x{}', names, where + " after the refused " + ref.describe())
            return Outcome(labels=sorted(labels | {'rejected-creation'}), nontrivial=False, rejected=True)
        raise Violation("{}: {} was not refused with ValueError".format(where, ref.describe()))
    g = ref.create(F)
    rec = model.add_group(ref, g)
    if F.number_of_variables() != model.nv:
        raise Violation("{}: after {} the formula has {} variables, expected {} + {}".format(
            where, ref.describe(), F.number_of_variables(), pre, ref.N))
    labels |= gr.check_group(F, g, ref, rec['first'], where)
    if ref.N == 0:
        labels.add('empty-group')
    if ref.label is None:
        labels.add('default-label')
    if pre and ref.N:
        labels.add('named-after-anonymous')
    labels |= _graph_classes(case['spec'])
    post = case.get('post') or 'none'
    if post in ('anonymous', 'both'):
        F.update_variable_number(model.nv + 2)
        model.nv += 2
    if post in ('variable', 'both'):
        zref = gr.Ref({'kind': 'variable', 'label': 'Z'})
        z = zref.create(F)
        zrec = model.add_group(zref, z)
        gr.check_group(F, z, zref, zrec['first'], where + " after " + ref.describe())
        if post == 'both' and ref.N:
            labels.add('gap-between-groups')
    if post != 'none':
        # the group must still answer, and refuse the identifiers that came later
        gr.check_group(F, g, ref, rec['first'], where + ", after later variables", deep=False)
    names = list(F.all_variable_labels())
    exp = gr.expected_names(F, model, 'x{}', names, where + " after " + ref.describe())
    fmt = case.get('fmt')
    if fmt:
        names2 = list(F.all_variable_labels(default_label_format=fmt))
        gr.expected_names(F, model, fmt, names2, "{} after {} with default format {!r}".format(where, ref.describe(), fmt))
        labels.add('custom-default-format')
    if case.get('render'):
        check_renderings(F, clsname, model, exp, where + " after " + ref.describe())
        labels.add('rendered')
    return Outcome(labels=sorted(labels), nontrivial=(ref.N >= 2 and pre > 0))


# ---------------------------------------------------------------------------
# histories

# ['insert', method, payload, extra, check, container]: the constraint builders, which may mention variables that no
# group and no update_variable_number has introduced.  payload: literals (most methods), list of clauses
# (add_clauses_from), [[coefficient, literal], ...] (add_constraint) or a list of [terms, relation, constant]
# (add_constraints_from); extra: the constant of add_parity, [operator, constant] of add_linear, the value of
# cardinality_*, [relation, constant] of add_constraint, None otherwise; container: how the literals are handed over.
LINEAR_OPERATORS = ['>=', '<=', '==', '!=', '<', '>']
_LITERAL_BUILDERS = ['add_parity', 'cardinality_eq', 'cardinality_neq', 'cardinality_leq', 'cardinality_geq',
                     'add_loose_majority', 'add_strict_majority', 'add_loose_minority', 'add_strict_minority']
INSERT_METHODS = {
    'CNF': ['add_clauses_from', 'add_linear'] + _LITERAL_BUILDERS,
    'OPB': ['add_clauses_from', 'add_constraint', 'add_constraints_from'] + _LITERAL_BUILDERS,
}
INSERT_TAGS = {
    'CNF': ['add_clauses_from'] + ['add_linear' + o for o in LINEAR_OPERATORS] + _LITERAL_BUILDERS,
    'OPB': ['add_clauses_from', 'add_constraints_from'] + ['add_constraint' + o for o in ['>=', '<=', '==', '<', '>']] + _LITERAL_BUILDERS,
}
CONTAINERS = ['list', 'tuple', 'generator']


def insert_tag(method, extra):
    return method + extra[0] if method in ('add_linear', 'add_constraint') else method


def insert_literals(method, payload):
    if method == 'add_clauses_from':
        return [l for c in payload for l in c]
    if method == 'add_constraint':
        return [l for _c, l in payload]
    if method == 'add_constraints_from':
        return [l for terms, _r, _d in payload for _c, l in terms]
    return list(payload)


def _handed(seq, cont):
    if cont == 'tuple':
        return tuple(seq)
    if cont == 'generator':
        return (x for x in list(seq))
    return list(seq)


def insert_arguments(method, payload, extra, cont):
    if method == 'add_clauses_from':
        return [_handed([list(c) for c in payload], cont)]
    if method == 'add_constraint':
        return [[(c, l) for c, l in payload] + [extra[0], extra[1]]]
    if method == 'add_constraints_from':
        return [_handed([[(c, l) for c, l in terms] + [rel, d] for terms, rel, d in payload], cont)]
    lits = _handed(payload, cont)
    if method == 'add_linear':
        return [lits, extra[0], extra[1]]
    if method in ('add_parity', 'cardinality_eq', 'cardinality_neq', 'cardinality_leq', 'cardinality_geq'):
        return [lits, extra]
    return [lits]


def make_insert(tag, lits, value, chk, cont):
    """the operation for one of INSERT_TAGS on the literals `lits` (constant / value `value` where there is one)"""
    for method in ('add_linear', 'add_constraint'):
        if tag.startswith(method) and tag != 'add_constraints_from':
            rel = tag[len(method):]
            if method == 'add_linear':
                return ['insert', method, list(lits), [rel, value], chk, cont]
            return ['insert', method, [[1 + j % 3, l] for j, l in enumerate(lits)], [rel, value], chk, 'list']
    if tag == 'add_clauses_from':
        lits = list(lits)
        return ['insert', tag, [lits[:1], lits[1:], lits], None, chk, cont]
    if tag == 'add_constraints_from':
        lits = list(lits)
        return ['insert', tag, [[[[1, l] for l in lits[:2]], '>=', 1], [[[2, l] for l in lits[1:]], '==', value]], None, chk, cont]
    if tag == 'add_parity':
        return ['insert', tag, list(lits), value % 2, chk, cont]
    if tag.startswith('cardinality_'):
        return ['insert', tag, list(lits), value, chk, cont]
    return ['insert', tag, list(lits), None, chk, cont]


def run_history(case):
    clsname = case['cls']
    F = _mk(clsname)
    model = gr.Model()
    labels = set([clsname])
    nonempty_groups = 0
    pending_tags = set()        # builders that brought new variables into existence since the last non-empty group
    for step, op in enumerate(case['ops']):
        name = op[0]
        where = "{} history, step {}".format(clsname, step)
        if name == 'group':
            ref = gr.Ref(op[1])
            where += " " + ref.describe()
            if ref.invalid:
                try:
                    ref.create(F)
                except ValueError:
                    labels.add('rejected-creation')
                else:
                    raise Violation("{} was not refused with ValueError".format(where))
            else:
                had_anonymous = len(model.owner()) < model.nv
                g = ref.create(F)
                rec = model.add_group(ref, g)
                if F.number_of_variables() != model.nv:
                    raise Violation("{}: the formula has {} variables afterwards, expected {}".format(
                        where, F.number_of_variables(), model.nv))
                labels |= gr.check_group(F, g, ref, rec['first'], where)
                labels.add(ref.kind)
                if ref.kind == 'digraph_edges':
                    labels.add('sortby-' + ref.sortby)
                if ref.N == 0:
                    labels.add('empty-group')
                else:
                    nonempty_groups += 1
                    for tag in pending_tags:
                        labels.add('group-after-builder-variables')
                        labels.add('group-after:' + tag)
                    pending_tags.clear()
                    if had_anonymous:
                        labels.add('named-after-anonymous')
                        if ref.kind == 'variable':
                            labels.add('variable-after-anonymous')
                if ref.label is None:
                    labels.add('default-label')
        elif name == 'add_clause':
            lits, chk = list(op[1]), bool(op[2])
            top = max([abs(l) for l in lits] + [0])
            if not chk and top > model.nv:
                labels.add('precondition-skip')
                continue
            F.add_clause(lits, check=chk)
            if chk and top > model.nv:
                model.nv = top
                labels.add('clause-raises-count')
            where += " add_clause({}, check={})".format(lits, chk)
        elif name == 'add_constraint':
            if clsname != 'OPB':
                labels.add('operation-not-offered')
                continue
            terms, rel, d = op[1], op[2], op[3]
            F.add_constraint([(c, l) for c, l in terms] + [rel, d])
            top = max([abs(l) for _c, l in terms] + [0])
            if top > model.nv:
                model.nv = top
                labels.add('constraint-raises-count')
            where += " add_constraint({} {} {})".format(terms, rel, d)
        elif name == 'insert':
            method, payload, extra, chk, cont = op[1], op[2], op[3], bool(op[4]), op[5]
            tag = insert_tag(method, extra)
            if method not in INSERT_METHODS[clsname]:
                labels.add('operation-not-offered')
                continue
            top = max([abs(l) for l in insert_literals(method, payload)] + [0])
            if not chk and top > model.nv:
                labels.add('precondition-skip')
                continue
            args = insert_arguments(method, payload, extra, cont)
            where += " {}({}, check={}) [literals given as {}]".format(
                method, ', '.join(repr(a) for a in insert_arguments(method, payload, extra, 'list')), chk, cont)
            getattr(F, method)(*args, check=chk)
            labels.add('insert:' + tag)
            labels.add('literals-as-' + cont)
            if chk and top > model.nv:
                labels.add('insert-raises-count')
                labels.add('raises-count:' + tag)
                pending_tags.add(tag)
                model.nv = top
        elif name == 'update_variable_number':
            k = op[1]
            where += " update_variable_number({})".format(k)
            if k < 0:
                try:
                    F.update_variable_number(k)
                except ValueError:
                    labels.add('rejected-update')
                else:
                    raise Violation("{} was not refused with ValueError".format(where))
            else:
                F.update_variable_number(k)
                if k > model.nv:
                    model.nv = k
                    labels.add('update-raises-count')
                else:
                    labels.add('update-without-effect')
        else:
            raise ValueError("unknown operation {!r}".format(name))
        names = list(F.all_variable_labels())
        gr.expected_names(F, model, 'x{}', names, where)
    # ---- at the end
    where = "{} history after {} steps".format(clsname, len(case['ops']))
    firsts = [rec['first'] for rec in model.groups if rec['ref'].N]
    for rec in model.groups:
        gr.check_group(F, rec['g'], rec['ref'], rec['first'], "at the end of the history", deep=True)
        if rec['ref'].kind != 'variable':
            lo, hi = rec['first'], rec['first'] + rec['ref'].N
            for v in firsts:
                if not (lo <= v < hi):
                    for lit in (v, -v):
                        gr.must_refuse("{}: to_index({}), an identifier of another group,".format(
                            rec['ref'].describe(), lit), lambda: rec['g'].to_index(lit))
                    labels.add('foreign-identifier-refused')
    names = list(F.all_variable_labels())
    exp = gr.expected_names(F, model, 'x{}', names, where)
    fmt = case.get('fmt')
    if fmt:
        names2 = list(F.all_variable_labels(default_label_format=fmt))
        gr.expected_names(F, model, fmt, names2, where + " with default format {!r}".format(fmt))
        labels.add('custom-default-format')
    anonymous = model.anonymous()
    own = model.owner()
    if anonymous and own:
        if any(min(own) < v < max(own) for v in anonymous):
            labels.add('gap-between-groups')
        if max(anonymous) > max(own):
            labels.add('anonymous-tail')
        if min(anonymous) < min(own):
            labels.add('anonymous-head')
    check_renderings(F, clsname, model, exp, where)
    if 0 < model.nv <= 60:
        labels.add('rendered')
    nontrivial = bool(anonymous) and nonempty_groups >= 2
    return Outcome(labels=sorted(labels), nontrivial=nontrivial)


# ---------------------------------------------------------------------------
# generators

_INT = st.integers(0, 10 ** 6)
_BOOL = st.booleans()
_BIP = gg.bipartite_graphs(Lmax=4, Rmax=4, kinds=('cnfgen',))
_BIP_SMALL = gg.bipartite_graphs(Lmax=3, Rmax=3, kinds=('cnfgen',))
_SIMPLE = gg.simple_graphs(nmax=6)
_SIMPLE_SMALL = gg.simple_graphs(nmax=4)
_DIG = gg.digraphs(nmax=4, kinds=('cnfgen',), loops=True)
_DIG_SMALL = gg.digraphs(nmax=3, kinds=('cnfgen',), loops=True)
_LITS = st.lists(st.tuples(_INT, _BOOL), min_size=0, max_size=4)

DEFAULT_FORMATS = [None, None, 'y[{}]', 'v_{{{}}}', 'x{}', '{}']


def _pick(draw, seq):
    return seq[draw(_INT) % len(seq)]


def label_styles(kind, tag, arity=None):
    if kind == 'variable':
        return [tag, tag + '_{1}', tag + "'", 'x1', tag + ' b']
    if kind in gr.WORD_KINDS:
        return [tag + '_{{{}}}', tag + '({})', tag + '[{}]', None]
    if kind == 'block':
        ph = ['{}'] * arity
        return [tag + '_{{' + ','.join(ph) + '}}', tag + '(' + ','.join(ph) + ')',
                tag + '[' + ';'.join(ph) + ']', None]
    return [tag + '_{{{},{}}}', tag + '({},{})', tag + '({})={}', tag + '_{{{0}{1}}}',
            tag + '[{} -> {}]', None]


def _reorder(draw, edges):
    """The order in which the edges are inserted must not matter."""
    mode = draw(_INT) % 3
    if mode == 0 or len(edges) < 2:
        return edges
    if mode == 1:
        return edges[::-1]
    r = draw(_INT) % len(edges)
    return edges[r:] + edges[:r]


def _draw_spec(draw, kind, tag, small, allow_invalid=True):
    bad = allow_invalid and draw(_INT) % 25 == 0
    spec = {'kind': kind}
    if kind == 'variable':
        spec['label'] = _pick(draw, label_styles(kind, tag))
        return spec
    if kind == 'block':
        a = 1 + draw(_INT) % (3 if small else 4)
        top = 3 if small else 4
        rs = [draw(_INT) % (top + 1) for _ in range(a)]
        if bad:
            if draw(_BOOL):
                rs[draw(_INT) % a] = -1 - draw(_INT) % 2
            else:
                rs, a = [], 0
        spec['ranges'] = rs
        spec['label'] = _pick(draw, label_styles(kind, tag, a))
        return spec
    if kind in gr.WORD_KINDS:
        n = draw(_INT) % (5 if small else 6)
        k = draw(_INT) % 4
        if kind == 'words' and small and n ** k > 64:
            k = 2
        if kind == 'permutations' and draw(_INT) % 4 == 0 and n <= 4:
            k = None
        if bad:
            if draw(_BOOL) or k is None:
                n = -1
            else:
                k = -1
        spec['n'], spec['k'] = n, k
        spec['label'] = _pick(draw, label_styles(kind, tag))
        return spec
    if kind in ('bipartite_edges', 'sparse_mapping'):
        g = dict(draw(_BIP_SMALL if small else _BIP))
        g['edges'] = _reorder(draw, g['edges'])
        spec['graph'] = g
    elif kind == 'graph_edges':
        g = dict(draw(_SIMPLE_SMALL if small else _SIMPLE))
        g['edges'] = _reorder(draw, g['edges'])
        if draw(_BOOL):
            g['edges'] = [[v, u] for u, v in g['edges']]
        spec['graph'] = g
    elif kind == 'digraph_edges':
        g = dict(draw(_DIG_SMALL if small else _DIG))
        g['edges'] = _reorder(draw, g['edges'])
        spec['graph'] = g
        m = draw(_INT) % 5
        if m < 2:
            spec['sortby'] = 'pred'
        elif m < 4:
            spec['sortby'] = 'succ'
        if bad:
            spec['sortby'] = 'vertex'
    elif kind == 'mapping':
        spec['n'], spec['m'] = draw(_INT) % 5, draw(_INT) % 5
        if bad:
            spec['n' if draw(_BOOL) else 'm'] = -1
    elif kind == 'binary_mapping':
        spec['n'], spec['m'] = draw(_INT) % 5, draw(_INT) % (10 if small else 18)
        if bad:
            spec['n' if draw(_BOOL) else 'm'] = -1
    else:
        raise ValueError(kind)
    spec['label'] = _pick(draw, label_styles(kind, tag))
    return spec


def _direct_strategy(kinds, unlabeled=False):
    @st.composite
    def strat(draw):
        kind = _pick(draw, kinds)
        spec = _draw_spec(draw, kind, 'g', small=False)
        if unlabeled:
            spec['label'] = None
        return {'cls': _pick(draw, ['CNF', 'OPB']), 'pre': draw(_INT) % 5,
                'pre_how': _pick(draw, ['update', 'clause']), 'spec': spec,
                'post': _pick(draw, ['none', 'variable', 'anonymous', 'both']),
                'fmt': _pick(draw, DEFAULT_FORMATS), 'render': draw(_INT) % 4 == 0}

    def make():
        return strat()
    return make


def _wrap(k, spec):
    """Deterministic variation of the surroundings for enumerated shapes."""
    return {'cls': ['CNF', 'OPB'][k % 2], 'pre': [0, 1, 3, 0, 2][k % 5],
            'pre_how': ['update', 'clause'][(k // 2) % 2], 'spec': spec,
            'post': ['none', 'variable', 'both', 'anonymous'][k % 4],
            'fmt': DEFAULT_FORMATS[k % len(DEFAULT_FORMATS)], 'render': k % 3 == 0}


def enum_variable(labelled):
    def gen(tier):
        k = 0
        labs = label_styles('variable', 'X') if labelled else [None]
        for cls in ('CNF', 'OPB'):
            for pre in range(0, 5):
                for how in ('update', 'clause'):
                    for post in ('none', 'variable', 'anonymous', 'both'):
                        for lab in labs:
                            k += 1
                            yield {'cls': cls, 'pre': pre, 'pre_how': how,
                                   'spec': {'kind': 'variable', 'label': lab}, 'post': post,
                                   'fmt': DEFAULT_FORMATS[k % len(DEFAULT_FORMATS)], 'render': True}
    return gen


def enum_block(tier):
    maxa = 3 if tier == 'quick' else 4
    k = 0
    for a in range(1, maxa + 1):
        for rs in itertools.product(range(0, 5), repeat=a):
            k += 1
            styles = label_styles('block', 'b', a)
            yield _wrap(k, {'kind': 'block', 'ranges': list(rs), 'label': styles[k % len(styles)]})
    yield _wrap(1, {'kind': 'block', 'ranges': [], 'label': None})
    yield _wrap(2, {'kind': 'block', 'ranges': [2, -1], 'label': 'b({},{})'})
    yield _wrap(3, {'kind': 'block', 'ranges': [-2], 'label': None})


def enum_words(kinds):
    def gen(tier):
        k = 0
        for kind in kinds:
            for n in range(-1, 6):
                ks = [-1, 0, 1, 2, 3] + ([None] if kind == 'permutations' else [])
                for kk in ks:
                    for rep in range(2):
                        k += 1
                        styles = label_styles(kind, 'w')
                        yield _wrap(k, {'kind': kind, 'n': n, 'k': kk, 'label': styles[k % len(styles)]})
    return gen


def enum_edges(tier):
    k = 0
    lim = 2 if tier == 'quick' else 3
    for g in gg.all_bipartite_graphs(lim, lim):
        k += 1
        styles = label_styles('bipartite_edges', 'e')
        yield _wrap(k, {'kind': 'bipartite_edges', 'graph': g, 'label': styles[k % len(styles)]})
    for g in gg.all_simple_graphs(4):
        for kind in ('cnfgen', 'networkx'):
            k += 1
            styles = label_styles('graph_edges', 'e')
            yield _wrap(k, {'kind': 'graph_edges', 'graph': dict(g, **{'as': kind}),
                            'label': styles[k % len(styles)]})
    for g in gg.all_digraphs(2 if tier == 'quick' else 3, loops=True):
        for sortby in ('pred', 'succ', None):
            k += 1
            styles = label_styles('digraph_edges', 'd')
            spec = {'kind': 'digraph_edges', 'graph': g, 'label': styles[k % len(styles)]}
            if sortby:
                spec['sortby'] = sortby
            yield _wrap(k, spec)
    yield _wrap(1, {'kind': 'digraph_edges', 'graph': {'n': 2, 'edges': [[1, 2]]}, 'sortby': 'vertex', 'label': None})


def enum_mappings(tier):
    k = 0
    for n in range(-1, 5):
        for m in range(-1, 5):
            k += 1
            styles = label_styles('mapping', 'f')
            yield _wrap(k, {'kind': 'mapping', 'n': n, 'm': m, 'label': styles[k % len(styles)]})
    for n in range(-1, 5):
        for m in range(-1, 18):
            k += 1
            styles = label_styles('binary_mapping', 'v')
            yield _wrap(k, {'kind': 'binary_mapping', 'n': n, 'm': m, 'label': styles[k % len(styles)]})
    lim = 2 if tier == 'quick' else 3
    for g in gg.all_bipartite_graphs(lim, lim):
        k += 1
        styles = label_styles('sparse_mapping', 'f')
        yield _wrap(k, {'kind': 'sparse_mapping', 'graph': g, 'label': styles[k % len(styles)]})


# histories ------------------------------------------------------------------

_H_WEIGHTS = (['group'] * 9 + ['variable'] * 4 + ['clause'] * 4 + ['update'] * 3 + ['constraint'] + ['insert'] * 6)
_H_KINDS = ['block', 'block'] + list(gr.WORD_KINDS) + list(gr.EDGE_KINDS) + list(gr.MAP_KINDS)


@st.composite
def _history(draw, clsname, max_steps):
    nsteps = draw(_INT) % (max_steps + 1)
    ops = []
    nv = 0
    tagno = 0
    for _ in range(nsteps):
        what = _pick(draw, _H_WEIGHTS)
        if nv > 150 and what == 'group':
            what = 'variable'
        if what in ('group', 'variable'):
            tagno += 1
            kind = 'variable' if what == 'variable' else _pick(draw, _H_KINDS)
            spec = _draw_spec(draw, kind, 'abcdefgh'[tagno % 8] + str(tagno), small=True)
            if kind == 'variable' and draw(_INT) % 6 == 0:
                spec['label'] = None
            ops.append(['group', spec])
            nv += gr.Ref(spec).N
        elif what == 'clause' or (what == 'constraint' and clsname != 'OPB'):
            chk = draw(_INT) % 4 != 0
            top = nv + 3 if chk else nv
            lits = []
            if top >= 1:
                for a, s in draw(_LITS):
                    v = 1 + a % top
                    lits.append(-v if s else v)
            ops.append(['add_clause', lits, chk])
            if chk and lits:
                nv = max(nv, max(abs(l) for l in lits))
        elif what == 'insert':
            # a constraint builder on 0..5 literals, mostly reaching beyond the current count
            tag = _pick(draw, INSERT_TAGS[clsname])
            chk = draw(_INT) % 5 != 0
            top = nv + 3 if chk else nv
            lits = []
            if top >= 1:
                seen_vars = set()
                for a, s in draw(_LITS) + draw(_LITS)[:1]:
                    v = 1 + a % top
                    if chk and a % 3 == 0:
                        v = nv + 1 + a % 3          # one of the never-seen variables
                    if v in seen_vars:
                        continue
                    seen_vars.add(v)
                    lits.append(-v if s else v)
            value = draw(_INT) % (len(lits) + 3) - 1
            ops.append(make_insert(tag, lits, value, chk, _pick(draw, CONTAINERS)))
            if chk and lits:
                nv = max(nv, max(abs(l) for l in lits))
        elif what == 'constraint':
            terms = [[1 + a % 5, (-(1 + a % (nv + 2)) if s else 1 + a % (nv + 2))] for a, s in draw(_LITS)]
            ops.append(['add_constraint', terms, _pick(draw, ['>=', '==']), draw(_INT) % 4])
            if terms:
                nv = max(nv, max(abs(l) for _c, l in terms))
        else:
            k = draw(_INT) % (nv + 4) - (1 if draw(_INT) % 10 == 0 else 0)
            if draw(_INT) % 12 == 0:
                k = -1
            ops.append(['update_variable_number', k])
            nv = max(nv, k)
    return {'cls': clsname, 'ops': ops, 'fmt': _pick(draw, DEFAULT_FORMATS)}


def _history_strategy(clsname):
    def make():
        steps = 14 if _tier() == 'quick' else 30
        return st.one_of(_history(clsname, 5), _history(clsname, steps), _history(clsname, steps))
    return make


def enum_history(clsname):
    """Every history of length <= 3 over a small alphabet (creation of one group of every kind,
    unlabelled and labelled variable, clause that raises the count, update)."""
    G3 = {'n': 3, 'edges': [[1, 3], [2, 3]]}
    alphabet = [
        ['group', {'kind': 'variable', 'label': 'X'}],
        ['group', {'kind': 'variable', 'label': None}],
        ['group', {'kind': 'block', 'ranges': [2, 2], 'label': 'b({},{})'}],
        ['group', {'kind': 'block', 'ranges': [2, 0], 'label': 'z({},{})'}],
        ['group', {'kind': 'combinations', 'n': 3, 'k': 2, 'label': 'c[{}]'}],
        ['group', {'kind': 'combinations_with_replacement', 'n': 2, 'k': 2, 'label': 'r[{}]'}],
        ['group', {'kind': 'permutations', 'n': 2, 'k': None, 'label': None}],
        ['group', {'kind': 'words', 'n': 2, 'k': 0, 'label': 'w[{}]'}],
        ['group', {'kind': 'bipartite_edges', 'graph': {'L': 2, 'R': 2, 'edges': [[2, 1], [1, 2]]}, 'label': 'e({},{})'}],
        ['group', {'kind': 'graph_edges', 'graph': dict(G3, **{'as': 'cnfgen'}), 'label': 'E_{{{},{}}}'}],
        ['group', {'kind': 'digraph_edges', 'graph': {'n': 3, 'edges': [[3, 1], [1, 2], [2, 2]]}, 'sortby': 'succ',
                   'label': 'd({},{})'}],
        ['group', {'kind': 'mapping', 'n': 2, 'm': 2, 'label': None}],
        ['group', {'kind': 'sparse_mapping', 'graph': {'L': 2, 'R': 3, 'edges': [[1, 3], [2, 1]]}, 'label': 'f({})={}'}],
        ['group', {'kind': 'binary_mapping', 'n': 2, 'm': 3, 'label': 'v({},{})'}],
        ['group', {'kind': 'binary_mapping', 'n': 2, 'm': 1, 'label': 'u({},{})'}],
        ['add_clause', [-2], True],
        ['add_clause', [1], False],
        ['update_variable_number', 3],
        ['update_variable_number', 0],
    ]

    def gen(tier):
        maxlen = 2 if tier == 'quick' else 3
        k = 0
        for length in range(0, maxlen + 1):
            for seq in itertools.product(alphabet, repeat=length):
                k += 1
                ops = []
                # the clause and update operations are relative to the count reached so far
                nv = 0
                for op in seq:
                    if op[0] == 'add_clause' and op[2]:
                        op = ['add_clause', [-(nv + 2)], True]
                        nv += 2
                    elif op[0] == 'add_clause':
                        op = ['add_clause', [nv] if nv else [], False]
                    elif op[0] == 'update_variable_number' and op[1]:
                        op = ['update_variable_number', nv + 3]
                        nv += 3
                    elif op[0] == 'group':
                        nv += gr.Ref(op[1]).N
                    ops.append(op)
                yield {'cls': clsname, 'ops': ops, 'fmt': DEFAULT_FORMATS[k % len(DEFAULT_FORMATS)]}
        # every builder that may mention never-seen variables, followed by the creation of every group of the
        # alphabet: on a fresh formula, after a group, after a group and an anonymous variable
        groups = [op for op in alphabet if op[0] == 'group']
        tags = INSERT_TAGS[clsname]
        for t, tag in enumerate(tags):
            for gi, gop in enumerate(groups):
                for shape in ([(t + gi + j) % 6 for j in (0, 2, 4)] if tier == 'quick' else range(6)):
                    k += 1
                    first = groups[(gi + t + 1 + shape) % len(groups)]
                    prefix = [[], [first], [first, ['update_variable_number', gr.Ref(first[1]).N + 2]],
                              [['update_variable_number', 4]], [first, groups[(gi + 2 * t) % len(groups)]],
                              [['add_clause', [-3], True], first]][shape]
                    nv = 0
                    for op in prefix:
                        nv = nv + gr.Ref(op[1]).N if op[0] == 'group' else max(nv, max(abs(x) for x in (op[1] if op[0] == 'add_clause' else [op[1]])))
                    # literals: variables nv+1 and nv+3 are new (nv+2 is never mentioned but must exist afterwards)
                    lits = ([-1] if nv and k % 2 else []) + [nv + 3, -(nv + 1)] + ([nv] if nv > 1 and k % 3 == 0 else [])
                    if k % 5 == 0:
                        lits.reverse()
                    value = [1, 1, 0, 2, len(lits)][k % 5]
                    ops = list(prefix) + [make_insert(tag, lits, value, True, CONTAINERS[k % 3])]
                    if shape >= 3 and k % 2:
                        # the same builder once more, check=False on the variables that exist by now
                        ops.append(make_insert(tag, [nv + 2, -(nv + 3)], 1, False, CONTAINERS[(k + 1) % 3]))
                    ops.append(gop)
                    if k % 4 == 0:
                        ops.append(groups[(gi + 5) % len(groups)])
                    yield {'cls': clsname, 'ops': ops, 'fmt': DEFAULT_FORMATS[k % len(DEFAULT_FORMATS)]}
    return gen


# ---------------------------------------------------------------------------
# command line

def _fam_names(case):
    """(argv tail, expected names or None, edge prefix or None)"""
    fam, a = case['family'], case['args']
    comb2 = lambda n: list(itertools.combinations(range(1, n + 1), 2))
    if fam == 'php':
        m, n = a
        return ['php', m, n], ['p_{{{},{}}}'.format(i, j) for i in range(1, m + 1) for j in range(1, n + 1)], None
    if fam == 'op':
        n, = a
        return ['op', n], ['x_{{{},{}}}'.format(i, j) for i, j in itertools.permutations(range(1, n + 1), 2)], None
    if fam == 'ram':
        k, s, N = a
        return ['ram', k, s, N], ['e_{{{},{}}}'.format(i, j) for i, j in comb2(N)], None
    if fam == 'cliquecoloring':
        n, k, c = a
        names = ['e_{{{},{}}}'.format(i, j) for i, j in comb2(n)]
        names += ['q_{{{},{}}}'.format(i, j) for i in range(1, k + 1) for j in range(1, n + 1)]
        names += ['r_{{{},{}}}'.format(i, j) for i in range(1, n + 1) for j in range(1, c + 1)]
        return ['cliquecoloring', n, k, c], names, None
    if fam == 'vdw':
        N, ks = a[0], a[1:]
        if len(ks) == 2:
            names = ['x_{{{}}}'.format(i) for i in range(1, N + 1)]
        else:
            names = ['x_{{{},{}}}'.format(i, j) for i in range(1, N + 1) for j in range(1, len(ks) + 1)]
        return ['vdw', N] + list(ks), names, None
    if fam == 'bphp':
        m, n = a
        bits = gr.bits_for(n)
        return ['bphp', m, n], ['v({},{})'.format(i, b) for i in range(1, m + 1) for b in range(bits - 1, -1, -1)], None
    if fam == 'kcolor':
        k, n = a
        return ['kcolor', k, 'complete', n], ['x_{{{}{}}}'.format(v, c) for v in range(1, n + 1) for c in range(1, k + 1)], None
    if fam == 'peb':
        h, = a
        return ['peb', 'pyramid', h], ['x({})'.format(i) for i in range(1, (h + 1) * (h + 2) // 2 + 1)], None
    if fam == 'tseitin-complete':
        n, = a
        return ['tseitin', 'random', 'complete', n], ['E_{{{},{}}}'.format(i, j) for i, j in comb2(n)], None
    if fam == 'tseitin-gnp':
        n, = a
        return ['tseitin', 'first', 'gnp', n, '.5'], None, 'E'
    if fam == 'tseitin-gnm':
        n, = a
        return ['tseitin', 'first', 'gnm', n, min(n * (n - 1) // 2, n + 1)], None, 'E'
    raise ValueError(fam)


_EDGE_NAME = re.compile(r'^([A-Za-z]+)_\{(\d+),(\d+)\}$')


def run_cli(case):
    from vlib import cli
    tool = case['tool']
    tail, want, edge_prefix = _fam_names(case)
    opts = list(case.get('opts', []))
    argv = opts + ['--varnames'] + [str(x) for x in tail]
    random.seed(case['rseed'])
    res = cli.run_main(tool, argv)
    if res.exc is not None:
        raise res.exc
    if res.code != 0:
        raise Violation("{} {} exits with status {}: {}".format(tool, ' '.join(argv), res.code, res.err[-300:]))
    opb = tool == 'pbgen' or 'opb' in opts
    rx, marker = (_OPB_VN, '*') if opb else (_DIMACS_VN, 'c')
    got = []
    nvars = None
    for line in res.out.split('\n'):
        if line.startswith(marker + ' varname'):
            m = rx.match(line)
            if m is None:
                raise Violation("{} {}: malformed name line {!r}".format(tool, ' '.join(argv), line))
            got.append((int(m.group(1)), m.group(2)))
        elif line.startswith('p cnf '):
            nvars = int(line.split()[2])
        elif line.startswith('* #variable='):
            nvars = int(line.split()[2])
    where = "{} {}".format(tool, ' '.join(argv))
    if nvars is None:
        raise Violation("{}: no size line in the output".format(where))
    if [v for v, _ in got] != list(range(1, nvars + 1)):
        raise Violation("{}: the name lines are numbered {} for {} variables".format(where, [v for v, _ in got][:20], nvars))
    names = [n for _, n in got]
    labels = [tool, case['family'], 'opb-names' if opb else 'dimacs-names']
    if want is not None:
        if names != want:
            k = 0
            while k < min(len(names), len(want)) and names[k] == want[k]:
                k += 1
            raise Violation("{}: variable {} is named {!r}, expected {!r} ({} names for {} expected)".format(
                where, k + 1, names[k:k + 1], want[k:k + 1], len(names), len(want)))
    else:
        dec = []
        for n in names:
            m = _EDGE_NAME.match(n)
            if m is None or m.group(1) != edge_prefix:
                raise Violation("{}: name {!r} is not {}_{{u,v}}".format(where, n, edge_prefix))
            dec.append((int(m.group(2)), int(m.group(3))))
        if any(u >= v for u, v in dec) or dec != sorted(set(dec)):
            raise Violation("{}: the edge variables are not in increasing order of (u,v), u<v: {}".format(where, dec))
        labels.append('random-graph')
    # the same names from the formula object built by the same command line
    random.seed(case['rseed'])
    F = cli.build(tool, [str(x) for x in opts] + [str(x) for x in tail])
    lib = list(F.all_variable_labels())
    if lib != names:
        raise Violation("{}: the name lines {} differ from all_variable_labels() of the formula {}".format(
            where, names[:12], lib[:12]))
    return Outcome(labels=labels, nontrivial=len(names) >= 2)


_CLI_FAMILIES = ['php', 'op', 'ram', 'cliquecoloring', 'vdw', 'bphp', 'kcolor', 'peb',
                 'tseitin-complete', 'tseitin-gnp', 'tseitin-gnm']


def _cli_args(draw, fam):
    r = lambda lo, hi: lo + draw(_INT) % (hi - lo + 1)
    if fam == 'php':
        return [r(0, 4), r(0, 4)]
    if fam == 'op':
        return [r(1, 5)]
    if fam == 'ram':
        return [r(2, 3), r(2, 3), r(2, 5)]
    if fam == 'cliquecoloring':
        return [r(2, 4), r(1, 3), r(1, 3)]
    if fam == 'vdw':
        return [r(1, 6)] + [r(2, 3) for _ in range(r(2, 3))]
    if fam == 'bphp':
        return [r(1, 4), r(1, 9)]
    if fam == 'kcolor':
        return [r(1, 3), r(1, 4)]
    if fam == 'peb':
        return [r(0, 3)]
    return [r(2, 6)]


@st.composite
def _cli_strategy(draw):
    fam = _pick(draw, _CLI_FAMILIES)
    tool = _pick(draw, ['cnfgen', 'cnfgen', 'pbgen'])
    opts = []
    if draw(_BOOL):
        opts.append('-q')
    if tool == 'cnfgen' and draw(_INT) % 3 == 0:
        opts += ['-of', 'opb']
    seed = draw(_INT) % 1000
    opts += ['-S', str(seed)]
    return {'tool': tool, 'family': fam, 'args': _cli_args(draw, fam), 'opts': opts, 'rseed': seed}


def enum_cli(tier):
    k = 0
    fixed = {'php': [3, 2], 'op': [3], 'ram': [2, 2, 4], 'cliquecoloring': [3, 2, 2], 'vdw': [4, 2, 2, 2],
             'bphp': [3, 5], 'kcolor': [2, 3], 'peb': [2], 'tseitin-complete': [4], 'tseitin-gnp': [5],
             'tseitin-gnm': [5]}
    for fam in _CLI_FAMILIES:
        for tool in ('cnfgen', 'pbgen'):
            for opts in ([], ['-q'], ['-of', 'opb']):
                if tool == 'pbgen' and '-of' in opts:
                    continue
                k += 1
                yield {'tool': tool, 'family': fam, 'args': fixed[fam], 'opts': opts + ['-S', str(k)], 'rseed': k}


# ---------------------------------------------------------------------------
# large groups (more than 10^4 variables), alone and stacked
#
#   {"cls": "CNF", "pre": 3, "stack": [{"kind": "block", "ranges": [100, 100], "label": ...},
#                                       {"kind": "combinations", "n": 30, "k": 4, "label": ...}],
#    "tail": 2, "rseed": 12345}
#
# The reference enumeration (itertools, vlib/groupref) is still built completely - it is
# cheap - but the group is questioned only on sampled indices: the first and last ones,
# windows of consecutive positions and single positions, all taken from
# random.Random(rseed).  Around every sampled legal index the neighbouring tuples
# (two entries swapped, an entry repeated, 0, n+1 or a negative number in any position,
# an entry moved by one, the reversed tuple, one entry more or less) are classified by
# `legal_index`, a membership predicate written from the definition of the group kind:
# the legal ones must round-trip to their position in the enumeration, the others must
# be refused by g(...), g.indices(...) and g.label(...).

SCALE_WINDOW = 40
SCALE_SINGLES = 60


def legal_index(spec, t):
    """Is the tuple t an index of the group?  (definition of the kind, no enumeration)"""
    kind = spec['kind']
    if any(isinstance(x, bool) or not isinstance(x, int) for x in t):
        return False
    if kind == 'block':
        rs = spec['ranges']
        return len(t) == len(rs) and all(1 <= x <= r for x, r in zip(t, rs))
    n, k = spec['n'], spec['k']
    if k is None:
        k = n
    if len(t) != k or any(not (1 <= x <= n) for x in t):
        return False
    if kind == 'combinations':
        return all(a < b for a, b in zip(t, t[1:]))
    if kind == 'combinations_with_replacement':
        return all(a <= b for a, b in zip(t, t[1:]))
    if kind == 'permutations':
        return len(set(t)) == len(t)
    if kind == 'words':
        return True
    raise ValueError(kind)


def neighbours(spec, idx):
    """Tuples near the legal index idx: [(how, tuple)], legal or not."""
    idx = tuple(idx)
    k = len(idx)
    if spec['kind'] == 'block':
        tops = list(spec['ranges'])
    else:
        tops = [spec['n']] * k
    out = []
    for i in range(k):
        first = 'leading' if i == 0 else 'non-leading'
        if i + 1 < k:
            t = list(idx)
            t[i], t[i + 1] = t[i + 1], t[i]
            out.append(('swapped', tuple(t)))
            t = list(idx)
            t[i + 1] = t[i]
            out.append(('repeated', tuple(t)))
            t = list(idx)
            t[i] = t[i + 1]
            out.append(('repeated', tuple(t)))
        for how, val in (('zero-' + first, 0), ('top+1-' + first, tops[i] + 1), ('negative', -idx[i]),
                         ('plus-one', idx[i] + 1), ('minus-one', idx[i] - 1), ('top', tops[i]), ('one', 1)):
            t = list(idx)
            t[i] = val
            out.append((how, tuple(t)))
    out.append(('reversed', idx[::-1]))
    out.append(('rotated', idx[1:] + idx[:1]))
    out.append(('shorter', idx[:-1]))
    out.append(('shorter', idx[1:]))
    out.append(('longer', idx + idx[-1:]))
    out.append(('longer', idx + (tops[-1],)))
    out.append(('longer', (1,) + idx))
    seen = set()
    uniq = []
    for how, t in out:
        if t != idx and t not in seen and len(t) > 0:
            seen.add(t)
            uniq.append((how, t))
    return uniq


def check_group_sampled(F, g, ref, first, rng, where, windows=3, singles=SCALE_SINGLES, neighbourhood=True):
    """Sampled version of groupref.check_group for large groups; returns labels."""
    seen = set()
    N = ref.N
    spec = ref.spec
    head = "{} ({}, identifiers {}..{})".format(ref.describe(), where, first, first + N - 1)
    if len(g) != N:
        raise Violation("{}: len() is {}, the reference has {} indices".format(head, len(g), N))
    ids = list(g)
    if ids != list(range(first, first + N)):
        bad = [j for j, v in enumerate(ids[:N]) if v != first + j][:1]
        raise Violation("{}: iterating the group gives {} identifiers, not the contiguous range (first difference "
                        "at position {})".format(head, len(ids), bad))
    got_idx = [tuple(t) for t in g.indices()]
    if got_idx != ref.indices:
        j = 0
        while j < min(len(got_idx), N) and got_idx[j] == ref.indices[j]:
            j += 1
        raise Violation("{}: indices() has {} entries and differs from the legal indices in order at position {}: "
                        "{} instead of {}".format(head, len(got_idx), j, got_idx[j:j + 3], ref.indices[j:j + 3]))
    # harness self-check: the predicate agrees with the enumeration on the sampled indices
    positions = []
    W = min(SCALE_WINDOW, N)
    starts = [0, N - W] + [rng.randrange(0, N - W + 1) for _ in range(windows)]
    for s0 in starts:
        positions.extend(range(s0, s0 + W))
    single = [rng.randrange(N) for _ in range(singles)]
    positions.extend(single)
    for pos in positions:
        idx = ref.indices[pos]
        v = first + pos
        assert legal_index(spec, idx), (spec, idx)
        got = g(*idx)
        if got != v or isinstance(got, bool) or not isinstance(got, int):
            raise Violation("{}: index {} -> identifier {!r}, expected {} = {} + position {} in the enumeration".format(
                head, idx, got, v, first, pos))
        for lit in (v, -v):
            back = tuple(g.to_index(lit))
            if back != idx:
                raise Violation("{}: to_index({}) = {} but {} is the identifier of index {}".format(
                    head, lit, back, v, idx))
            if lit not in g:
                raise Violation("{}: `{} in group` is False for an identifier of the group".format(head, lit))
        one = [tuple(t) for t in g.indices(*idx)]
        if one != [idx]:
            raise Violation("{}: indices{} = {} instead of the index itself".format(head, idx, one))
        want = ref.label_of(idx)
        if want is not None:
            lab = g.label(*idx)
            if lab != want:
                raise Violation("{}: label{} = {!r}, the label format gives {!r}".format(head, idx, lab, want))
    seen.add('sampled-windows')
    for s_ in (first - 1, first + N):
        for lit in (s_, -s_):
            if lit != 0 and lit in g:
                raise Violation("{}: `{} in group` is True for an identifier outside the group".format(head, lit))
            if lit != 0:
                gr.must_refuse("{}: to_index({})".format(head, lit), lambda: g.to_index(lit))
    gr.must_refuse("{}: to_index(0)".format(head), lambda: g.to_index(0))
    if not neighbourhood:
        return seen
    centres = [0, N - 1] + single
    for pos in centres:
        idx = ref.indices[pos]
        for how, t in neighbours(spec, idx):
            ok = legal_index(spec, t)
            assert ok == (t in ref.index_set), (spec, t, ok)
            if ok:
                j = _position(ref, t)
                got = g(*t)
                if got != first + j:
                    raise Violation("{}: index {} ({} from {}) -> identifier {!r}, expected {}".format(
                        head, t, how, idx, got, first + j))
                back = tuple(g.to_index(got))
                if back != t:
                    raise Violation("{}: to_index({}) = {} but {} is the identifier of index {}".format(
                        head, got, back, got, t))
                seen.add('legal-neighbour')
            else:
                what = " with {} ({} from the index {})".format(t, how, idx)
                gr.must_refuse(head + ": the call" + what, lambda: g(*t))
                gr.must_refuse(head + ": indices()" + what, lambda: g.indices(*t))
                gr.must_refuse(head + ": label()" + what, lambda: g.label(*t))
                seen.add('refused-index')
                seen.add('refused-' + how)
    return seen


def _position(ref, t):
    """Position of a legal index in the reference enumeration.  The enumerations of blocks and
    of the four word kinds are lexicographic (asserted), so it is found by bisection."""
    j = bisect.bisect_left(ref.indices, t)
    assert j < ref.N and ref.indices[j] == t, (ref.spec, t)
    return j


def _block_patterns(ref, rng):
    """A few wildcard patterns of a large block: one position fixed, all but one fixed, one
    position out of range."""
    rs = ref.ranges
    a = len(rs)
    out = []
    p = rng.randrange(a)
    pat = [None] * a
    pat[p] = rng.randint(1, rs[p])
    out.append(tuple(pat))
    q = rng.randrange(a)
    pat = [rng.randint(1, r) for r in rs]
    pat[q] = None
    out.append(tuple(pat))
    if a >= 3:
        pat = [None] * a
        pat[0] = rng.randint(1, rs[0])
        pat[a - 1] = rng.randint(1, rs[a - 1])
        out.append(tuple(pat))
    bad = []
    for val in (0, rs[p] + 1, -1):
        pat = [None] * a
        pat[p] = val
        bad.append(tuple(pat))
    return out, bad


def run_scale(case):
    clsname = case['cls']
    rng = random.Random(case['rseed'])
    F = _mk(clsname)
    model = gr.Model()
    pre = case.get('pre', 0)
    if pre:
        F.update_variable_number(pre)
        model.nv = pre
    labels = set([clsname])
    recs = []
    for depth, spec in enumerate(case['stack']):
        ref = gr.Ref(spec)
        if ref.kind == 'variable':
            v = ref.create(F)
            rec = model.add_group(ref, v)
            gr.check_group(F, v, ref, rec['first'], "large stack, position {}".format(depth))
            continue
        assert not ref.invalid and ref.N > 0 and ref.indices == sorted(ref.indices), spec
        where = "{} with {} variables before".format(clsname, model.nv)
        g = ref.create(F)
        rec = model.add_group(ref, g)
        recs.append(rec)
        if F.number_of_variables() != model.nv:
            raise Violation("{}: after {} the formula has {} variables, expected {}".format(
                where, ref.describe(), F.number_of_variables(), model.nv))
        labels |= check_group_sampled(F, g, ref, rec['first'], rng, where)
        labels.add(ref.kind)
        if ref.N > 10000:
            labels.add('more-than-10^4')
        if ref.N > 50000:
            labels.add('more-than-5*10^4')
        if rec['first'] > 10000:
            labels.add('offset-above-10^4')
        if ref.kind == 'block':
            pos = dict(zip(ref.indices, range(rec['first'], rec['first'] + ref.N)))
            good, bad = _block_patterns(ref, rng)
            head = "{} ({})".format(ref.describe(), where)
            for pat in good:
                want_idx = ref.matches(pat)
                want_ids = [pos[i] for i in want_idx]
                got_ids = gr.consume(g(*pat))
                if got_ids != want_ids:
                    raise Violation("{}: pattern {} selects {} identifiers {}...; the {} matching indices in order "
                                    "start with {} = {}".format(head, pat, len(got_ids), got_ids[:8], len(want_ids),
                                                                want_idx[:8], want_ids[:8]))
                got_i = [tuple(t) for t in g.indices(*pat)]
                if got_i != want_idx:
                    raise Violation("{}: indices{} gives {} indices {}...; expected {} starting with {}".format(
                        head, pat, len(got_i), got_i[:8], len(want_idx), want_idx[:8]))
                if ref.label is not None:
                    got_l = gr.consume(g.label(*pat))
                    if got_l != [ref.label_of(i) for i in want_idx]:
                        raise Violation("{}: label{} = {}...; expected {}".format(
                            head, pat, got_l[:8], [ref.label_of(i) for i in want_idx[:8]]))
                labels.add('wildcard')
            for pat in bad:
                gr.must_refuse("{}: pattern {} through the call".format(head, pat), lambda: g(*pat))
                gr.must_refuse("{}: indices{}".format(head, pat), lambda: g.indices(*pat))
                labels.add('wildcard-out-of-range')
    tail = case.get('tail', 0)
    if tail:
        F.update_variable_number(model.nv + tail)
        model.nv += tail
    if len(recs) >= 2:
        labels.add('stacked')
    # every group again after the later ones, and against the identifiers of the others
    firsts = [r['first'] for r in recs]
    for rec in recs:
        labels |= check_group_sampled(F, rec['g'], rec['ref'], rec['first'], rng, "at the end of the stack",
                                      windows=1, singles=10, neighbourhood=len(recs) >= 2)
        lo, hi = rec['first'], rec['first'] + rec['ref'].N
        for v in firsts + [model.nv, model.nv + 1]:
            if not (lo <= v < hi) and v >= 1:
                gr.must_refuse("{}: to_index({}), an identifier outside the group,".format(rec['ref'].describe(), v),
                               lambda: rec['g'].to_index(v))
    # names: one per variable, the sampled ones compared
    names = list(F.all_variable_labels())
    if F.number_of_variables() != model.nv or len(names) != model.nv:
        raise Violation("{} large stack: {} variables and {} names, expected {}".format(
            clsname, F.number_of_variables(), len(names), model.nv))
    for rec in model.groups:
        ref = rec['ref']
        if ref.kind == 'variable':
            picks = [0]
        else:
            picks = [0, ref.N - 1] + [rng.randrange(ref.N) for _ in range(50)]
        for pos in picks:
            idx = ref.indices[pos]
            v = rec['first'] + pos
            want = ref.label_of(idx)
            if want is None and ref.kind != 'variable':
                want = rec['g'].label(*idx)
            if want is not None and names[v - 1] != want:
                raise Violation("{} large stack: variable {} is reported as {!r}, expected {!r}, the label of index {} "
                                "of {}".format(clsname, v, names[v - 1], want, idx, ref.describe()))
    anonymous = list(range(1, pre + 1)) + list(range(model.nv - tail + 1, model.nv + 1))
    for v in anonymous:
        if names[v - 1] != 'x{}'.format(v):
            raise Violation("{} large stack: variable {} belongs to no group but is reported as {!r}".format(
                clsname, v, names[v - 1]))
    if anonymous:
        labels.add('anonymous-around')
    return Outcome(labels=sorted(labels), nontrivial=True)


def _count(spec):
    from math import comb, perm
    kind = spec['kind']
    if kind == 'block':
        out = 1
        for r in spec['ranges']:
            out *= r
        return out
    n, k = spec['n'], spec['k']
    if k is None:
        k = n
    return {'combinations': comb(n, k), 'combinations_with_replacement': comb(n + k - 1, k) if n + k else 1,
            'permutations': perm(n, k) if k <= n else 0, 'words': n ** k}[kind]


def scale_shapes(lo, hi):
    """Every word group with lo < size <= hi for k in 2..8, k=n-ish long words, and blocks."""
    out = []
    for kind in gr.WORD_KINDS:
        for k in (2, 3, 4, 5, 6, 8, 14):
            for n in range(2, 400):
                spec = {'kind': kind, 'n': n, 'k': k}
                c = _count(spec)
                if c > hi:
                    break
                if c > lo:
                    out.append(spec)
    for n in (7, 8):
        spec = {'kind': 'permutations', 'n': n, 'k': None}
        if lo < _count(spec) <= hi:
            out.append(spec)
    for rs in ([101, 100], [100, 100, 2], [40, 50, 6], [11, 10, 10, 10], [3, 4000], [5000, 3], [7, 6, 5, 8, 9],
               [2] * 14, [1, 20000, 1], [100, 100, 10], [10, 10, 10, 10, 10], [300, 300], [46, 47, 48]):
        spec = {'kind': 'block', 'ranges': rs}
        if lo < _count(spec) <= hi:
            out.append(spec)
    return out


def _labelled(spec, tag, j):
    spec = dict(spec)
    if spec['kind'] == 'block':
        styles = label_styles('block', tag, len(spec['ranges']))
    else:
        styles = label_styles(spec['kind'], tag)
    spec['label'] = styles[j % len(styles)]
    return spec


_BRIEF_SHAPES = [{'kind': 'combinations', 'n': 30, 'k': 4}, {'kind': 'permutations', 'n': 25, 'k': 3},
                 {'kind': 'words', 'n': 5, 'k': 6}, {'kind': 'combinations_with_replacement', 'n': 22, 'k': 4},
                 {'kind': 'block', 'ranges': [40, 50, 6]}, {'kind': 'block', 'ranges': [101, 100]}]
# ground sets with more than 255 elements
_WIDE_SHAPES = [{'kind': 'combinations', 'n': 300, 'k': 2}, {'kind': 'combinations_with_replacement', 'n': 256, 'k': 2},
                {'kind': 'words', 'n': 256, 'k': 2}, {'kind': 'permutations', 'n': 257, 'k': 2}]


def enum_scale(tier):
    j = 0
    singles = list(_BRIEF_SHAPES) + list(_WIDE_SHAPES)
    if tier == 'quick':
        pool = scale_shapes(10000, 30000)
        singles += pool[::6]
    else:
        pool = scale_shapes(10000, 110000)
        singles += pool
    for spec in singles:
        j += 1
        yield {'cls': ['CNF', 'OPB'][j % 2], 'pre': [0, 3, 1, 20000][j % 4], 'stack': [_labelled(spec, 'g', j)],
               'tail': [0, 2][j % 2], 'rseed': 1000 + j}
    B = _BRIEF_SHAPES
    X = {'kind': 'variable', 'label': 'X'}
    stacks = [[B[5], B[0], B[1]], [B[2], B[3], B[0]], [B[0], X, B[1]], [B[1], B[1]], [B[3], B[4], B[2], B[0]],
              [B[0], B[0]], [B[4], X, B[3]]]
    if tier != 'quick':
        big = [s for s in pool if _count(s) > 80000]
        stacks += [[big[i], big[(i * 7 + 3) % len(big)]] for i in range(0, len(big), 3)]
    for stack in stacks:
        j += 1
        yield {'cls': ['CNF', 'OPB'][j % 2], 'pre': [0, 5, 12000][j % 3],
               'stack': [s if s['kind'] == 'variable' else _labelled(s, 'abcd'[d], j + d) for d, s in enumerate(stack)],
               'tail': [3, 0][j % 2], 'rseed': 2000 + j}


_SCALE_POOLS = {}


def _scale_pool():
    t = _tier()
    if t not in _SCALE_POOLS:
        _SCALE_POOLS[t] = scale_shapes(10000, 30000 if t == 'quick' else 110000)
    return _SCALE_POOLS[t]


@st.composite
def _scale_strategy(draw):
    pool = _scale_pool()
    depth = 1 + draw(_INT) % 3
    stack = []
    total = 0
    for d in range(depth):
        spec = _pick(draw, pool)
        if total and total + _count(spec) > 160000:
            break
        total += _count(spec)
        spec = _labelled(spec, 'abc'[d], draw(_INT))
        stack.append(spec)
        if draw(_INT) % 5 == 0:
            stack.append({'kind': 'variable', 'label': 'V' + str(d)})
    return {'cls': _pick(draw, ['CNF', 'OPB']), 'pre': _pick(draw, [0, 0, 1, 4, 9999, 10000, 25000]), 'stack': stack,
            'tail': draw(_INT) % 3, 'rseed': draw(_INT)}


# ---------------------------------------------------------------------------
# astronomically large groups: identifiers beyond 2**53 and 2**64
#
#   {"huge": true, "cls": "CNF", "pre": 1152921504606846976, "pre_how": "update",
#    "stack": [{"kind": "block", "ranges": [2147483648, 2147483648], "label": "a({},{})"},
#              {"kind": "mapping", "n": 3, "m": 2305843009213693952, "label": "b({})={}"},
#              {"kind": "binary_mapping", "n": 1152921504606846976, "m": 8, "label": "c({},{})"}],
#    "gaps": [0, 5, 9007199254740992], "names_head": false, "rseed": 7}
#
# Only the constructors that store ranges and weights are used (new_block; new_mapping with a
# small domain, whose complete bipartite graph answers with ranges; new_binary_mapping with a
# small range, because it tabulates the 2^bits sign patterns): creating such a group costs
# nothing, whatever its size.  Nothing is enumerated.  The reference is the mixed-radix number
# system in Python integers: position p of the group <-> digits by repeated divmod, identifier
# = first + p.  A group has fewer than 2**63 variables (len() of a Python object); the
# identifiers are pushed beyond 2**64 by what comes before the group.

HUGE_KINDS = ('block', 'mapping', 'binary_mapping')
_MAXLEN = 2 ** 63 - 1
_MARKS = (26, 32, 53, 63, 64)


def _is_int(x):
    return isinstance(x, int) and not isinstance(x, bool)


class HugeRef:
    """Mixed-radix reference of one lazily stored group (no enumeration, no floats)."""

    def __init__(self, spec):
        self.spec = spec
        self.kind = spec['kind']
        self.label = spec['label']
        if self.kind == 'block':
            self.radices = list(spec['ranges'])
        elif self.kind == 'mapping':
            self.radices = [spec['n'], spec['m']]
        elif self.kind == 'binary_mapping':
            self.bits = gr.bits_for(spec['m'])
            self.radices = [spec['n'], self.bits]
        else:
            raise ValueError(self.kind)
        N = 1
        for r in self.radices:
            N *= r
        self.N = N
        if N > _MAXLEN:
            raise ValueError("group with more than 2**63 - 1 variables: outside the generated domain")

    def describe(self):
        s = self.spec
        if self.kind == 'block':
            a = ','.join(map(str, s['ranges']))
        else:
            a = "{},{}".format(s['n'], s['m'])
        return "new_{}({},label={!r})".format(self.kind, a, self.label)

    def create(self, F):
        s = self.spec
        if self.kind == 'block':
            return F.new_block(*s['ranges'], label=self.label)
        if self.kind == 'mapping':
            return F.new_mapping(s['n'], s['m'], label=self.label)
        return F.new_binary_mapping(s['n'], s['m'], label=self.label)

    # digits <-> index: every entry of an index counts from 1, except the bit position of a binary
    # mapping, which counts down from bits-1 to 0
    def _index(self, digits):
        if self.kind == 'binary_mapping':
            return (digits[0] + 1, self.bits - 1 - digits[1])
        return tuple(d + 1 for d in digits)

    def _digits(self, idx):
        if self.kind == 'binary_mapping':
            return [idx[0] - 1, self.bits - 1 - idx[1]]
        return [x - 1 for x in idx]

    def index_at(self, p):
        """Index of the p-th variable of the group (p from 0): repeated divmod, last position first."""
        if not (0 <= p < self.N):
            raise ValueError("position outside the group")
        digits = []
        for r in reversed(self.radices):
            p, d = divmod(p, r)
            digits.append(d)
        digits.reverse()
        return self._index(digits)

    def position_of(self, idx):
        """The mixed-radix number spelled by a legal index (Horner)."""
        p = 0
        for d, r in zip(self._digits(idx), self.radices):
            p = p * r + d
        return p

    def legal(self, t):
        if len(t) != len(self.radices) or not all(_is_int(x) for x in t):
            return False
        return all(0 <= d < r for d, r in zip(self._digits(t), self.radices))

    def bounds(self, j):
        """Smallest and largest legal entry in position j of an index."""
        if self.kind == 'binary_mapping' and j == 1:
            return 0, self.bits - 1
        return 1, self.radices[j]

    def label_of(self, idx):
        return self.label.format(*idx)


def huge_positions(ref, first, rng):
    """Positions (from 0) of the group to be questioned: both ends, the middle, the neighbourhood of every
    multiple of 2**26, 2**32, 2**53, 2**63, 2**64 that a position or an identifier can be near to, the places
    where a digit of the mixed-radix number wraps around, indices made of extreme digits, random ones."""
    N = ref.N
    if N <= 200:
        return list(range(N))
    P = set()

    def near(p, radius=1):
        for q in range(p - radius, p + radius + 1):
            if 0 <= q < N:
                P.add(q)

    near(0, 2)
    near(N - 1, 2)
    near(N // 2, 2)
    for e in _MARKS:
        M = 1 << e
        if N > M:                                   # the position is a multiple of M
            top = (N - 1) // M
            for q in set([1, top, rng.randint(1, top), rng.randint(1, top)]):
                near(q * M)
        lo, hi = -(-first // M), (first + N - 1) // M     # the identifier is a multiple of M
        if lo <= hi:
            for q in set([lo, hi, rng.randint(lo, hi)]):
                near(q * M - first)
    w = 1
    for r in reversed(ref.radices[1:]):             # a digit wraps around: multiples of the weights
        w *= r
        top = N // w
        for q in set([1, top, top // 2, rng.randint(1, top), rng.randint(1, top)]):
            near(q * w)
    for _ in range(12):                             # extreme digits
        idx = []
        for j in range(len(ref.radices)):
            lo, hi = ref.bounds(j)
            idx.append(rng.choice([lo, hi, rng.randint(lo, hi), min(hi, lo + 1), max(lo, hi - 1)]))
        P.add(ref.position_of(tuple(idx)))
    for _ in range(12):
        P.add(rng.randrange(N))
    return sorted(P)


def _refuse_lazily(what, thunk):
    """thunk() must raise ValueError; of a lazy answer only the first items are taken (the whole answer may have
    2**60 items)."""
    try:
        got = thunk()
        if not (got is None or isinstance(got, (int, str))):
            got = list(itertools.islice(got, 3))
    except ValueError:
        return
    raise Violation("{} is outside the index domain but was answered with {!r}... instead of ValueError".format(what, got))


def _huge_neighbours(ref, idx):
    k = len(idx)
    out = []
    for j in range(k):
        lo, hi = ref.bounds(j)
        for how, val in (('below', lo - 1), ('above', hi + 1), ('negated', -idx[j]), ('far-above', hi + (1 << 64)),
                         ('plus-one', idx[j] + 1), ('minus-one', idx[j] - 1), ('lowest', lo), ('highest', hi)):
            t = list(idx)
            t[j] = val
            out.append((how, tuple(t)))
    out.append(('shorter', idx[:-1]))
    out.append(('longer', idx + idx[-1:]))
    if k >= 2:
        out.append(('rotated', idx[1:] + idx[:1]))
    return [(how, t) for how, t in out if t != idx and len(t) > 0]


def _huge_patterns(ref, idx, rng):
    """Patterns with None whose answer is short, or whose first items are cheap: [(pattern, expected indices,
    complete?)], by construction from the definition of the kind."""
    out = []
    if ref.kind == 'block':
        cand = [j for j, r in enumerate(ref.radices) if r <= 48]
        rng.shuffle(cand)
        free, total = [], 1
        for j in cand[:rng.randint(1, 3)]:
            if total * ref.radices[j] <= 2000:
                free.append(j)
                total *= ref.radices[j]
        free.sort()
        if free:
            pat = [None if j in free else x for j, x in enumerate(idx)]
            want = []
            for choice in itertools.product(*[range(1, ref.radices[j] + 1) for j in free]):
                t = list(idx)
                for j, x in zip(free, choice):
                    t[j] = x
                want.append(tuple(t))
            out.append((tuple(pat), want, True))
        return out
    n, second = ref.radices
    i, x = idx
    lo, hi = ref.bounds(1)
    if ref.kind == 'mapping':
        row = [(i, j) for j in range(1, min(second, 5) + 1)]
        col = [(u, x) for u in range(1, min(n, 5) + 1)]
    else:
        row = [(i, b) for b in range(hi, max(lo, hi - 4) - 1, -1)]
        col = [(u, x) for u in range(1, min(n, 5) + 1)]
    out.append(((i, None), row, second <= 5))
    out.append(((None, x), col, n <= 5))
    return out


def check_huge_group(F, g, ref, first, rng, where, others=(), deep=True):
    seen = set()
    N = ref.N
    head = "{} ({}, identifiers {}..{})".format(ref.describe(), where, first, first + N - 1)
    if len(g) != N:
        raise Violation("{}: len() is {}, the product of the ranges is {}".format(head, len(g), N))
    if N:
        ends = (g[0], g[-1])
        if ends != (first, first + N - 1) or not all(_is_int(v) for v in ends):
            raise Violation("{}: first and last identifier {!r}, expected {}".format(head, ends, (first, first + N - 1)))
    positions = huge_positions(ref, first, rng)
    for p in positions:
        idx = ref.index_at(p)
        if ref.position_of(idx) != p or not ref.legal(idx):
            raise RuntimeError("harness: reference arithmetic is inconsistent at {} of {}".format(p, ref.spec))
        v = first + p
        got = g(*idx)
        if not _is_int(got) or got != v:
            raise Violation("{}: index {} -> identifier {!r}, expected {} = {} + its mixed-radix number {}".format(
                head, idx, got, v, first, p))
        for lit in (v, -v):
            back = tuple(g.to_index(lit))
            if back != idx or not all(_is_int(x) for x in back):
                raise Violation("{}: to_index({}) = {!r} but {} is the identifier of index {} (position {} = divmod "
                                "by the ranges)".format(head, lit, back, v, idx, p))
            if lit not in g:
                raise Violation("{}: `{} in group` is False for an identifier of the group".format(head, lit))
        one = [tuple(t) for t in g.indices(*idx)]
        if one != [idx]:
            raise Violation("{}: indices{} = {} instead of the index itself".format(head, idx, one))
        lab = g.label(*idx)
        if lab != ref.label_of(idx):
            raise Violation("{}: label{} = {!r}, the label format gives {!r}".format(head, idx, lab, ref.label_of(idx)))
    if positions:
        seen.add('huge-sampled')
    # identifiers around the group and those of the other groups
    for v in [first - 1, first + N, first + N + (1 << 53)] + list(others):
        if v < 1 or first <= v < first + N:
            continue
        for lit in (v, -v):
            if lit in g:
                raise Violation("{}: `{} in group` is True for an identifier outside the group".format(head, lit))
            gr.must_refuse("{}: to_index({})".format(head, lit), lambda: g.to_index(lit))
    gr.must_refuse("{}: to_index(0)".format(head), lambda: g.to_index(0))
    if not deep or not positions:
        return seen
    centres = [positions[0], positions[-1]] + [rng.choice(positions) for _ in range(6)]
    for p in centres:
        idx = ref.index_at(p)
        for how, t in _huge_neighbours(ref, idx):
            if ref.legal(t):
                q = ref.position_of(t)
                got = g(*t)
                if not _is_int(got) or got != first + q:
                    raise Violation("{}: index {} ({} from {}) -> identifier {!r}, expected {}".format(
                        head, t, how, idx, got, first + q))
                back = tuple(g.to_index(-got))
                if back != t:
                    raise Violation("{}: to_index({}) = {!r} but {} is the identifier of index {}".format(
                        head, -got, back, got, t))
            else:
                what = " with {} ({} from the index {})".format(t, how, idx)
                _refuse_lazily(head + ": the call" + what, lambda: g(*t))
                _refuse_lazily(head + ": indices()" + what, lambda: g.indices(*t))
                _refuse_lazily(head + ": label()" + what, lambda: g.label(*t))
                seen.add('huge-refused-index')
        for pat, want, complete in _huge_patterns(ref, idx, rng):
            take = None if complete else len(want)
            want_ids = [first + ref.position_of(t) for t in want]
            got_ids = list(itertools.islice(g(*pat), take))
            if got_ids != want_ids or not all(_is_int(x) for x in got_ids):
                raise Violation("{}: pattern {} selects the identifiers {}{}; the matching indices in order are {} = {}".format(
                    head, pat, got_ids[:8], '' if complete else ' first', want[:8], want_ids[:8]))
            got_i = [tuple(t) for t in itertools.islice(g.indices(*pat), take)]
            if got_i != want:
                raise Violation("{}: indices{} gives {}{}; expected {}".format(
                    head, pat, got_i[:8], '' if complete else ' first', want[:8]))
            got_l = list(itertools.islice(g.label(*pat), take))
            if got_l != [ref.label_of(t) for t in want]:
                raise Violation("{}: label{} = {}; expected {}".format(head, pat, got_l[:8],
                                                                      [ref.label_of(t) for t in want[:8]]))
            seen.add('huge-wildcard')
            if not complete:
                seen.add('huge-wildcard-lazy-answer')
        if ref.kind != 'block':
            lo, hi = ref.bounds(1)
            for pat in ((0, None), (ref.radices[0] + 1, None), (None, lo - 1), (None, hi + 1)):
                _refuse_lazily("{}: pattern {} through the call".format(head, pat), lambda: g(*pat))
                _refuse_lazily("{}: indices{}".format(head, pat), lambda: g.indices(*pat))
            seen.add('huge-wildcard-out-of-range')
    return seen


def run_huge(case):
    clsname = case['cls']
    rng = random.Random(case['rseed'])
    F = _mk(clsname)
    nv = 0
    pre = case.get('pre', 0)
    if pre:
        if case.get('pre_how') == 'clause':
            F.add_clause([-pre])
        else:
            F.update_variable_number(pre)
        nv = pre
    labels = set([clsname, 'huge'])
    recs = []
    gaps = list(case.get('gaps', []))
    for depth, spec in enumerate(case['stack']):
        ref = HugeRef(spec)
        where = "{} with {} variables before".format(clsname, nv)
        g = ref.create(F)
        first = nv + 1
        nv += ref.N
        if F.number_of_variables() != nv or not _is_int(F.number_of_variables()):
            raise Violation("{}: after {} the formula has {!r} variables, expected {}".format(
                where, ref.describe(), F.number_of_variables(), nv))
        recs.append((ref, g, first))
        labels |= check_huge_group(F, g, ref, first, rng, where, others=[r[2] for r in recs[:-1]] + [1, pre])
        labels.add('huge-' + ref.kind)
        if ref.N == 0:
            labels.add('huge-empty-group')
        else:
            last = first + ref.N - 1
            for e in _MARKS:
                if ref.N > (1 << e):
                    labels.add('group-larger-than-2^{}'.format(e))
                if last > (1 << e):
                    labels.add('identifiers-above-2^{}'.format(e))
                if first <= (1 << e) <= last and e >= 53:
                    labels.add('group-across-2^{}'.format(e))
            if ref.N <= 200 and first > (1 << 53):
                labels.add('small-group-at-huge-offset')
        gap = gaps[depth] if depth < len(gaps) else 0
        if gap:
            F.update_variable_number(nv + gap)
            nv += gap
            labels.add('huge-gap')
    if len(recs) >= 2:
        labels.add('huge-stacked')
        firsts = [r[2] for r in recs] + [nv, nv + 1]
        for ref, g, first in recs:
            labels |= check_huge_group(F, g, ref, first, rng, "at the end of the stack", others=firsts, deep=False)
    if F.number_of_variables() != nv:
        raise Violation("{} stack of huge groups: {} variables at the end, expected {}".format(
            clsname, F.number_of_variables(), nv))
    if case.get('names_head') and recs:
        # the names are produced lazily: the first ones are the default names of the variables before the first
        # group, then the labels of its first indices
        ref, g, first = recs[0]
        want = ['x{}'.format(v) for v in range(1, first)]
        for p in range(min(6, ref.N)):
            want.append(ref.label_of(ref.index_at(p)))
        # not one name more: the next group may be a block, whose names are not produced lazily
        names = list(itertools.islice(F.all_variable_labels(), len(want)))
        if names != want:
            raise Violation("{} stack of huge groups starting with {}: the first names are {}, expected {}".format(
                clsname, ref.describe(), names, want))
        labels.add('huge-names-head')
    return Outcome(labels=sorted(labels), nontrivial=nv > (1 << 53))


def run_scale_any(case):
    if case.get('huge'):
        return run_huge(case)
    return run_scale(case)


_HUGE_BLOCKS = [[2 ** 31, 2 ** 31], [10 ** 6, 10 ** 6, 10 ** 6], [2 ** 32 - 1, 2 ** 31 - 1], [2 ** 53 + 1], [2 ** 62],
                [3, 2 ** 60], [2 ** 60, 3], [2 ** 20, 3, 2 ** 21], [2 ** 26 + 1, 2 ** 27 - 1], [7, 11, 13, 2 ** 50],
                [2] * 62, [10] * 18, [2 ** 53 - 1, 2, 2], [94906267, 94906267], [3, 4], [1, 1, 5], [2 ** 40, 0, 5],
                [2 ** 61 - 1, 4], [5, 2 ** 27, 3, 2 ** 27, 2], [2 ** 16] * 3 + [32767], [3037000499, 3037000499],
                [6, 2 ** 53 + 3, 5], [2 ** 32, 2 ** 21 + 1, 17]]
_HUGE_MAPPINGS = [[2, 2 ** 40], [3, 2 ** 61], [64, 2 ** 55], [1, 2 ** 62], [5, 10 ** 15], [7, 2 ** 53 + 1], [40, 3]]
_HUGE_BINARY = [[2 ** 60, 8], [2 ** 53 + 1, 2], [2 ** 58, 9], [2 ** 52 + 7, 1024], [2 ** 60, 1], [10 ** 17, 5],
                [3 * 2 ** 60, 3], [2 ** 62, 0], [5, 300]]
_HUGE_PRE = [0, 2 ** 60, 5, 2 ** 53 - 4, 2 ** 64 + 5, 1, 2 ** 63 - 3, 2 ** 32, 2 ** 53, 2 ** 64 - 2, 10 ** 30, 2 ** 26 - 1]
_HUGE_GAPS = [0, 1, 2 ** 53, 0, 5, 2 ** 64]


def _huge_spec(kind, shape, tag, j):
    if kind == 'block':
        styles = [s for s in label_styles('block', tag, len(shape)) if s is not None]
        return {'kind': 'block', 'ranges': list(shape), 'label': styles[j % len(styles)]}
    styles = [s for s in label_styles(kind, tag) if s is not None]
    return {'kind': kind, 'n': shape[0], 'm': shape[1], 'label': styles[j % len(styles)]}


def _names_head_ok(spec, pre):
    """Can the first names be asked for?  (the variables before the group are named one by one, and the whole-group
    views of a block copy every range)"""
    if pre > 8:
        return False
    return spec['kind'] != 'block' or max(spec['ranges']) <= 65536


def _huge_shapes():
    return ([('block', s) for s in _HUGE_BLOCKS] + [('mapping', s) for s in _HUGE_MAPPINGS] +
            [('binary_mapping', s) for s in _HUGE_BINARY])


def enum_huge(tier):
    shapes = _huge_shapes()
    j = 0
    per_shape = 3 if tier == 'quick' else len(_HUGE_PRE)
    for si, (kind, shape) in enumerate(shapes):
        for r in range(per_shape):
            j += 1
            pre = _HUGE_PRE[(si + r * 5) % len(_HUGE_PRE)] if tier == 'quick' else _HUGE_PRE[r]
            spec = _huge_spec(kind, shape, 'g', j)
            yield {'huge': True, 'cls': ['CNF', 'OPB'][j % 2], 'pre': pre, 'pre_how': ['update', 'clause'][(j // 2) % 2],
                   'stack': [spec], 'gaps': [_HUGE_GAPS[j % len(_HUGE_GAPS)]], 'names_head': _names_head_ok(spec, pre),
                   'rseed': 3000 + j}
    # stacks: every ordered pair (thorough: and some triples) of a few shapes of the three kinds
    core = [('block', [2 ** 31, 2 ** 31]), ('block', [2 ** 20, 3, 2 ** 21]), ('mapping', [3, 2 ** 61]),
            ('binary_mapping', [2 ** 60, 8]), ('block', [3, 4]), ('block', [2 ** 53 + 1]), ('mapping', [64, 2 ** 55])]
    if tier != 'quick':
        core = core + [('block', [10 ** 6] * 3), ('binary_mapping', [2 ** 52 + 7, 1024]), ('block', [2 ** 62])]
    stacks = [[a, b] for a in core for b in core]
    step = 5 if tier == 'quick' else 1
    stacks += [[a, b, c] for a in core for b in core for c in core][::7 * step]
    for stack in stacks:
        j += 1
        pre = [2 ** 60, 0, 3, 2 ** 64 - 1, 2 ** 53 - 2][j % 5]
        specs = [_huge_spec(kind, shape, 'abc'[d], j + d) for d, (kind, shape) in enumerate(stack)]
        yield {'huge': True, 'cls': ['CNF', 'OPB'][j % 2], 'pre': pre, 'pre_how': ['update', 'clause'][(j // 2) % 2],
               'stack': specs, 'gaps': [_HUGE_GAPS[(j + d) % len(_HUGE_GAPS)] for d in range(len(specs))],
               'names_head': _names_head_ok(specs[0], pre), 'rseed': 4000 + j}


def enum_scale_and_huge(tier):
    for case in enum_huge(tier):
        yield case
    for case in enum_scale(tier):
        yield case


_HUGE_RADICES = [1, 2, 3, 5, 7, 10, 48, 1000, 2 ** 16, 10 ** 6, 2 ** 26 - 1, 2 ** 26, 2 ** 26 + 1, 2 ** 31, 2 ** 32 - 1,
                 2 ** 32, 2 ** 32 + 1, 10 ** 12, 2 ** 53 - 1, 2 ** 53, 2 ** 53 + 1, 2 ** 60, 2 ** 62]
_BIG = st.integers(0, 2 ** 70)


@st.composite
def _huge_strategy(draw):
    depth = 1 + draw(_INT) % 3
    stack = []
    for d in range(depth):
        kind = _pick(draw, ['block', 'block', 'block', 'mapping', 'binary_mapping'])
        if kind == 'block':
            room = _MAXLEN
            rs = []
            for _ in range(1 + draw(_INT) % 5):
                r = _pick(draw, _HUGE_RADICES) if draw(_BOOL) else 1 + draw(_BIG) % (1 << (1 + draw(_INT) % 62))
                r = max(1, min(r, room))
                room //= r
                rs.append(r)
            if draw(_INT) % 30 == 0:
                rs[draw(_INT) % len(rs)] = 0
            shape = rs
        elif kind == 'mapping':
            n = 1 + draw(_INT) % 64
            shape = [n, 1 + draw(_BIG) % (_MAXLEN // n)]
        else:
            m = draw(_INT) % 1025
            bits = max(1, gr.bits_for(m))
            shape = [1 + draw(_BIG) % (_MAXLEN // bits), m]
        stack.append(_huge_spec(kind, shape, 'abc'[d], draw(_INT)))
    pre = _pick(draw, _HUGE_PRE) if draw(_BOOL) else draw(_BIG)
    return {'huge': True, 'cls': _pick(draw, ['CNF', 'OPB']), 'pre': pre,
            'pre_how': _pick(draw, ['update', 'clause']), 'stack': stack,
            'gaps': [_pick(draw, _HUGE_GAPS) for _ in stack], 'names_head': _names_head_ok(stack[0], pre),
            'rseed': draw(_INT)}


def _scale_and_huge_strategy():
    return st.one_of(_scale_strategy(), _huge_strategy(), _huge_strategy(), _huge_strategy())


# ---------------------------------------------------------------------------

_COMMON = ("oracle: identifiers are the next contiguous range; indices() equals the reference enumeration (itertools / "
           "sorted edge lists) in identifier order; g(*i) and to_index(+-g(*i)) are inverse on every index; every pattern "
           "with None entries returns exactly the matching reference indices in order (identifiers, indices and labels); "
           "indices outside the domain (0, range+1, negative, wrong arity, non-edges, non-members) and identifiers outside "
           "the group raise ValueError; all_variable_labels() gives the group's label for every identifier of a group and "
           "the default name ('x{}' or the requested format) elsewhere; 'c varname'/'* varname' lines and the LaTeX literal "
           "table say the same. ")

_HUGE_RULE = ("(a) astronomically large groups, never enumerated: new_block with 1..62 ranges (2^31 x 2^31, 10^6 x 10^6 x 10^6, "
              "one range of 2^53+1 or 2^62, 3 x 2^60, 2^60 x 3, 62 ranges of 2, 18 ranges of 10, squares around 2^53 and 2^63, a "
              "range 0 next to a range 2^40, ...; Hypothesis: 1..5 ranges from a pool of values around 2^16, 2^26, 2^32, 2^53, "
              "2^60 or of random bit length), new_mapping(n <= 64, m up to 2^62) and new_binary_mapping(n up to 2^62, m <= 1024) "
              "- the constructors that store ranges and weights only; every group has fewer than 2^63 variables (len() of a "
              "Python object), created after 0, 1, 5, 2^26-1, 2^32, 2^53-4, 2^53, 2^60, 2^63-3, 2^64-2, 2^64+5 or 10^30 "
              "(Hypothesis: any number below 2^70) anonymous variables declared by update_variable_number or by a clause, CNF "
              "and OPB, alone and in stacks of 2..3 groups of the three kinds with 0, 1, 5, 2^53 or 2^64 anonymous variables in "
              "between. oracle, in Python integers only: len = product of the ranges, first and last identifier, "
              "number_of_variables(); on sampled positions p (both ends, the middle, +-1 around multiples of 2^26, 2^32, 2^53, "
              "2^63, 2^64 of the position and of the identifier, +-1 around multiples of every weight of the mixed-radix system, "
              "indices made of extreme digits, random positions; every position when the group has <= 200 variables): the index "
              "is the digits of p by repeated divmod, g(index) = first + p as an int, to_index(+-identifier) = index with int "
              "entries, membership, indices(index), label(index) = format of the same index; neighbouring tuples (entry below / "
              "above its range, negated, + 2^64, +-1, lowest, highest, one entry more or less, rotated) map to their own "
              "mixed-radix number when legal and raise ValueError from g(...), indices(...), label(...) otherwise; patterns with "
              "None whose answer is short (free positions with ranges <= 48; a row or a column of a mapping) against the "
              "harness product, lazily answered patterns on their first 5 items; out-of-range patterns refused; identifiers "
              "just outside, 2^53 further, and those of the other groups refused by to_index and `in`; every group again at the "
              "end of the stack; when at most 8 variables precede, the first names of all_variable_labels() taken lazily. "
              "(b) ")
_HUGE_LABELS = ['huge', 'huge-block', 'huge-mapping', 'huge-binary_mapping', 'huge-stacked', 'huge-gap', 'huge-sampled',
                'huge-wildcard', 'huge-wildcard-lazy-answer', 'huge-wildcard-out-of-range', 'huge-refused-index',
                'huge-empty-group', 'huge-names-head', 'small-group-at-huge-offset', 'group-larger-than-2^53',
                'group-larger-than-2^32', 'identifiers-above-2^53', 'identifiers-above-2^63', 'identifiers-above-2^64',
                'group-across-2^53', 'group-across-2^64']

_BUILDERS_CNF = ("add_clauses_from, add_parity, add_linear with each of '>=', '<=', '==', '!=', '<', '>', cardinality_eq / neq / "
                 "leq / geq, add_loose / strict_majority / minority, the literals handed over as list, tuple or generator, "
                 "constants from -1 to len+1")
_BUILDERS_OPB = ("add_clauses_from, add_constraint with each of '>=', '<=', '==', '<', '>' and coefficients 1..3, "
                 "add_constraints_from, add_parity, cardinality_eq / neq / leq / geq, add_loose / strict_majority / minority")

SUBCHECKS = [
    SubCheck('variable', run_group, strategy=_direct_strategy(['variable']), enumerate_cases=enum_variable(True),
             quick=300, thorough=3000, max_shards=2,
             rule="new_variable(label) after 0..4 anonymous variables (update_variable_number or a clause), followed by "
                  "nothing / a named variable / anonymous variables / both, CNF and OPB, enumerated completely. " + _COMMON +
                  "Non-trivial: never (one identifier); the labels prove the classes.",
             required_labels=['variable', 'CNF', 'OPB', 'named-after-anonymous', 'gap-between-groups', 'rendered',
                              'custom-default-format']),
    SubCheck('variable_unlabelled', run_group, strategy=_direct_strategy(['variable'], unlabeled=True),
             enumerate_cases=enum_variable(False), quick=100, thorough=1000, max_shards=1,
             rule="new_variable() without a label in the same surroundings: the reported name must be a string and "
                  "the renderings must work. " + _COMMON,
             required_labels=['variable', 'default-label', 'rendered']),
    SubCheck('block', run_group, strategy=_direct_strategy(['block']), enumerate_cases=enum_block,
             quick=1500, thorough=40000,
             rule="new_block with 1..4 ranges each 0..4: every shape with <=3 ranges (thorough: all 780) enumerated, "
                  "plus generated surroundings (0..4 anonymous variables before, variables after, label style, default "
                  "format); every pattern over {None, 1..r} per position. " + _COMMON +
                  "Non-trivial: >=2 identifiers created when the count was not 0.",
             required_labels=['block', 'empty-group', 'named-after-anonymous', 'gap-between-groups', 'wildcard',
                              'wildcard-proper-subset', 'wildcard-no-match', 'refused-index', 'rejected-creation',
                              'default-label', 'rendered', 'custom-default-format']),
    SubCheck('words', run_group, strategy=_direct_strategy(['combinations', 'permutations', 'words']),
             enumerate_cases=enum_words(['combinations', 'permutations', 'words']),
             quick=1000, thorough=20000,
             rule="new_combinations / new_permutations (also k omitted) / new_words with n in -1..5 and k in -1..3, all "
                  "enumerated; every tuple over 0..n+1 that is not an index must be refused. " + _COMMON +
                  "Non-trivial: >=2 identifiers created when the count was not 0.",
             required_labels=['combinations', 'permutations', 'words', 'empty-group', 'named-after-anonymous',
                              'refused-index', 'rejected-creation', 'gap-between-groups', 'rendered']),
    SubCheck('words_with_replacement', run_group, strategy=_direct_strategy(['combinations_with_replacement']),
             enumerate_cases=enum_words(['combinations_with_replacement']),
             quick=300, thorough=6000,
             rule="new_combinations_with_replacement with n in -1..5 and k in -1..3, enumerated. " + _COMMON +
                  "Non-trivial: >=2 identifiers created when the count was not 0.",
             required_labels=['combinations_with_replacement', 'empty-group', 'named-after-anonymous',
                              'refused-index', 'rejected-creation']),
    SubCheck('edges', run_group, strategy=_direct_strategy(list(gr.EDGE_KINDS)), enumerate_cases=enum_edges,
             quick=2500, thorough=50000,
             rule="new_bipartite_edges (every bipartite graph up to 2x2, thorough 3x3; generated up to 4x4), "
                  "new_graph_edges (every graph on <=4 vertices as cnfgen and networkx object; generated up to 6 "
                  "vertices, edges inserted in any order and orientation), new_digraph_edges (every digraph with loops on "
                  "<=2, thorough 3, vertices; generated up to 4) with sortby pred / succ / omitted; empty graphs and "
                  "isolated vertices included. " + _COMMON + "Non-trivial: >=2 identifiers created when the count was not 0.",
             required_labels=list(gr.EDGE_KINDS) + ['empty-group', 'named-after-anonymous', 'wildcard',
                                                    'wildcard-no-match', 'wildcard-proper-subset', 'reversed-edge',
                                                    'refused-index', 'rejected-creation', 'gap-between-groups',
                                                    'rendered', 'graph-with-an-empty-vertex-set', 'graph-without-edges',
                                                    'isolated-vertex', 'loop', 'sortby-pred', 'sortby-succ',
                                                    'sortby-omitted', 'networkx-graph']),
    SubCheck('mappings', run_group, strategy=_direct_strategy(list(gr.MAP_KINDS)), enumerate_cases=enum_mappings,
             quick=1200, thorough=25000,
             rule="new_mapping(n,m) n,m in -1..4; new_binary_mapping(n,m) n in -1..4, m in -1..17 (bits = smallest k with "
                  "m <= 2^k, most significant bit first); new_sparse_mapping over every bipartite graph up to 2x2 "
                  "(thorough 3x3) and generated ones up to 4x4. " + _COMMON +
                  "Non-trivial: >=2 identifiers created when the count was not 0.",
             required_labels=list(gr.MAP_KINDS) + ['empty-group', 'named-after-anonymous', 'wildcard',
                                                   'wildcard-proper-subset', 'refused-index', 'rejected-creation',
                                                   'gap-between-groups', 'rendered']),
    SubCheck('scale', run_scale_any, strategy=_scale_and_huge_strategy, enumerate_cases=enum_scale_and_huge,
             quick=48, thorough=1200,
             rule=_HUGE_RULE + "groups with more than 10^4 variables: new_combinations(30,4), new_permutations(25,3), new_words(5,6), "
                  "new_combinations_with_replacement(22,4), new_block(40,50,6), new_block(101,100), four groups on ground sets "
                  "of 256..300 elements with k=2 (up to 66000 variables), every sixth (thorough: "
                  "every) word group with 10^4 < size <= 3*10^4 (thorough 1.1*10^5) for k in {2,3,4,5,6,8,14}, "
                  "new_permutations(8), blocks with 2..14 ranges; alone after 0/1/3/20000 anonymous variables and in stacks "
                  "of 2..4 large groups (a single variable in between, offsets up to 10^5), CNF and OPB; Hypothesis: stacks "
                  "of 1..3 shapes from the same pool. oracle: len, contiguous identifiers and indices() equal to the "
                  "itertools enumeration (complete, cheap); on sampled positions from random.Random(rseed) (first and "
                  "last window of 40 consecutive positions, 3 random windows, 60 single positions): index -> first + "
                  "position, to_index(+-id) -> index, indices(index), label(index), membership; around the first, the last "
                  "and every single sampled index all neighbouring tuples (entries swapped, repeated, 0, range+1, negated, "
                  "+-1, reversed, rotated, one entry more or less) are classified by a membership predicate written from "
                  "the definition of the kind (asserted equal to membership in the enumeration): legal ones must map to "
                  "their position, the others must raise ValueError from g(...), g.indices(...) and g.label(...); large "
                  "blocks: three wildcard patterns against the filtered enumeration, out-of-range wildcard patterns refused; "
                  "every group is sampled again after the later groups and must refuse the identifiers of the others; "
                  "all_variable_labels() has one name per variable, compared at sampled positions and on every anonymous "
                  "variable. Non-trivial: (a) the identifiers go beyond 2^53; (b) always (every case has a group with more than "
                  "10^4 variables).",
             required_labels=['CNF', 'OPB', 'block'] + list(gr.WORD_KINDS) +
                             ['more-than-10^4', 'offset-above-10^4', 'stacked', 'sampled-windows', 'legal-neighbour',
                              'refused-index', 'refused-swapped', 'refused-repeated', 'refused-zero-leading',
                              'refused-zero-non-leading', 'refused-top+1-leading', 'refused-top+1-non-leading',
                              'refused-negative', 'refused-shorter', 'refused-longer', 'refused-reversed', 'wildcard',
                              'wildcard-out-of-range', 'anonymous-around'] + _HUGE_LABELS),
    SubCheck('history_cnf', run_history, strategy=_history_strategy('CNF'), enumerate_cases=enum_history('CNF'),
             quick=1500, thorough=20000,
             rule="CNF: operation logs of 0..14 (thorough 0..30) steps interleaving creation of groups of every kind "
                  "(small shapes, some refused), labelled and unlabelled new_variable, add_clause(check=True) that may "
                  "raise the count, add_clause(check=False), update_variable_number (raising, without effect, negative), "
                  "and (one step in five) a CONSTRAINT BUILDER on 0..5 literals that may mention never-seen variables "
                  "(up to 3 above the current count; check=False only inside the count): " + _BUILDERS_CNF +
                  "; plus every log of length <=2 (thorough <=3) over a 19-operation alphabet; plus, for each of the 16 "
                  "builders x each of the 15 group creations of the alphabet x 3 (thorough 6) prefixes {fresh formula; a "
                  "group; a group and two anonymous variables; update_variable_number(4); two groups; a clause and a "
                  "group}: the builder on the literals [count+3, -(count+1)] (+ an old variable), then the group "
                  "(sometimes the builder again with check=False, sometimes a second group). After every step the names "
                  "are compared with the model (a builder with check=True raises the count to the largest variable it "
                  "mentions, the variables in between exist and are anonymous); at the end every group is checked again "
                  "completely and against the identifiers of the other groups. " + _COMMON +
                  "Non-trivial: >=1 anonymous variable and >=2 non-empty groups.",
             required_labels=['variable'] + ['block'] + list(gr.WORD_KINDS) + list(gr.EDGE_KINDS) + list(gr.MAP_KINDS) +
                             ['sortby-pred', 'sortby-succ', 'empty-group', 'named-after-anonymous',
                              'variable-after-anonymous', 'gap-between-groups', 'wildcard', 'clause-raises-count',
                              'update-raises-count', 'update-without-effect', 'rejected-update', 'rejected-creation',
                              'foreign-identifier-refused', 'anonymous-tail', 'anonymous-head', 'rendered',
                              'custom-default-format', 'default-label', 'insert-raises-count', 'group-after-builder-variables',
                              'literals-as-list', 'literals-as-tuple', 'literals-as-generator'] +
                             [p + t for t in INSERT_TAGS['CNF'] for p in ('insert:', 'raises-count:', 'group-after:')]),
    SubCheck('history_opb', run_history, strategy=_history_strategy('OPB'), enumerate_cases=enum_history('OPB'),
             quick=1500, thorough=20000,
             rule="OPB: the same operation logs, plus add_constraint that may raise the count; the constraint builders are " +
                  _BUILDERS_OPB + ", in the random logs and in the enumerated builder x group x prefix logs of history_cnf. " + _COMMON +
                  "Non-trivial: >=1 anonymous variable and >=2 non-empty groups.",
             required_labels=['variable'] + ['block'] + list(gr.WORD_KINDS) + list(gr.EDGE_KINDS) + list(gr.MAP_KINDS) +
                             ['sortby-pred', 'sortby-succ', 'empty-group', 'named-after-anonymous',
                              'variable-after-anonymous', 'gap-between-groups', 'wildcard', 'clause-raises-count',
                              'constraint-raises-count', 'update-raises-count', 'rejected-update',
                              'foreign-identifier-refused', 'rendered', 'custom-default-format', 'insert-raises-count',
                              'group-after-builder-variables', 'literals-as-list', 'literals-as-tuple', 'literals-as-generator'] +
                             [p + t for t in INSERT_TAGS['OPB'] for p in ('insert:', 'raises-count:', 'group-after:')]),
    SubCheck('varnames_cli', run_cli, strategy=lambda: _cli_strategy(), enumerate_cases=enum_cli,
             quick=120, thorough=2500,
             rule="cnfgen / pbgen --varnames (in-process main()) for php, op, ram, cliquecoloring, vdw (2 and 3 colours), "
                  "bphp, kcolor and tseitin on complete graphs, peb on pyramids, tseitin on random graphs, with and "
                  "without -q, DIMACS and OPB output: one name line per variable, numbered 1..n, names equal to the "
                  "documented naming computed by the harness (random graphs: edge names in increasing order) and to "
                  "all_variable_labels() of the formula built by the same command line. Non-trivial: >=2 variables.",
             required_labels=['cnfgen', 'pbgen', 'dimacs-names', 'opb-names', 'random-graph'] + _CLI_FAMILIES),
]
