"""C03 - contradictions and Ramsey-type benchmarks have the documented satisfiability."""
import itertools
import random
from math import isqrt, comb

from hypothesis import strategies as st

from vlib.core import SubCheck, Violation, Outcome
from vlib import tt, names, sat, cli
from vlib import graphs_gen as gg
from checks.c01 import formula_class, expect_indices

PROPERTY = "C03"
ASSUMPTIONS = [
    "axioms are compared as sets of clauses over variable *names*; tautologies are discarded on both sides; clause and literal order are ignored",
    "N=0 / null-graph instances are vacuous (no clause) and labelled 'degenerate', not asserted unsatisfiable",
    "planted ordering with a Knuth variant: only 'an admissible order exists => satisfiable' is asserted (reduced transitivity may admit non-orders)",
    "Pitfall: unsatisfiability plus the documented hard part (k copies of the Tseitin formula of one d-regular graph, each clause extended by the safety variables of the copy) are checked; the remaining gadgets have no description in the tree to compare with",
    "unsatisfiability past 22 variables is decided by vlib/sat.py",
]


# ---------------------------------------------------------------------------
# helpers

def as_clauses(F):
    """Clauses of F as lists of literals; for an OPB object only if every row is a clause."""
    from cnfgen.formula.baseopb import BaseOPB
    if not isinstance(F, BaseOPB):
        return [list(c) for c in F]
    out = []
    for row in F:
        if row[-2] != '>=' or row[-1] != 1 or any(c != 1 for c, _ in row[:-2]):
            return None
        out.append([l for _, l in row[:-2]])
    return out


def nontaut(clause):
    s = frozenset(clause)
    if any(-l in s for l in s):
        return None
    return s


def compare_axioms(F, reference, what, case):
    """reference: iterable of clauses over variable ids."""
    cls = as_clauses(F)
    if cls is None:
        return False
    got = set(filter(None, (nontaut(c) for c in cls)))
    want = set(filter(None, (nontaut(c) for c in reference)))
    if got != want:
        labs = list(F.all_variable_labels())

        def show(c):
            return [('' if l > 0 else '~') + labs[abs(l) - 1] for l in sorted(c, key=abs)]
        missing = sorted(want - got, key=lambda c: sorted(map(abs, c)))
        extra = sorted(got - want, key=lambda c: sorted(map(abs, c)))
        raise Violation("{} {}: clauses differ from the documented axioms: {} missing (e.g. {}), {} extra (e.g. {})".format(
            what, case, len(missing), show(missing[0]) if missing else None,
            len(extra), show(extra[0]) if extra else None))
    return True


_BOUNDED = {'on': False}      # large instances: satisfiability by a node-bounded search, None when undecided


def satisfiable(F):
    """True/False (tt up to 22 variables, DPLL beyond; OPB beyond 22 -> None)."""
    from cnfgen.formula.baseopb import BaseOPB
    n = F.number_of_variables()
    if n <= 22:
        return tt.formula_tt(F) != 0
    cls = as_clauses(F)
    if cls is None:
        return None
    try:
        # a node budget, not a clock: 3000 nodes for the large instances, 40000 otherwise (a refutation that needs more
        # is reported as undecided; the axioms are compared in any case)
        return sat.solve(n, cls, max_nodes=3000 if _BOUNDED['on'] else 40000) is not None
    except sat.Budget:
        return None


def model_count(F):
    n = F.number_of_variables()
    if n <= 22:
        return tt.popcount(tt.formula_tt(F))
    cls = as_clauses(F)
    if cls is None:
        return None
    return sat.count(n, cls)


# ---------------------------------------------------------------------------
# ordering principles

def op_reference(n, adj, total, smart, plant, knuth, X):
    """X(u,v): literal meaning 'u < v'."""
    V = range(1, n + 1)
    ax = []
    for v in V:
        if v == n and plant:
            continue
        ax.append([X(u, v) for u in sorted(adj[v])])
    if smart:
        for v1, v2, v3 in itertools.combinations(V, 3):
            # the two cyclic orientations of a triple are excluded
            ax.append([-X(v1, v2), -X(v2, v3), -X(v3, v1)])
            ax.append([-X(v1, v3), -X(v3, v2), -X(v2, v1)])
        return ax
    for v1, v2, v3 in itertools.permutations(V, 3):
        if knuth == 2 and not (v2 > v1 and v2 > v3):
            continue
        if knuth == 3 and not (v3 > v1 and v3 > v2):
            continue
        ax.append([-X(v1, v2), -X(v2, v3), X(v1, v3)])
    for v1, v2 in itertools.combinations(V, 2):
        ax.append([-X(v1, v2), -X(v2, v1)])
        if total:
            ax.append([X(v1, v2), X(v2, v1)])
    return ax


def planted_order_exists(n, adj):
    """Is there a linear order where every vertex but n has a smaller neighbour?
    (the minimum of such an order has no smaller neighbour, so it is n, and following smaller neighbours leads
    every vertex down to n: such an order exists exactly when every vertex is connected to n; for n<=7 the
    permutations are also enumerated and the two answers must agree)"""
    seen, todo = {n}, [n]
    while todo:
        v = todo.pop()
        for u in adj[v]:
            if u not in seen:
                seen.add(u)
                todo.append(u)
    connected = len(seen) == n
    if n <= 7:
        brute = False
        for order in itertools.permutations(range(1, n + 1)):
            pos = {v: i for i, v in enumerate(order)}
            if all(v == n or any(pos[u] < pos[v] for u in adj[v]) for v in range(1, n + 1)):
                brute = True
                break
        if brute != connected:
            raise RuntimeError("harness: planted_order_exists disagrees with its brute force on {}".format(adj))
    return connected


def run_op(case):
    from cnfgen import OrderingPrinciple, GraphOrderingPrinciple
    n = case['n']
    total, smart, plant, knuth = case['total'], case['smart'], case['plant'], case['knuth']
    cls = formula_class(case['cls'])
    if case['edges'] is None:
        edges = gg.all_pairs(n)
        F = OrderingPrinciple(n, total=total, smart=smart, plant=plant, knuth=knuth, formula_class=cls)
    else:
        edges = [tuple(e) for e in case['edges']]
        G = gg.build_simple({'n': n, 'edges': case['edges'], 'as': case.get('as', 'cnfgen')})
        F = GraphOrderingPrinciple(G, total=total, smart=smart, plant=plant, knuth=knuth, formula_class=cls)
    adj = gg.adjacency(n, edges)
    nv = F.number_of_variables()
    dec = names.group(names.decode(F), 'x')
    if smart:
        expect_indices(dec, gg.all_pairs(n), "OP {}".format(case))
        X = lambda u, v: dec[(u, v)] if u < v else -dec[(v, u)]     # noqa
    else:
        expect_indices(dec, [(u, v) for u in range(1, n + 1) for v in range(1, n + 1) if u != v], "OP {}".format(case))
        X = lambda u, v: dec[(u, v)]     # noqa
    if nv != len(dec):
        raise Violation("OP {}: {} variables but {} named x".format(case, nv, len(dec)))
    compared = compare_axioms(F, op_reference(n, adj, total, smart, plant, knuth, X), "OrderingPrinciple", case)
    labels = [case['cls'], 'complete' if case['edges'] is None else 'graph',
              'smart' if smart else ('total' if total else 'partial'), 'plant' if plant else 'noplant',
              'knuth{}'.format(knuth if knuth in (2, 3) else (0 if not knuth else 'other'))]
    if compared:
        labels.append('axioms-compared')
    if n == 0:
        return Outcome(labels=labels + ['degenerate'], nontrivial=False)
    s = satisfiable(F)
    if s is None:
        return Outcome(labels=labels + ['too-large'], nontrivial=bool(compared) and _BOUNDED['on'])
    if not plant:
        if s:
            raise Violation("OP {}: documented contradiction is satisfiable".format(case))
        labels.append('unsat')
    else:
        ex = planted_order_exists(n, adj)
        if ex and not s:
            raise Violation("OP {}: planted formula unsatisfiable although an order with the single allowed minimum exists".format(case))
        if s and not ex and knuth not in (2, 3):
            raise Violation("OP {}: planted formula satisfiable although no admissible order exists".format(case))
        labels.append('planted-sat' if s else 'planted-unsat')
    return Outcome(labels=labels, nontrivial=nv >= 2 and len(F) >= 1)


def _op_variants():
    for total, smart in ((False, False), (True, False), (False, True), (True, True)):
        for plant in (False, True):
            for knuth in (0, 2, 3, 1, 4, None):          # 'anything else suppresses it': 1, 4 and None are the plain formula
                if smart and knuth not in (0, 2, 3):
                    continue                          # (the compact version has its own transitivity axioms: knuth 2/3 change nothing there)
                yield total, smart, plant, knuth


def enum_op(tier):
    nmax_complete = 5 if tier == 'quick' else 6
    i = 0
    for n in range(0, nmax_complete + 1):
        for total, smart, plant, knuth in _op_variants():
            i += 1
            yield {'n': n, 'edges': None, 'total': total, 'smart': smart, 'plant': plant, 'knuth': knuth,
                   'cls': 'OPB' if (i % 3 == 0 and n <= 4) else 'CNF'}
    gmax = 4
    for g in gg.all_simple_graphs(gmax, 1):
        for total, smart, plant, knuth in _op_variants():
            i += 1
            if tier == 'quick' and g['n'] == 4 and i % 4:
                continue
            yield {'n': g['n'], 'edges': g['edges'], 'total': total, 'smart': smart, 'plant': plant, 'knuth': knuth,
                   'cls': 'OPB' if i % 5 == 0 else 'CNF', 'as': gg.SIMPLE_ROT[i % len(gg.SIMPLE_ROT)]}


@st.composite
def strat_op(draw):
    g = draw(gg.simple_graphs(nmin=1, nmax=5))
    total, smart, plant, knuth = draw(st.sampled_from(list(_op_variants())))
    return {'n': g['n'], 'edges': g['edges'], 'total': total, 'smart': smart, 'plant': plant, 'knuth': knuth,
            'cls': 'CNF', 'as': g['as']}


# ---------------------------------------------------------------------------
# pebbling and stone formulas

def run_peb(case):
    from cnfgen import PebblingFormula
    g = case['graph']
    n, edges = g['n'], [tuple(e) for e in g['edges']]
    D = gg.build_digraph(g)
    isdag = all(u < v for u, v in edges)
    try:
        F = PebblingFormula(D, formula_class=formula_class(case['cls']))
    except ValueError:
        if not isdag:
            return Outcome(labels=['non-dag-rejected'], rejected=True, nontrivial=True)
        raise Violation("PebblingFormula {} raised ValueError on a topologically sorted DAG".format(case))
    if not isdag:
        raise Violation("PebblingFormula {} accepted a graph with a backward edge".format(case))
    dec = names.group(names.decode(F), 'x')
    expect_indices(dec, [(v,) for v in range(1, n + 1)], "Pebbling {}".format(case))
    pred = {v: sorted(u for u, w in edges if w == v) for v in range(1, n + 1)}
    outdeg = {v: sum(1 for u, w in edges if u == v) for v in range(1, n + 1)}
    ref = []
    for v in range(1, n + 1):
        ref.append([-dec[(p,)] for p in pred[v]] + [dec[(v,)]])
        if outdeg[v] == 0:
            ref.append([-dec[(v,)]])
    compare_axioms(F, ref, "PebblingFormula", case)
    labels = [case['cls'], g.get('as', 'cnfgen')]
    if n == 0:
        return Outcome(labels=labels + ['degenerate'], nontrivial=False)
    if satisfiable(F):
        raise Violation("PebblingFormula {}: satisfiable".format(case))
    sinks = sum(1 for v in outdeg if outdeg[v] == 0)
    if sinks > 1:
        labels.append('dag-with-several-sinks')
    if any(not pred[v] for v in pred) and len([v for v in pred if not pred[v]]) > 1:
        labels.append('several-sources')
    return Outcome(labels=labels + ['unsat'], nontrivial=n >= 2)


def enum_peb(tier):
    nmax = 5 if tier == 'quick' else 6
    for i, g in enumerate(gg.all_dags(nmax, 0)):
        c = dict(g)
        c['as'] = gg.DAG_ROT[i % len(gg.DAG_ROT)]
        yield {'graph': c, 'cls': 'OPB' if i % 2 else 'CNF'}
    for i, g in enumerate(gg.all_digraphs(3, 1)):
        if any(u >= v for u, v in g['edges']):
            c = dict(g)
            c['as'] = 'cnfgen'
            yield {'graph': c, 'cls': 'CNF'}


@st.composite
def strat_peb(draw):
    g = draw(gg.dags(nmin=1, nmax=12, max_edges=30))
    return {'graph': g, 'cls': draw(st.sampled_from(['CNF', 'OPB']))}


def stone_reference(n, edges, allowed, P, R):
    """allowed[v]: stones available at vertex v."""
    pred = {v: sorted(u for u, w in edges if w == v) for v in range(1, n + 1)}
    outdeg = {v: sum(1 for u, w in edges if u == v) for v in range(1, n + 1)}
    ref = []
    for v in range(1, n + 1):
        ref.append([P(v, j) for j in allowed[v]])
        for j in allowed[v]:
            for pattern in itertools.product(*[allowed[p] for p in pred[v]]):
                ref.append([-P(p, s) for p, s in zip(pred[v], pattern)] + [-P(v, j)] +
                           [-R(s) for s in pattern] + [R(j)])
        if outdeg[v] == 0:
            for j in allowed[v]:
                ref.append([-P(v, j), -R(j)])
    return ref


def run_stone(case):
    from cnfgen import StoneFormula, SparseStoneFormula
    g = case['graph']
    n, edges = g['n'], [tuple(e) for e in g['edges']]
    D = gg.build_digraph(g)
    cls = formula_class(case['cls'])
    if case['B'] is None:
        s = case['stones']
        F = StoneFormula(D, s, formula_class=cls)
        allowed = {v: list(range(1, s + 1)) for v in range(1, n + 1)}
    else:
        b = case['B']
        s = b['R']
        F = SparseStoneFormula(D, gg.build_bipartite(b), formula_class=cls)
        allowed = {v: sorted(j for u, j in map(tuple, b['edges']) if u == v) for v in range(1, n + 1)}
    dec = names.decode(F)
    Pg, Rg = names.group(dec, 'P'), names.group(dec, 'R')
    expect_indices(Rg, [(j,) for j in range(1, s + 1)], "Stone R {}".format(case))
    expect_indices(Pg, [(v, j) for v in range(1, n + 1) for j in allowed[v]], "Stone P {}".format(case))
    if F.number_of_variables() != len(Pg) + len(Rg):
        raise Violation("Stone {}: {} variables, documented stones + allowed pairs = {}".format(
            case, F.number_of_variables(), len(Pg) + len(Rg)))
    ref = stone_reference(n, edges, allowed, lambda v, j: Pg[(v, j)], lambda j: Rg[(j,)])
    compare_axioms(F, ref, "StoneFormula", case)
    labels = [case['cls'], 'sparse' if case['B'] is not None else 'dense']
    if n == 0:
        return Outcome(labels=labels + ['degenerate'], nontrivial=False)
    sres = satisfiable(F)
    if sres is None:
        return Outcome(labels=labels + ['too-large'], nontrivial=False)
    if sres:
        raise Violation("StoneFormula {}: satisfiable".format(case))
    if any(not allowed[v] for v in allowed):
        labels.append('vertex-without-stone')
    if s == 0:
        labels.append('no-stones')
    outdeg = {v: sum(1 for u, w in edges if u == v) for v in range(1, n + 1)}
    if sum(1 for v in outdeg if outdeg[v] == 0) > 1:
        labels.append('dag-with-several-sinks')
    return Outcome(labels=labels + ['unsat'], nontrivial=F.number_of_variables() >= 2 and len(F) >= 2)


def enum_stone(tier):
    nmax = 3 if tier == 'quick' else 4
    i = 0
    for g in gg.all_dags(nmax, 0):
        for s in range(0, 4):
            if s + g['n'] * s > 16:
                continue
            i += 1
            c = dict(g)
            c['as'] = gg.DAG_ROT[i % len(gg.DAG_ROT)]
            yield {'graph': c, 'stones': s, 'B': None, 'cls': 'OPB' if i % 3 == 0 else 'CNF'}


@st.composite
def strat_stone(draw):
    g = draw(gg.dags(nmin=1, nmax=5, max_edges=7))
    n = g['n']
    maxpred = max([0] + [sum(1 for u, w in g['edges'] if w == v) for v in range(1, n + 1)])
    if draw(st.booleans()):
        smax = 3 if maxpred <= 2 else 2
        return {'graph': g, 'stones': draw(st.integers(0, smax)), 'B': None, 'cls': draw(st.sampled_from(['CNF', 'OPB']))}
    R = draw(st.integers(0, 4))
    kind = draw(st.sampled_from(['cnfgen', 'networkx']))
    pairs = [(v, j) for v in range(1, n + 1) for j in range(1, R + 1)]
    edges = []
    for v in range(1, n + 1):
        k = draw(st.integers(0, min(R, 3 if maxpred <= 2 else 2)))
        js = draw(st.lists(st.integers(1, R), min_size=k, max_size=k, unique=True)) if R else []
        edges.extend([v, j] for j in sorted(js))
    return {'graph': g, 'stones': R, 'B': {'L': n, 'R': R, 'edges': edges, 'as': kind},
            'cls': draw(st.sampled_from(['CNF', 'OPB']))}


# ---------------------------------------------------------------------------
# CPLS

def run_cpls(case):
    from cnfgen import CPLSFormula
    a, b, c = case['a'], case['b'], case['c']
    pow2 = lambda x: x >= 1 and x & (x - 1) == 0     # noqa
    try:
        F = CPLSFormula(a, b, c, formula_class=formula_class(case['cls']))
    except ValueError:
        if pow2(b) and pow2(c) and a >= 1:
            raise Violation("CPLSFormula {} raised ValueError for legal parameters".format(case))
        return Outcome(labels=['rejected-not-power-of-two'], rejected=True, nontrivial=True)
    if not (pow2(b) and pow2(c)):
        raise Violation("CPLSFormula {} accepted b or c that is not a power of two".format(case))
    lb, lc = b.bit_length() - 1, c.bit_length() - 1
    nv = F.number_of_variables()
    if nv != a * b * c + a * b * lb + b * lc:
        raise Violation("CPLS {}: {} variables, documented {}".format(case, nv, a * b * c + a * b * lb + b * lc))
    dec = names.decode(F)
    G, f, u = names.group(dec, 'G'), names.group(dec, 'f'), names.group(dec, 'u')
    expect_indices(G, [(i, x, y) for i in range(1, a + 1) for x in range(1, b + 1) for y in range(1, c + 1)], "CPLS G")
    expect_indices(f, [(i, x, j) for i in range(1, a + 1) for x in range(1, b + 1) for j in range(lb)], "CPLS f")
    expect_indices(u, [(x, j) for x in range(1, b + 1) for j in range(lc)], "CPLS u")

    def differs(var_of_bit, nbits, value):
        """clause literals true iff the binary number differs from value"""
        return [(-var_of_bit(j) if (value >> j) & 1 else var_of_bit(j)) for j in range(nbits)]
    ref = []
    for y in range(1, c + 1):
        ref.append([-G[(1, 1, y)]])
    for i in range(1, a):
        for x in range(1, b + 1):
            for xx in range(1, b + 1):
                for y in range(1, c + 1):
                    ref.append(differs(lambda j: f[(i, x, j)], lb, xx - 1) + [-G[(i + 1, xx, y)], G[(i, x, y)]])
    for x in range(1, b + 1):
        for y in range(1, c + 1):
            ref.append(differs(lambda j: u[(x, j)], lc, y - 1) + [G[(a, x, y)]])
    compare_axioms(F, ref, "CPLSFormula", case)
    s = satisfiable(F)
    if s is None:
        return Outcome(labels=['too-large'], nontrivial=False)
    if s:
        raise Violation("CPLSFormula {}: satisfiable".format(case))
    return Outcome(labels=[case['cls'], 'unsat', 'a={}'.format(min(a, 3))], nontrivial=nv >= 2)


def enum_cpls(tier):
    for a in range(1, 4 if tier == 'quick' else 5):
        for b in (1, 2, 3, 4, 6, 8):
            for c in (1, 2, 3, 4, 5, 8):
                nv = a * b * c + a * b * max(0, b.bit_length() - 1) + b * max(0, c.bit_length() - 1)
                if nv > (60 if tier == 'quick' else 110):
                    continue
                yield {'a': a, 'b': b, 'c': c, 'cls': 'CNF'}
                if nv <= 22:
                    yield {'a': a, 'b': b, 'c': c, 'cls': 'OPB'}


# ---------------------------------------------------------------------------
# Pitfall

def run_pitfall(case):
    from cnfgen import PitfallFormula
    v, d, ny, nz, k = case['v'], case['d'], case['ny'], case['nz'], case['k']
    random.seed(case['rseed'])
    F = PitfallFormula(v, d, ny, nz, k)
    dec = names.decode(F)
    nx = v * d // 2
    nv = F.number_of_variables()
    exp_nv = k * (nx + ny + nz + (nx + nz) + 3)
    if nv != exp_nv:
        raise Violation("Pitfall {}: {} variables, documented k*(|E|+ny+nz+(|E|+nz)+3) = {}".format(case, nv, exp_nv))
    e = names.group(dec, 'e')        # (j,u,w)
    z = names.group(dec, 'z')        # (j,i)
    copies = sorted(set(key[0] for key in e))
    if copies != list(range(1, k + 1)):
        raise Violation("Pitfall {}: hard variables for copies {} instead of 1..k".format(case, copies))
    edgesets = [sorted((u, w) for (j, u, w) in e if j == jj) for jj in copies]
    if any(es != edgesets[0] for es in edgesets):
        raise Violation("Pitfall {}: the copies are not on the same graph".format(case))
    edges = edgesets[0]
    deg = {}
    for a, b in edges:
        deg[a] = deg.get(a, 0) + 1
        deg[b] = deg.get(b, 0) + 1
    if len(edges) != nx or any(deg.get(x, 0) != d for x in range(1, v + 1)):
        raise Violation("Pitfall {}: the hard graph is not {}-regular on {} vertices: {}".format(case, d, v, edges))
    expect_indices(z, [(j, i) for j in range(1, k + 1) for i in range(1, nz + 1)], "Pitfall z")
    cls = [list(c) for c in F]
    for j in copies:
        ev = {(u, w): vid for (jj, u, w), vid in e.items() if jj == j}
        evars = set(ev.values())
        zv = set(vid for (jj, i), vid in z.items() if jj == j)
        hard = []
        for c in cls:
            vs = set(abs(l) for l in c)
            if vs & evars and vs <= evars | zv:
                if not all(x in c for x in zv):
                    raise Violation("Pitfall {}: a hard clause of copy {} lacks a safety variable: {}".format(case, j, c))
                hard.append([l for l in c if abs(l) in evars])
        ref = []
        for x in range(1, v + 1):
            inc = [ev[ed] for ed in edges if x in ed]
            charge = 1 if x == 1 else 0
            for signs in itertools.product([1, -1], repeat=len(inc)):
                negs = sum(1 for s_ in signs if s_ < 0)
                # clause falsified by the assignment that makes every literal false: vars with sign+ false, sign- true
                # parity of true vars = negs; forbidden iff negs % 2 != charge
                if negs % 2 != charge:
                    ref.append([s_ * var for s_, var in zip(signs, inc)])
        got = set(frozenset(c) for c in hard)
        want = set(frozenset(c) for c in ref)
        if got != want:
            raise Violation("Pitfall {}: hard part of copy {} is not the Tseitin formula of the graph {} with an odd charge on vertex 1 ({} missing, {} extra clauses)".format(
                case, j, edges, len(want - got), len(got - want)))
    # pitfall gadgets [MV20, and the comments of the generator]: in every copy, any two easy variables trigger every
    # pitfall variable: y_a v y_b v ~p_t for all a<b and all t in 1..|E|+nz
    y = names.group(dec, 'y')
    p = names.group(dec, 'p')
    expect_indices(y, [(j, i) for j in range(1, k + 1) for i in range(1, ny + 1)], "Pitfall y")
    expect_indices(p, [(j, i) for j in range(1, k + 1) for i in range(1, nx + nz + 1)], "Pitfall p")
    yv = {vid: key for key, vid in y.items()}
    pv = {vid: key for key, vid in p.items()}
    got = set()
    for c in cls:
        if len(c) == 3 and sorted(l > 0 for l in c) == [False, True, True]:
            pos = [l for l in c if l > 0]
            neg = [-l for l in c if l < 0]
            if all(l in yv for l in pos) and neg[0] in pv:
                got.add((frozenset(pos), neg[0]))
    want = set()
    for j in range(1, k + 1):
        for a in range(1, ny + 1):
            for b in range(a + 1, ny + 1):
                for t in range(1, nx + nz + 1):
                    want.add((frozenset((y[(j, a)], y[(j, b)])), p[(j, t)]))
    if got != want:
        raise Violation("Pitfall {}: the pitfall gadgets 'y_a v y_b v ~p_t' are not the documented ones: {} missing, {} extra".format(
            case, len(want - got), len(got - want)))
    # every part has a fixed number of distinct clauses: hard (Tseitin) + pitfall + pipe + tail (two per z, two per pair y,z)
    # + easy part (one per pair of consecutive y); repetitions of a clause are not counted (the tail repeats its first two
    # clauses for every y, which is immaterial)
    exp_rows = k * (v * 2 ** (d - 1) + (ny * (ny - 1) // 2) * (nx + nz) + ny * (nx + nz) + 2 * nz + 2 * ny * nz) + ny // 2
    distinct = len(set(frozenset(c) for c in cls))
    if distinct != exp_rows:
        raise Violation("Pitfall {}: {} distinct clauses, the five parts add up to {}".format(case, distinct, exp_rows))
    if sat.is_sat(nv, cls):
        raise Violation("Pitfall {}: the formula is satisfiable".format(case))
    return Outcome(labels=['unsat', 'k={}'.format(k), 'd={}'.format(d), 'ny={}'.format(min(ny, 3))], nontrivial=True)


def enum_pitfall(tier):
    seeds = range(3) if tier == 'quick' else range(12)
    for v, d in ((4, 3), (4, 2), (3, 2), (5, 2), (6, 3), (5, 4), (6, 2)):
        for ny in (2, 3, 4):
            for nz in (2, 3):
                for k in (2, 4):
                    if tier == 'quick' and (k == 4 or v > 5) and (ny + nz) % 2:
                        continue
                    for rs in seeds:
                        yield {'v': v, 'd': d, 'ny': ny, 'nz': nz, 'k': k, 'rseed': 1000 * rs + v + d}


# ---------------------------------------------------------------------------
# Ramsey numbers, van der Waerden, Pythagorean triples

def count_ramsey_graphs(N, s, k):
    P = gg.all_pairs(N)
    idx = {p: i for i, p in enumerate(P)}
    cnt = 0
    sets_s = [[idx[p] for p in itertools.combinations(S, 2)] for S in itertools.combinations(range(1, N + 1), s)]
    sets_k = [[idx[p] for p in itertools.combinations(S, 2)] for S in itertools.combinations(range(1, N + 1), k)]
    for mask in range(1 << len(P)):
        ok = True
        for S in sets_s:
            if not any((mask >> i) & 1 for i in S):
                ok = False
                break
        if ok:
            for S in sets_k:
                if all((mask >> i) & 1 for i in S):
                    ok = False
                    break
        if ok:
            cnt += 1
    return cnt


def run_ramsey(case):
    from cnfgen import RamseyNumber
    s, k, N = case['s'], case['k'], case['N']
    F = RamseyNumber(s, k, N, formula_class=formula_class(case['cls']))
    if F.number_of_variables() != comb(N, 2):
        raise Violation("RamseyNumber {}: {} variables, documented C(N,2)".format(case, F.number_of_variables()))
    dec = names.group(names.decode(F), 'e')
    expect_indices(dec, gg.all_pairs(N), "RamseyNumber {}".format(case))
    ref = []
    for S in itertools.combinations(range(1, N + 1), s):
        ref.append([dec[p] for p in itertools.combinations(S, 2)])
    for S in itertools.combinations(range(1, N + 1), k):
        ref.append([-dec[p] for p in itertools.combinations(S, 2)])
    compare_axioms(F, ref, "RamseyNumber", case)
    cnt = model_count(F)
    exp = count_ramsey_graphs(N, s, k)
    if cnt != exp:
        raise Violation("RamseyNumber {}: {} models but {} graphs without {}-independent set and {}-clique".format(case, cnt, exp, s, k))
    known = {(3, 3): 6, (3, 4): 9, (4, 3): 9, (2, 2): 2, (2, 3): 3, (3, 2): 3, (2, 4): 4, (4, 2): 4, (2, 5): 5, (5, 2): 5}
    if (s, k) in known and (cnt > 0) != (known[(s, k)] > N):
        raise Violation("RamseyNumber {}: satisfiable={} but r({},{})={}".format(case, cnt > 0, s, k, known[(s, k)]))
    return Outcome(labels=[case['cls'], 'sat' if cnt else 'unsat'], nontrivial=F.number_of_variables() >= 2 and len(F) >= 1)


def enum_ramsey(tier):
    Nmax = 5 if tier == 'quick' else 6
    for s in range(1, 6):
        for k in range(1, 6):
            for N in range(0, Nmax + 1):
                yield {'s': s, 'k': k, 'N': N, 'cls': 'OPB' if (s + k + N) % 3 == 0 else 'CNF'}


def progressions(N, k):
    """arithmetic progressions of length k inside 1..N (length 1: every single number)"""
    if k == 1:
        return [[i] for i in range(1, N + 1)]
    out = []
    for i in range(1, N + 1):
        d = 1
        while i + (k - 1) * d <= N:
            out.append([i + t * d for t in range(k)])
            d += 1
    return out


def run_vdw(case):
    from cnfgen import VanDerWaerden
    N, K = case['N'], case['K']
    F = VanDerWaerden(N, *K, formula_class=formula_class(case['cls']))
    t = len(K)
    nv = F.number_of_variables()
    if nv != (N if t == 2 else N * t):
        raise Violation("VanDerWaerden {}: {} variables, documented {}".format(case, nv, N if t == 2 else N * t))
    dec = names.group(names.decode(F), 'x')
    FULL = tt.full(nv)
    if t == 2:
        expect_indices(dec, [(i,) for i in range(1, N + 1)], "vdw {}".format(case))
        # one boolean per number: the two values are the two colours; which value is colour 1 is a naming choice
        def colour(i, c, flip):
            m = tt.var_mask(nv, dec[(i,)])
            return m if (c == 1) != flip else FULL & ~m
        wants = []
        for flip in (False, True):
            want = FULL
            for c in (1, 2):
                for ap in progressions(N, K[c - 1]):
                    allc = FULL
                    for i in ap:
                        allc &= colour(i, c, flip)
                    want &= FULL & ~allc
            wants.append(want)
        got = tt.formula_tt(F)
        if got not in wants:
            raise Violation("VanDerWaerden {}: the models are not the 2-colourings of 1..N avoiding the progressions".format(case))
        cnt = tt.popcount(got)
    else:
        expect_indices(dec, [(i, c) for i in range(1, N + 1) for c in range(1, t + 1)], "vdw {}".format(case))
        want = FULL
        for i in range(1, N + 1):
            want &= tt.exactly(nv, [tt.var_mask(nv, dec[(i, c)]) for c in range(1, t + 1)], 1)
        for c in range(1, t + 1):
            for ap in progressions(N, K[c - 1]):
                allc = FULL
                for i in ap:
                    allc &= tt.var_mask(nv, dec[(i, c)])
                want &= FULL & ~allc
        got = tt.formula_tt(F)
        if got != want:
            a = tt.first_row(got ^ want)
            raise Violation("VanDerWaerden {}: assignment {} is {} but 'a colouring avoiding the progressions' is {}".format(
                case, tt.row_assignment(nv, a), 'accepted' if (got >> a) & 1 else 'rejected', bool((want >> a) & 1)))
        cnt = tt.popcount(got)
    # encoding-free count for tiny cases
    if t ** N <= 20000:
        exp = 0
        aps = [progressions(N, K[c]) for c in range(t)]
        for col in itertools.product(range(t), repeat=N):
            if all(not all(col[i - 1] == c for i in ap) for c in range(t) for ap in aps[c]):
                exp += 1
        if cnt != exp:
            raise Violation("VanDerWaerden {}: {} models but {} admissible colourings".format(case, cnt, exp))
    known = {(3, 3): 9, (3, 4): 18, (4, 3): 18, (3, 3, 3): 27, (2, 2): 3, (2, 3): 6, (3, 2): 6}
    if tuple(K) in known and (cnt > 0) != (known[tuple(K)] > N):
        raise Violation("VanDerWaerden {}: satisfiable={} but vdw{}={}".format(case, cnt > 0, tuple(K), known[tuple(K)]))
    labels = [case['cls'], 'sat' if cnt else 'unsat', 't=2' if t == 2 else 't>=3']
    if 1 in K:
        labels.append('length-1-progression')
    return Outcome(labels=labels, nontrivial=nv >= 2 and len(F) >= 1)


def enum_vdw(tier):
    maxv = 16 if tier == 'quick' else 20
    for t in (2, 3, 4):
        for K in itertools.product(range(1, 5 if t == 2 else 4), repeat=t):
            for N in range(0, maxv + 1):
                nv = N if t == 2 else N * t
                if nv > maxv:
                    continue
                if tier == 'quick' and t == 4 and (N + sum(K)) % 3:
                    continue
                yield {'N': N, 'K': list(K), 'cls': 'OPB' if (N + sum(K)) % 4 == 0 else 'CNF'}


def run_ptn(case):
    from cnfgen import PythagoreanTriples
    N = case['N']
    F = PythagoreanTriples(N, formula_class=formula_class(case['cls']))
    if F.number_of_variables() != N:
        raise Violation("PythagoreanTriples {}: {} variables".format(case, F.number_of_variables()))
    dec = names.group(names.decode(F), 'v')
    expect_indices(dec, [(i,) for i in range(1, N + 1)], "ptn {}".format(case))
    triples = []
    for x in range(1, N + 1):
        for y in range(x + 1, N + 1):
            z2 = x * x + y * y
            z = isqrt(z2)
            if z * z == z2 and z <= N:
                triples.append((x, y, z))
    ref = []
    for x, y, z in triples:
        ref.append([dec[(x,)], dec[(y,)], dec[(z,)]])
        ref.append([-dec[(x,)], -dec[(y,)], -dec[(z,)]])
    compare_axioms(F, ref, "PythagoreanTriples", case)
    labels = [case['cls']]
    if N <= 22:
        cnt = model_count(F)
        exp = 0
        inv = sorted(set(i for tr in triples for i in tr))
        pos = {i: p for p, i in enumerate(inv)}
        for mask in range(1 << len(inv)):
            if all(len({(mask >> pos[i]) & 1 for i in tr}) == 2 for tr in triples):
                exp += 1
        exp <<= (N - len(inv))
        if cnt != exp:
            raise Violation("PythagoreanTriples {}: {} models but {} colourings without monochromatic triple".format(case, cnt, exp))
        labels.append('counted')
    if triples:
        labels.append('has-triples')
    return Outcome(labels=labels, nontrivial=N >= 5)


def enum_ptn(tier):
    Nmax = 120 if tier == 'quick' else 400
    for N in range(0, Nmax + 1):
        yield {'N': N, 'cls': 'OPB' if N % 5 == 0 else 'CNF'}


NT = "non-trivial: >=2 variables and >=1 clause; distinct by parameters/edge list/seed"

SUBCHECKS = [
    SubCheck('op', run_op, enumerate_cases=enum_op, strategy=strat_op, quick=150, thorough=6000,
             rule="OrderingPrinciple N<=5 (thorough 6) and GraphOrderingPrinciple on every graph with 1..4 vertices (Hypothesis: 5) x {partial,total,smart} x plant x knuth{0,2,3 and 1,4,None which the documentation declares equal to 0; smart combined with knuth 2/3, where the compact transitivity axioms must stay}; oracle: clause set == reference axioms by name, unsatisfiable (tt/DPLL), planted: satisfiable iff a linear order with only vertex n as local minimum exists (brute force); " + NT,
             required_labels=['unsat', 'planted-sat', 'planted-unsat', 'knuth2', 'knuth3', 'knuthother', 'smart', 'total', 'partial', 'graph', 'complete', 'axioms-compared']),
    SubCheck('peb', run_peb, enumerate_cases=enum_peb, strategy=strat_peb, quick=150, thorough=5000,
             rule="PebblingFormula on every topologically sorted DAG <=5 (thorough 6) vertices, Hypothesis DAGs <=12 vertices, and every non-DAG on <=3 vertices (must raise ValueError); oracle: clause set == reference axioms, unsatisfiable; " + NT,
             required_labels=['unsat', 'dag-with-several-sinks', 'non-dag-rejected']),
    SubCheck('stone', run_stone, enumerate_cases=enum_stone, strategy=strat_stone, quick=250, thorough=8000,
             rule="StoneFormula on every DAG <=3 (thorough 4) vertices x 0..3 stones; Hypothesis DAGs <=5 vertices with dense or sparse (random availability graph, possibly a vertex without stone) stones; oracle: clause set == reference axioms (every vertex has a stone / induction for every stone choice / blue sinks), unsatisfiable; " + NT,
             required_labels=['unsat', 'sparse', 'dense', 'vertex-without-stone', 'dag-with-several-sinks', 'no-stones']),
    SubCheck('cpls', run_cpls, enumerate_cases=enum_cpls,
             rule="CPLSFormula a in 1..3(4), b in {1,2,3,4,6,8}, c in {1,2,3,4,5,8} up to 60 (110) variables; non powers of two must raise ValueError; oracle: clause set == axioms 1-3 with 0-based binary codes, unsatisfiable (tt/DPLL); " + NT,
             required_labels=['unsat', 'rejected-not-power-of-two']),
    SubCheck('pitfall', run_pitfall, enumerate_cases=enum_pitfall, max_shards=16,
             rule="PitfallFormula over (v,d) in {(4,3),(4,2),(3,2),(5,2),(6,3),(5,4),(6,2)}, ny in 2..4, nz in 2..3, k in {2,4}, 3 (12) seeds of the global generator; oracle: variable count, d-regular graph, every copy's pitfall gadgets == {y_a v y_b v ~p_t}, clause count == sum of the five parts, every copy's hard part == Tseitin clauses + safety variables, unsatisfiable (DPLL); non-trivial: all",
             required_labels=['unsat', 'k=2', 'k=4', 'ny=3']),
    SubCheck('ramsey', run_ramsey, enumerate_cases=enum_ramsey,
             rule="RamseyNumber(s,k,N) s,k in 1..5, N in 0..5 (6); oracle: clause set == reference, model count == number of graphs on N vertices without s-independent set and k-clique (brute force over all graphs), known Ramsey numbers; " + NT,
             required_labels=['sat', 'unsat']),
    SubCheck('vdw', run_vdw, enumerate_cases=enum_vdw,
             rule="VanDerWaerden(N,k1..kt) t in 2..4, lengths 1..4 (1..3 for t>2), <=16 (20) variables; oracle: model set == colourings avoiding the progressions enumerated from the definition (length 1 = every single number), brute-force count for tiny cases, known vdW numbers; " + NT,
             required_labels=['sat', 'unsat', 'length-1-progression', 't>=3', 't=2']),
    SubCheck('ptn', run_ptn, enumerate_cases=enum_ptn,
             rule="PythagoreanTriples(N) N in 0..120 (400); oracle: clause set == triples found with integer isqrt; model count for N<=22; non-trivial: N>=5",
             required_labels=['has-triples', 'counted']),
]


# ---------------------------------------------------------------------------
# larger instances: the axioms by name (no truth table needed), satisfiability where a bounded search decides it

def run_large(case):
    _BOUNDED['on'] = True
    try:
        out = {'op': run_op, 'peb': run_peb, 'stone': run_stone}[case['family']](case['case'])
    finally:
        _BOUNDED['on'] = False
    return Outcome(labels=[case['family'], 'large'] + list(out.labels or []), nontrivial=out.nontrivial, rejected=out.rejected)


@st.composite
def strat_large(draw):
    fam = draw(st.sampled_from(['op', 'op', 'peb', 'stone']))
    kinds = ('cnfgen', 'networkx', 'networkx-rev', 'cnfgen-grown')
    if fam == 'op':
        total, smart, plant, knuth = draw(st.sampled_from(list(_op_variants())))
        if draw(st.booleans()):
            c = {'n': draw(st.integers(7, 13)), 'edges': None}
        else:
            g = draw(gg.simple_graphs(nmin=8, nmax=16, max_edges=50, kinds=kinds))
            c = {'n': g['n'], 'edges': g['edges'], 'as': g['as']}
        c.update(total=total, smart=smart, plant=plant, knuth=knuth, cls=draw(st.sampled_from(['CNF', 'CNF', 'OPB'])))
        return {'family': fam, 'case': c}
    if fam == 'peb':
        g = draw(gg.dags(nmin=13, nmax=60, max_edges=150))
        return {'family': fam, 'case': {'graph': g, 'cls': draw(st.sampled_from(['CNF', 'OPB']))}}
    g = draw(gg.dags(nmin=6, nmax=12, max_edges=16))
    # at most two predecessors per vertex (the induction axioms are stones^(predecessors+1) many)
    cnt, keep = {}, []
    for u, v in g['edges']:
        if cnt.get(v, 0) < 2:
            keep.append([u, v])
            cnt[v] = cnt.get(v, 0) + 1
    g = dict(g, edges=keep)
    if draw(st.booleans()):
        return {'family': fam, 'case': {'graph': g, 'stones': draw(st.integers(3, 7)), 'B': None, 'cls': 'CNF'}}
    R = draw(st.integers(3, 8))
    b = draw(gg.bipartite_graphs(Lmin=g['n'], Lmax=g['n'], Rmin=R, Rmax=R, max_edges=4 * g['n']))
    cntb, keepb = {}, []
    for u, j in b['edges']:
        if cntb.get(u, 0) < 4:
            keepb.append([u, j])
            cntb[u] = cntb.get(u, 0) + 1
    return {'family': fam, 'case': {'graph': g, 'stones': R, 'B': dict(b, edges=keepb), 'cls': 'CNF'}}


SUBCHECKS.append(
    SubCheck('large', run_large, strategy=strat_large, quick=200, thorough=8000,
             rule="OrderingPrinciple N in 7..13 and GraphOrderingPrinciple on graphs with 8..16 vertices (all variants, all object kinds), PebblingFormula on DAGs with 13..60 vertices, Stone/SparseStone formulas on DAGs with 6..12 vertices and 3..8 stones: oracle: clause set == reference axioms by name (complete, no sampling); contradiction/planted satisfiability confirmed where a 3000-node DPLL decides it; non-trivial: as in the small sub-checks",
             required_labels=['op', 'peb', 'stone', 'axioms-compared']))

# ---------------------------------------------------------------------------
# the same cases after other work in the same process

from vlib import after as _after   # noqa: E402

SUBCHECKS.append(_after.make(SUBCHECKS, inner=['op', 'op', 'op', 'peb', 'stone', 'cpls', 'ramsey', 'vdw', 'ptn'],
                             as_prefix=['op', 'peb', 'stone', 'ramsey', 'vdw'],
                             special=lambda case, out: ['edited-K_n-then-op'] if (case['sub'] == 'op' and 'complete' in (out.labels or []) and any(
                                 a[0] == 'complete' and a[2] != 'name' for a in case['prefix'])) else [],
                             required_labels=['edited-K_n-then-op', 'after:cli', 'after:dag', 'after:case', 'then:peb', 'then:op']))

# ---------------------------------------------------------------------------
# the same cases with the formula built by the command line tools

from vlib import viacli as _viacli   # noqa: E402

SUBCHECKS.append(_viacli.make(SUBCHECKS, inner=['op', 'peb', 'stone', 'cpls', 'ramsey', 'vdw', 'ptn'], required_labels=['built-by-tool', 'via:cnfgen', 'via:pbgen']))
