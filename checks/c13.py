"""C13 - random k-CNF and k-XOR formulas have exactly the promised shape."""
import random
import zlib
from math import comb

from hypothesis import strategies as st

from vlib.core import SubCheck, Violation, Outcome
from vlib import tt
from vlib import randref as rr

PROPERTY = "C13"
ASSUMPTIONS = [
    "planted assignments are total assignments without opposite literals (the docstrings declare opposite literals undefined; partial assignments are outside the property statement)",
    "two clauses are 'the same clause' when they are equal as sets of literals; two parities are the same when variable set and constant coincide",
    "the parity xor(S)=b is encoded by the 2^(|S|-1) clauses on S with the forbidden sign patterns (documented in add_parity); for |S|=0 the parity 0=0 contributes no clause and 0=1 the empty clause",
    "the oracles are independent of clause order, literal order and of which sampling path was taken; the path (sparse/dense) is observed only to label cases, through a pass-through wrapper around random.sample",
    "library: k=0, n=0 and m=0 are legal (non_negative_int); the only clause of width 0 is the empty clause, the only parities of width 0 are 0=0 and 0=1",
    "command line: <k> and <n> are parsed with positive_int, so k=0 or n=0 is 'gray': a clean CLIError or a correct formula are both accepted; every other error must be a CLIError (cli) / non-zero exit with empty stdout (main)",
    "with -p the planted assignment is not observable from outside: the check asks for the number of available clauses of *one* planted assignment (which does not depend on the assignment) and for a satisfiable output",
    "cli_planted_scale: the assignment planted by -p is read where cnfgen.clihelpers.simple_helpers hands it to RandomKCNF / RandomKXOR (a pass-through wrapper around the two names bound in that module; the arguments are forwarded unchanged); '-p plants a random satisfying assignment' is read as: exactly one total assignment of the variables 1..n",
    "beyond 12 variables no truth table is built: planted assignments are evaluated clause by clause, and the number of compatible clauses / parities is counted per class of variables on which the planted assignments agree (vlib/randref, compared with the brute-force count up to 7 variables on every call)",
    "exact boundary and wide clauses (planted_iterable, cases marked 'exact'): the maximum is computed in closed form with Python integers for at most two distinct planted assignments; requests at the maximum are generated only when the maximum is at most 4500 clauses / 1500 parities (thorough 20000), because the tree enumerates every clause there; beyond that only a handful of clauses is requested; k-XOR with more than 11 variables per parity is requested only with m = 0 (its encoding has 2^(k-1) clauses per parity)",
    "uniformity of the distribution is not tested",
    "formula_class is left at its default (CNF); the OPB rendering is C08's subject",
    "determinism under seed= / --seed is asserted only for equal arguments in the same process; --seed 0 is exercised for shape only (its being ignored is C07's finding 9)",
]

KINDS = ('cnf', 'xor')


def _fn(kind):
    if kind == 'cnf':
        from cnfgen.families.randomformulas import RandomKCNF
        return RandomKCNF
    from cnfgen.families.randomkxor import RandomKXOR
    return RandomKXOR


def _maxfor(kind, k, n, pbits):
    """Number of clauses / parities compatible with the planted set: by brute force up to
    12 variables, by counting per class of interchangeable variables beyond (the two
    computations are compared with each other up to 7 variables)."""
    pbits = tuple(pbits)
    if n <= 12:
        mx = rr.max_clauses(k, n, pbits) if kind == 'cnf' else rr.max_parities(k, n, pbits)
        if n > 7:
            return mx
    other = rr.max_clauses_by_classes(k, n, pbits) if kind == 'cnf' else rr.max_parities_by_classes(k, n, pbits)
    if n <= 7:
        assert mx == other, (kind, k, n, pbits, mx, other)
    return other


def _container(kind, seq):
    if kind == 'list':
        return list(seq)
    if kind == 'tuple':
        return tuple(seq)
    if kind == 'iter':
        return iter(list(seq))
    if kind == 'generator':
        return (x for x in list(seq))
    raise ValueError(kind)


def _describe(case):
    planted = case.get('planted', [])
    if case['n'] > 16:
        planted = "{} total assignments, true variables {}".format(
            len(planted), [[l for l in a if l > 0] for a in planted])
    return "{}(k={}, n={}, m={}, planted={}, rseed={}{})".format(
        'RandomKCNF' if case['kind'] == 'cnf' else 'RandomKXOR', case['k'], case['n'], case['m'],
        planted, case.get('rseed'),
        ", seed={!r}".format(case['seed']) if 'seed' in case else "")


def check_formula_shape(kind, k, n, m, nvars, clauses, pbits, what):
    """The oracle shared by every sub-check.  Raises Violation."""
    if nvars != n:
        raise Violation("{}: the formula has {} variables instead of {}".format(what, nvars, n))
    try:
        if kind == 'cnf':
            rr.check_kcnf_shape(clauses, k, n, m, pbits)
            return None
        parities = rr.decode_parities(clauses, k, n, m)
    except rr.ShapeError as e:
        raise Violation("{}: {}; clauses={}".format(what, e, [list(c) for c in clauses][:40]))
    # xor: planted assignments satisfy every parity, model set = GF(2) solutions
    if parities is None:                  # k == 0
        nempty = len(clauses)
        if pbits and nempty:
            raise Violation("{}: the parity 0=1 (empty clause) is falsified by the planted "
                            "assignments".format(what))
    else:
        for S, b in parities:
            for a in pbits:
                if rr.parity_value(S, a) != b:
                    raise Violation("{}: parity xor{}={} is falsified by the planted assignment {}".format(
                        what, list(S), b, rr.bits_assignment(n, a)))
    # beyond 12 variables there is no truth table: the same statement on the clauses
    # themselves, without the decoder
    if n > 12:
        for a in pbits:
            for c in clauses:
                if not rr.clause_true(c, a):
                    raise Violation("{}: clause {} is falsified by the planted assignment {}".format(
                        what, list(c), rr.bits_assignment(n, a)))
    if n <= 12:
        if parities is None:
            sol = 0 if len(clauses) else tt.full(n)
        else:
            sol = rr.gf2_solution_mask(n, parities)
        models = tt.cnf_tt(n, clauses)
        if models != sol:
            a = tt.first_row(models ^ sol)
            raise Violation("{}: assignment {} is {} of the formula but {} of the linear system {}".format(
                what, tt.row_assignment(n, a), 'a model' if (models >> a) & 1 else 'not a model',
                'a solution' if (sol >> a) & 1 else 'not a solution', parities))
        for a in pbits:
            if not (models >> a) & 1:
                raise Violation("{}: planted assignment {} is not a model".format(
                    what, rr.bits_assignment(n, a)))
    return parities


def _call_library(case, extra_kwargs=None, mx=None):
    """Calls the generator with the global generator seeded from the case.

    Returns (status, F, labels, planted_bits, max): status is 'rejected'
    (ValueError, expected) or 'ok'; raises Violation when acceptance or
    rejection disagrees with 'k > n or m > max'.  `mx`: the maximum, when the
    caller has computed it already (closed form)."""
    kind, k, n, m = case['kind'], case['k'], case['n'], case['m']
    planted = [list(a) for a in case.get('planted', [])]
    pbits = tuple(rr.assignment_bits(n, a) for a in planted)
    if mx is None:
        mx = _maxfor(kind, k, n, pbits)
    expect_reject = k > n or m > mx
    fn = _fn(kind)
    kwargs = dict(extra_kwargs or {})
    passed = None
    if planted or case.get('pass_empty', False):
        passed = _container(case.get('pc', 'list'),
                            [_container(case.get('ac', 'list'), a) for a in planted])
        kwargs['planted_assignments'] = passed
    rec = rr.SampleRecorder()
    if 'rseed' in case:
        random.seed(case['rseed'])
    try:
        with rec:
            F = fn(k, n, m, **kwargs)
    except ValueError as e:
        if not expect_reject:
            raise Violation("{} raised ValueError({}) although k<=n and m={} <= {} available {}".format(
                _describe(case), e, m, mx, 'clauses' if kind == 'cnf' else 'parities'))
        labels = ['rejected']
        if k > n:
            labels.append('k>n-rejected')
        elif m == mx + 1:
            labels.append('m=max+1-rejected')
        return 'rejected', None, labels, pbits, mx
    if expect_reject:
        raise Violation("{} returned a formula with {} clauses instead of raising ValueError ({})".format(
            _describe(case), len(list(F)),
            "k > n" if k > n else "only {} {} are available".format(mx, 'clauses' if kind == 'cnf' else 'parities')))
    if isinstance(passed, (list, tuple)):
        if [list(a) for a in passed] != planted:
            raise Violation("{} modified its planted_assignments argument: {}".format(_describe(case), passed))
    labels = rec.path_labels()
    return 'ok', F, labels, pbits, mx


def _common_labels(case, pbits, mx):
    kind, k, n, m = case['kind'], case['k'], case['n'], case['m']
    labels = [kind, 'planted={}'.format(len(pbits))]
    if len(pbits) >= 2:
        labels.append('planted>=2')
        if len(set(pbits)) < len(pbits):
            labels.append('planted-equal')
        full = (1 << n) - 1
        if n and any((a ^ full) in pbits for a in pbits):
            labels.append('planted-complementary')
    if k == 0:
        labels.append('k=0')
    if n == 0:
        labels.append('n=0')
    if m == 0:
        labels.append('m=0')
    if k == n:
        labels.append('k=n')
    if k <= n:
        if m == mx:
            labels.append('m=max')
        if mx == 0:
            labels.append('max=0')
    return labels


def run_library(case, mx=None):
    status, F, labels, pbits, mx = _call_library(case, mx=mx)
    kind, k, n, m = case['kind'], case['k'], case['n'], case['m']
    labels = labels + _common_labels(case, pbits, mx)
    nontrivial = k >= 1 and m > 0 and k <= n
    if status == 'rejected':
        return Outcome(labels=labels, nontrivial=nontrivial, rejected=True)
    clauses = [list(c) for c in F]
    if len(F) != len(clauses):
        raise Violation("{}: len(F)={} but iteration gives {} clauses".format(_describe(case), len(F), len(clauses)))
    check_formula_shape(kind, k, n, m, F.number_of_variables(), clauses, pbits, _describe(case))
    for l in list(labels):
        if l in ('dense-path', 'sparse-path'):
            labels.append('{}-{}'.format(kind, l))
            labels.append('{}-{}'.format(l, 'planted' if pbits else 'unplanted'))
            labels.append('{}-{}-{}'.format(kind, l, 'planted' if pbits else 'unplanted'))
    return Outcome(labels=labels, nontrivial=nontrivial)


# ---------------------------------------------------------------------------
# generators of planted sets

def _pattern(rng, n):
    return rng.getrandbits(n) if n else 0


def _planted_config(cfg, n, rng):
    """cfg 0..8 -> list of total assignments (lists of literals)."""
    full = (1 << n) - 1
    a, b, c = _pattern(rng, n), _pattern(rng, n), _pattern(rng, n)
    sets = {
        0: [],
        1: [a],
        2: [a, a],
        3: [a, a ^ full],
        4: [a, b],
        5: [a, b, c],
        6: [a, a ^ full, b],
        7: [a, b, a],
        8: [full],
    }[cfg]
    return [rr.bits_assignment(n, x) for x in sets]


def enum_grid(tier):
    """Complete grid k in 0..4, n in 0..6, m in 0..max+2, both kinds."""
    if tier == 'quick':
        cfgs, nseeds = [0, 1, 2, 3, 4, 5, 6], 2
    else:
        cfgs, nseeds = [0, 1, 2, 3, 4, 5, 6, 7, 8], 20
    for kind in KINDS:
        for n in range(0, 7):
            for k in range(0, 5):
                for cfg in cfgs:
                    for s in range(nseeds):
                        rng = random.Random(zlib.crc32("{}:{}:{}:{}".format(n, k, cfg, s).encode()))
                        planted = _planted_config(cfg, n, rng)
                        pbits = tuple(rr.assignment_bits(n, a) for a in planted)
                        mx = _maxfor(kind, k, n, pbits)
                        pc = ('list', 'tuple')[(s + cfg) % 2]
                        ac = ('list', 'tuple')[(s // 2 + k) % 2]
                        for m in range(0, mx + 3):
                            yield {'kind': kind, 'k': k, 'n': n, 'm': m, 'planted': planted,
                                   'rseed': rng.getrandbits(30), 'pc': pc, 'ac': ac,
                                   'pass_empty': bool(s % 2)}


@st.composite
def _planted_strategy(draw, n, maxcount=3):
    cnt = draw(st.integers(0, maxcount))
    full = (1 << n) - 1
    out = []
    for i in range(cnt):
        how = draw(st.sampled_from(['random', 'random', 'equal', 'complement'])) if out else 'random'
        if how == 'random':
            x = draw(st.integers(0, full))
        elif how == 'equal':
            x = draw(st.sampled_from(out))
        else:
            x = draw(st.sampled_from(out)) ^ full
        out.append(x)
    lits = []
    for x in out:
        a = rr.bits_assignment(n, x)
        if draw(st.booleans()):
            a = draw(st.permutations(a))      # a total assignment in any literal order
        a = list(a)
        if a and draw(st.integers(0, 3)) == 0:
            # the same literal listed more than once: still the same total assignment
            for _ in range(draw(st.integers(1, 2))):
                a.insert(draw(st.integers(0, len(a))), a[draw(st.integers(0, len(a) - 1))])
        lits.append(a)
    return lits


def _draw_m(draw, mx):
    how = draw(st.sampled_from(['max', 'max', 'max-1', 'max+1', 'max+2', 'zero', 'one', 'any', 'any']))
    if how == 'max':
        return mx
    if how == 'max-1':
        return max(0, mx - 1)
    if how == 'max+1':
        return mx + 1
    if how == 'max+2':
        return mx + 2
    if how == 'zero':
        return 0
    if how == 'one':
        return 1
    return draw(st.integers(0, mx + 2))


@st.composite
def strat_grid(draw):
    kind = draw(st.sampled_from(KINDS))
    n = draw(st.integers(0, 8))
    k = draw(st.integers(0, 5))
    planted = draw(_planted_strategy(n))
    pbits = tuple(rr.assignment_bits(n, a) for a in planted)
    mx = _maxfor(kind, k, n, pbits)
    m = _draw_m(draw, mx)
    return {'kind': kind, 'k': k, 'n': n, 'm': m, 'planted': planted,
            'rseed': draw(st.integers(0, 2 ** 32 - 1)),
            'pc': draw(st.sampled_from(['list', 'tuple'])),
            'ac': draw(st.sampled_from(['list', 'tuple'])),
            'pass_empty': draw(st.booleans())}


# ---------------------------------------------------------------------------
# larger n, m within +-2 of the maximum

def _large_ks(kind, n):
    """Widths tried for n >= 7; sizes are bounded by construction (<= 8000
    clauses for k-CNF, <= 25000 clauses in the encoding of the k-XOR)."""
    ks = [0, 1, 2, 3, 4, n]
    if kind == 'xor' or n <= 9:
        ks.append(n - 1)
    return ks


def enum_large(tier):
    if tier == 'quick':
        ns, cfgs, nseeds = [7, 9, 12], [0, 4], 1
    else:
        ns, cfgs, nseeds = list(range(7, 13)), [0, 1, 3, 4, 5], 4
    for kind in KINDS:
        for n in ns:
            for k in _large_ks(kind, n):
                for cfg in cfgs:
                    for s in range(nseeds):
                        rng = random.Random(zlib.crc32("L{}:{}:{}:{}".format(n, k, cfg, s).encode()))
                        planted = _planted_config(cfg, n, rng)
                        pbits = tuple(rr.assignment_bits(n, a) for a in planted)
                        mx = _maxfor(kind, k, n, pbits)
                        for m in range(max(0, mx - 2), mx + 3):
                            yield {'kind': kind, 'k': k, 'n': n, 'm': m, 'planted': planted,
                                   'rseed': rng.getrandbits(30), 'pc': 'list', 'ac': 'list'}
    # Without planted assignments the sparse sampler gives up only when collecting
    # all the clauses takes more than 10*max draws: probability about max/e^10 at
    # m = max.  Enough generator states at the largest points to see it happen.
    reps = {'quick': 1, 'thorough': 4}[tier]
    for kind, n, k, count in (('cnf', 12, 4, 24 * reps), ('xor', 12, 3, 360 * reps)):
        mx = _maxfor(kind, k, n, ())
        rng = random.Random(zlib.crc32("B{}:{}:{}".format(kind, n, k).encode()))
        for s in range(count):
            yield {'kind': kind, 'k': k, 'n': n, 'm': mx, 'planted': [],
                   'rseed': rng.getrandbits(30), 'pc': 'list', 'ac': 'list'}


@st.composite
def strat_large(draw):
    kind = draw(st.sampled_from(KINDS))
    n = draw(st.integers(7, 12))
    k = draw(st.sampled_from(_large_ks(kind, n)))
    planted = draw(_planted_strategy(n))
    pbits = tuple(rr.assignment_bits(n, a) for a in planted)
    mx = _maxfor(kind, k, n, pbits)
    m = max(0, mx + draw(st.integers(-2, 2)))
    return {'kind': kind, 'k': k, 'n': n, 'm': m, 'planted': planted,
            'rseed': draw(st.integers(0, 2 ** 32 - 1)), 'pc': 'list', 'ac': 'list'}


# ---------------------------------------------------------------------------
# the seed= parameter of the library functions

def run_seed(case):
    """Same arguments and same seed= give the same formula whatever the state of
    the global generator before the call; the formula has the promised shape."""
    seed = case['seed']
    results = []
    for pre in case['pre']:
        c = dict(case)
        c['rseed'] = pre
        status, F, labels, pbits, mx = _call_library(c, {'seed': seed})
        results.append((status, None if F is None else (F.number_of_variables(), [list(x) for x in F])))
    labels = _common_labels(case, pbits, mx)
    labels.append('seed-' + type(seed).__name__)
    if seed == 0:
        labels.append('seed=0')
    k, n, m = case['k'], case['n'], case['m']
    if results[0][0] == 'rejected':
        return Outcome(labels=labels + ['rejected'], nontrivial=False, rejected=True)
    nv, clauses = results[0][1]
    check_formula_shape(case['kind'], k, n, m, nv, clauses, pbits, _describe(case))
    for st_, other in results[1:]:
        if other != results[0][1]:
            raise Violation("{}: two calls with the same seed give different formulas "
                            "(global generator seeded with {} resp. {} before the call): {} vs {}".format(
                                _describe(case), case['pre'][0], case['pre'][1], clauses[:12], other[1][:12]))
    if m >= 1 and mx >= 2:
        labels.append('several-outcomes-possible')
    return Outcome(labels=labels, nontrivial=k >= 1 and m >= 1 and mx >= 2)


@st.composite
def strat_seed(draw):
    kind = draw(st.sampled_from(KINDS))
    n = draw(st.sampled_from([0, 1, 2, 3, 4, 5, 5, 6, 6, 7, 8, 9]))
    k = draw(st.sampled_from([0, 1, 1, 2, 2, 3, 3, 4]))
    planted = draw(_planted_strategy(n, 2))
    pbits = tuple(rr.assignment_bits(n, a) for a in planted)
    mx = _maxfor(kind, k, n, pbits)
    m = draw(st.sampled_from([0, 1, 2, 3, 5, 8, mx // 2, max(0, mx - 1), mx, mx + 1]))
    seed = draw(st.one_of(st.sampled_from([0, 1, -1]), st.integers(0, 2 ** 40),
                          st.text(alphabet='abcxyz019 ', max_size=6)))
    return {'kind': kind, 'k': k, 'n': n, 'm': m, 'planted': planted, 'seed': seed,
            'pre': [draw(st.integers(0, 2 ** 32 - 1)), draw(st.integers(0, 2 ** 32 - 1))],
            'pc': 'list', 'ac': 'list'}


# ---------------------------------------------------------------------------
# planted_assignments given as a one-shot iterable (docstring: "iterable(lists)")

def run_planted_iterable(case):
    return run_library(case)


@st.composite
def strat_planted_iterable(draw):
    kind = draw(st.sampled_from(KINDS))
    n = draw(st.integers(1, 7))
    k = draw(st.integers(1, min(4, n)))
    planted = draw(_planted_strategy(n))
    if not planted:
        planted = [rr.bits_assignment(n, draw(st.integers(0, (1 << n) - 1)))]
    pbits = tuple(rr.assignment_bits(n, a) for a in planted)
    mx = _maxfor(kind, k, n, pbits)
    m = _draw_m(draw, mx)
    return {'kind': kind, 'k': k, 'n': n, 'm': m, 'planted': planted,
            'rseed': draw(st.integers(0, 2 ** 32 - 1)),
            'pc': draw(st.sampled_from(['iter', 'generator'])), 'ac': 'list'}


# ---------------------------------------------------------------------------
# the exact boundary where floating point would round, and widths where it overflows
#
#   {"exact": true, "kind": "cnf", "k": 11, "n": 11, "m": 2048, "planted": [], "mode": "max", "family": "boundary",
#    "rseed": 5, "pc": "list", "ac": "list"}
#
# The maximum is a closed form in Python integers (math.comb, shifts): nothing is enumerated and no float is
# involved.  For at most two distinct planted assignments a, b (inclusion-exclusion over the clauses that a or b
# falsify; the parities on which a and b agree are those that take an even number of variables where they differ):
#   clauses:  2^k C(n,k)  |  (2^k - 1) C(n,k)  |  (2^k - 2) C(n,k) + C(#agree, k)
#   parities: 2 C(n,k)    |  C(n,k)            |  sum over even j of C(d,j) C(n-d,k-j),  d = #differ

EXACT_CAP = {('cnf', 'quick'): 4500, ('xor', 'quick'): 1500, ('cnf', 'thorough'): 20000, ('xor', 'thorough'): 20000}
XOR_ENCODING_CAP = {'quick': 10000, 'thorough': 30000}          # clauses in the encoding of the parities
EXACT_NS = list(range(11, 31)) + [64, 100, 1000, 1200]
FLOAT_TOP = 1 << 1024             # beyond the range of a float


def exact_max(kind, k, n, pbits):
    if k > n:
        return 0
    distinct = sorted(set(pbits))
    C = comb(n, k)
    if len(distinct) > 2:
        raise ValueError("closed form for at most two distinct planted assignments")
    if kind == 'cnf':
        if len(distinct) == 0:
            return (1 << k) * C
        if len(distinct) == 1:
            return ((1 << k) - 1) * C
        agree = n - bin(distinct[0] ^ distinct[1]).count('1')
        return ((1 << k) - 2) * C + comb(agree, k)
    if len(distinct) == 0:
        return 2 * C
    if len(distinct) == 1:
        return C
    d = bin(distinct[0] ^ distinct[1]).count('1')
    return sum(comb(d, j) * comb(n - d, k - j) for j in range(0, min(d, k) + 1, 2))


def run_exact(case):
    kind, k, n, m = case['kind'], case['k'], case['n'], case['m']
    pbits = tuple(rr.assignment_bits(n, a) for a in case.get('planted', []))
    mx = exact_max(kind, k, n, pbits)
    classes = len(rr.column_classes(n, pbits))
    if n <= 30 or classes <= 2:
        other = _maxfor(kind, k, n, pbits)          # brute force / count per class of variables
        if other != mx:
            raise RuntimeError("harness: closed form {} and count {} differ for {}".format(mx, other, _describe(case)))
    out = run_library(case, mx=mx)
    labels = [l for l in out.labels if l in ('rejected', 'dense-path', 'sparse-path', 'k=n', 'k=0')]
    labels += ['exact', 'exact-' + kind, 'exact-planted={}'.format(len(pbits)), 'family-' + case['family']]
    if 11 <= n <= 30:
        labels.append('n-in-11..30')
    if n >= 1000:
        labels.append('n>=1000')
    if k >= 1000:
        labels.append('k>=1000')
    if k >= 1024:
        labels.append('k>=1024')
    if mx >= FLOAT_TOP:
        labels.append('max-beyond-float-range')
    elif mx > (1 << 53):
        labels.append('max-beyond-2^53')
    if k <= n:
        if m == mx:
            labels.append('exact-m=max')
            if pbits:
                labels.append('exact-m=max-planted')
        elif m == mx - 1:
            labels.append('exact-m=max-1')
        elif m == mx + 1:
            labels.append('exact-m=max+1')
            if out.rejected:
                labels.append('exact-m=max+1-rejected')
    if m == 0:
        labels.append('exact-m=0')
    return Outcome(labels=labels, nontrivial=k <= n and (m >= 1 or mx >= FLOAT_TOP), rejected=out.rejected)


def run_iterable_or_exact(case):
    if case.get('exact'):
        return run_exact(case)
    out = run_library(case)
    return Outcome(labels=list(out.labels) + ['one-shot-iterable'], nontrivial=out.nontrivial, rejected=out.rejected)


_EXACT_PAIRS = {}


def exact_pairs(kind, cap, enc_cap=XOR_ENCODING_CAP['thorough']):
    """Every (n, k), n in EXACT_NS, k in 0..n, whose unplanted maximum can be requested: at most `cap`
    clauses / parities (and a bounded encoding of the parities)."""
    key = (kind, cap, enc_cap)
    if key not in _EXACT_PAIRS:
        out = []
        for n in EXACT_NS:
            for k in range(0, n + 1):
                total = exact_max(kind, k, n, ())
                if total > cap:
                    continue
                if kind == 'xor' and total * (1 << max(k - 1, 0)) > enc_cap:
                    continue
                out.append((n, k))
        _EXACT_PAIRS[key] = out
    return _EXACT_PAIRS[key]


def _exact_planted(cfg, n, rng):
    full = (1 << n) - 1
    a = rng.getrandbits(n)
    b = rng.getrandbits(n)
    sets = {'none': [], 'one': [a], 'two': [a, b], 'complementary': [a, a ^ full], 'equal': [a, a],
            'one-flip': [a, a ^ (1 << rng.randrange(n))] if n else [a, a], 'all-true': [full]}[cfg]
    return [rr.bits_assignment(n, x) for x in sets]


def _wide_ok(kind, k, n, cfg):
    """A wide request is generated only when the tree cannot be driven into listing every clause / parity: it
    lists them all when 10*m draws do not give m compatible ones, which has a noticeable probability for a tiny m
    as soon as a fair share of the draws is incompatible with the planted assignments (every other parity for one
    assignment; every parity of odd width for a complementary pair).  Clauses of width >= 20 are compatible except
    with probability 2^-19; parities are requested with planted assignments only where the listing is cheap."""
    p = {'none': 0, 'one': 1, 'all-true': 1}.get(cfg, 2)
    if p == 0:
        return True
    if kind == 'cnf':
        return k >= 20
    return _total(kind, k, n) * p * max(k, 1) * n <= DENSE_CAP


def _exact_case(kind, k, n, cfg, mode, family, seed, pseed=None):
    rng = random.Random(seed)
    if family == 'wide' and mode != 0 and not _wide_ok(kind, k, n, cfg):
        cfg = 'none'
    planted = _exact_planted(cfg, n, rng if pseed is None else random.Random(pseed))
    pbits = tuple(rr.assignment_bits(n, a) for a in planted)
    mx = exact_max(kind, k, n, pbits)
    if isinstance(mode, int):
        m = mode
        mode = 'm={}'.format(m)
    else:
        m = {'max-1': max(0, mx - 1), 'max': mx, 'max+1': mx + 1, 'zero': 0}[mode]
    return {'exact': True, 'kind': kind, 'k': k, 'n': n, 'm': m, 'planted': planted, 'config': cfg, 'mode': mode,
            'family': family, 'rseed': rng.getrandbits(30), 'pc': ('list', 'tuple', 'iter')[seed % 3],
            'ac': ('list', 'tuple')[(seed // 3) % 2]}


# widths and sizes where 2^k, C(n,k) or their product leave the exactly representable integers (2^53) or the range
# of a float (2^1024): only a handful of clauses is requested, the formula must simply be built
WIDE_POINTS = [(54, 27), (54, 54), (60, 30), (64, 63), (100, 50), (200, 200), (340, 170), (500, 250), (700, 300),
               (1000, 1000), (1024, 1000), (1024, 1023), (1024, 1024), (1030, 1025), (1100, 1024), (1200, 500),
               (1200, 1100), (1200, 1199), (1200, 1200)]
WIDE_XOR_POINTS = [(54, 11), (64, 8), (200, 7), (1000, 3), (1024, 2), (1200, 4), (1200, 10), (1200, 1)]
WIDE_MS = [0, 1, 2, 5]


def enum_exact(tier):
    j = 0
    for kind in KINDS:
        for n, k in exact_pairs(kind, EXACT_CAP[kind, tier], XOR_ENCODING_CAP[tier]):
            j += 1
            if tier != 'quick':
                cfgs = [('none', ['max-1', 'max', 'max+1', 'zero']), ('one', ['max-1', 'max', 'max+1', 'zero']),
                        ('two', ['max-1', 'max', 'max+1']), ('complementary', ['max', 'max+1']),
                        ('one-flip', ['max', 'max+1'])]
            else:
                # both sides of the boundary without planted assignments on every pair; the rest in turns
                cfgs = [('none', ['max', 'max+1'] + [['max-1'], ['zero'], ['max-1'], []][j % 4]),
                        ('one', [['max'], ['max+1']][j % 2])]
                if j % 3 == 0:
                    cfgs.append((['two', 'complementary', 'one-flip', 'equal'][(j // 3) % 4], [['max+1'], ['max']][j % 2]))
            for cfg, modes in cfgs:
                for mode in modes:
                    seed = zlib.crc32("E{}:{}:{}:{}:{}".format(kind, n, k, cfg, mode).encode())
                    yield _exact_case(kind, k, n, cfg, mode, 'boundary', seed)
    reps = 1 if tier == 'quick' else 4
    for kind, points in (('cnf', WIDE_POINTS), ('xor', WIDE_XOR_POINTS)):
        for n, k in points:
            for cfg in ('none', 'one', 'two', 'complementary'):
                for m in WIDE_MS:
                    if m and not _wide_ok(kind, k, n, cfg):
                        continue
                    for r in range(reps):
                        seed = zlib.crc32("W{}:{}:{}:{}:{}:{}".format(kind, n, k, cfg, m, r).encode())
                        # the same planted set for every m
                        pseed = zlib.crc32("P{}:{}:{}:{}:{}".format(kind, n, k, cfg, r).encode())
                        yield _exact_case(kind, k, n, cfg, m, 'wide', seed, pseed)
    # wide parities cannot be encoded (2^(k-1) clauses each): only the empty request
    for n, k in WIDE_POINTS:
        for cfg in ('none', 'one'):
            seed = zlib.crc32("Z{}:{}:{}".format(n, k, cfg).encode())
            yield _exact_case('xor', k, n, cfg, 0, 'wide', seed)


_EXACT_CFG = st.sampled_from(['none', 'none', 'one', 'two', 'complementary', 'one-flip', 'equal', 'all-true'])
_EXACT_MODE = st.sampled_from(['max-1', 'max', 'max', 'max+1', 'zero'])
_WIDE_M = st.sampled_from(WIDE_MS + [3])
_SEED31 = st.integers(0, 2 ** 31 - 1)
_INT6 = st.integers(0, 10 ** 6)


@st.composite
def strat_exact(draw):
    kind = draw(st.sampled_from(KINDS))
    seed = draw(_SEED31)
    if draw(_INT6) % 3 == 0:
        pairs = exact_pairs(kind, 1000)         # cheap boundary points
        n, k = pairs[draw(_INT6) % len(pairs)]
        return _exact_case(kind, k, n, draw(_EXACT_CFG), draw(_EXACT_MODE), 'boundary', seed)
    if kind == 'cnf':
        n = draw(st.sampled_from([54, 64, 100, 341, 1000, 1023, 1024, 1025, 1100, 1200]))
        k = n - draw(_INT6) % (n // 2 + 1)
    else:
        n = draw(st.sampled_from([54, 64, 100, 1000, 1024, 1200]))
        k = 1 + draw(_INT6) % (11 if n <= 64 else 8 if n <= 100 else 4)
    return _exact_case(kind, k, n, draw(_EXACT_CFG), draw(_WIDE_M), 'wide', seed)


def strat_iterable_or_exact():
    it = strat_planted_iterable()
    return st.one_of(it, it, it, it, it, it, strat_exact())


# ---------------------------------------------------------------------------
# the command line

def _argv(case):
    argv = ['cnfgen']
    if case.get('quiet', True):
        argv.append('-q')
    if case.get('seed') is not None:
        argv += [case.get('seedopt', '--seed'), case['seed']]
    argv.append('randkcnf' if case['kind'] == 'cnf' else 'randkxor')
    pos = [case['k'], case['n'], case['m']]
    if case['plant']:
        flag = case.get('plantopt', '-p')
        where = case.get('plantpos', 0) % 4
        pos = pos[:where] + [flag] + pos[where:]
    return argv + pos


def run_cli(case):
    kind, k, n, m, plant, via = case['kind'], case['k'], case['n'], case['m'], case['plant'], case['via']
    argv = _argv(case)
    what = "{} [{}]".format(" ".join(str(a) for a in argv), via)
    if k <= n:
        mx = comb(n, k) * ((2 ** k - 1) if plant else 2 ** k) if kind == 'cnf' \
            else comb(n, k) * (1 if plant else 2)
    else:
        mx = 0
    gray = k == 0 or n == 0
    expect_reject = k > n or m > mx
    labels = [kind, via, 'plant' if plant else 'noplant',
              'seed' if case.get('seed') is not None else 'noseed']
    if case.get('seed') == 0:
        labels.append('seed=0')

    def one(pre):
        random.seed(pre)
        return rr.run_cli(argv, via)

    r = one(case['pre'][0])
    failed = r.kind != 'ok'
    if r.kind == 'exit' and via != 'main':
        raise Violation("{}: cli() left through SystemExit({}) instead of CLIError".format(what, r.code))
    if failed:
        if via == 'main':
            if r.code in (0, None):
                raise Violation("{}: main() stopped with exit status {} on an error".format(what, r.code))
            if r.stdout:
                raise Violation("{}: error exit but {} characters on stdout".format(what, len(r.stdout)))
        if gray:
            return Outcome(labels=labels + ['gray-zero-argument', 'rejected'], nontrivial=False, rejected=True)
        if not expect_reject:
            raise Violation("{}: refused ({}) although k<=n and m={} <= {} available".format(
                what, (r.value or r.stderr or '').strip().split('\n')[0], m, mx))
        labels.append('rejected')
        if k > n:
            labels.append('k>n-rejected')
        elif m == mx + 1:
            labels.append('m=max+1-rejected')
        return Outcome(labels=labels, nontrivial=k >= 1 and m > 0 and k <= n, rejected=True)
    # a formula came out
    if via == 'formula':
        F = r.value
        nv, clauses = F.number_of_variables(), [list(c) for c in F]
        if r.stdout:
            raise Violation("{}: mode='formula' wrote to stdout".format(what))
    else:
        text = r.value if via == 'string' else r.stdout
        if via == 'string' and r.stdout:
            raise Violation("{}: mode='string' wrote to stdout".format(what))
        try:
            nv, clauses = rr.read_dimacs(text)
        except (rr.ShapeError, ValueError) as e:
            raise Violation("{}: output is not DIMACS: {}".format(what, e))
    if expect_reject:
        raise Violation("{}: produced a formula with {} clauses instead of an error ({})".format(
            what, len(clauses), "k > n" if k > n else "only {} available".format(mx)))
    check_formula_shape(kind, k, n, m, nv, clauses, (), what)
    if plant and nv <= 12:
        if tt.cnf_tt(nv, clauses) == 0:
            raise Violation("{}: -p was given but the formula is unsatisfiable: {}".format(what, clauses[:40]))
        labels.append('plant-satisfiable')
    if m == mx:
        labels.append('m=max')
    if k == n:
        labels.append('k=n')
    if gray:
        labels.append('gray-zero-argument')
    # same command line, same seed, another state of the global generator
    if case.get('seed') not in (None, 0):
        r2 = one(case['pre'][1])
        same = (r2.kind == 'ok')
        if same:
            if via == 'formula':
                same = [list(c) for c in r2.value] == clauses
            elif via == 'string':
                same = r2.value == r.value
            else:
                same = r2.stdout == r.stdout
        if not same:
            raise Violation("{}: two runs with the same --seed differ".format(what))
        labels.append('seed-deterministic')
    return Outcome(labels=labels, nontrivial=k >= 1 and m > 0)


@st.composite
def strat_cli(draw):
    kind = draw(st.sampled_from(KINDS))
    plant = draw(st.booleans())
    n = draw(st.sampled_from([0, 1, 2, 3, 3, 4, 4, 5, 5, 6, 7, 8]))
    k = draw(st.sampled_from([0, 1, 1, 2, 2, 3, 3, 4, 5]))
    if k <= n:
        mx = comb(n, k) * ((2 ** k - 1) if plant else 2 ** k) if kind == 'cnf' \
            else comb(n, k) * (1 if plant else 2)
    else:
        mx = 0
    m = _draw_m(draw, mx)
    seed = draw(st.one_of(st.none(), st.sampled_from([0, 1]), st.integers(0, 2 ** 31)))
    return {'kind': kind, 'k': k, 'n': n, 'm': m, 'plant': plant, 'seed': seed,
            'seedopt': draw(st.sampled_from(['--seed', '-S'])),
            'plantopt': draw(st.sampled_from(['-p', '--plant'])),
            'plantpos': draw(st.integers(0, 3)),
            'quiet': draw(st.booleans()),
            'via': draw(st.sampled_from(['string', 'string', 'formula', 'output', 'main'])),
            'pre': [draw(st.integers(0, 2 ** 32 - 1)), draw(st.integers(0, 2 ** 32 - 1))]}


def enum_cli(tier):
    """Every (kind, plant, k, n) with k,n in 1..4 at m in max-1..max+1, via cli 'string'."""
    if tier == 'quick':
        ns = [1, 2, 3, 4]
    else:
        ns = [1, 2, 3, 4, 5, 6]
    for kind in KINDS:
        for plant in (False, True):
            for n in ns:
                for k in range(1, min(n, 4) + 2):
                    mx = 0
                    if k <= n:
                        mx = comb(n, k) * ((2 ** k - 1) if plant else 2 ** k) if kind == 'cnf' \
                            else comb(n, k) * (1 if plant else 2)
                    for m in sorted(set([0, max(0, mx - 1), mx, mx + 1])):
                        h = zlib.crc32("{}{}{}{}{}".format(kind, plant, n, k, m).encode())
                        yield {'kind': kind, 'k': k, 'n': n, 'm': m, 'plant': plant,
                               'seed': 1 + h % 1000, 'seedopt': '--seed', 'plantopt': '-p',
                               'plantpos': h % 4, 'quiet': True, 'via': 'string',
                               'pre': [h % 7919, h % 104729]}


# ---------------------------------------------------------------------------
# planted assignments on 64 and more variables
#
# No truth table here: every planted assignment is evaluated on the produced clauses,
# the maximum is counted per class of interchangeable variables (vlib/randref).
# The tree falls back to listing every compatible clause (parity) when 10*m draws do
# not give m of them; that listing costs about comb(n,k) * 2^k * p * k * n steps, so a
# case is generated only when the listing is cheap or cannot be needed.

SCALE_NS = {'quick': [64, 65, 90, 130, 200],
            'thorough': [63, 64, 65, 66, 90, 127, 128, 129, 130, 200, 256]}
SCALE_CONFIGS = ['one', 'two', 'three', 'four', 'equal', 'complementary', 'all-true',
                 'high-only', 'high-and-random', 'last-variable-flipped']
SCALE_MODES = ['1', '7', 'n/2', 'n', '3n', '4n+3', 'max-1', 'max', 'max+1', 'max+2']
DENSE_CAP = 5e7
BOUNDARY_CAP = {'quick': 4500, 'thorough': 13000}


def _scale_planted(cfg, n, rng):
    full = (1 << n) - 1
    high = (full >> 63) << 63               # the variables 64..n (variable i is bit i-1)
    a, b, c, d = (rng.getrandbits(n) for _ in range(4))
    sets = {
        'one': [a], 'two': [a, b], 'three': [a, b, c], 'four': [a, b, c, d],
        'equal': [a, a], 'complementary': [a, a ^ full], 'all-true': [full],
        'high-only': [high], 'high-and-random': [high, a],
        'last-variable-flipped': [a, a ^ (1 << (n - 1))],
    }[cfg]
    out = []
    for x in sets:
        lits = rr.bits_assignment(n, x)
        order = rng.randrange(3)
        if order == 1:
            lits.reverse()
        elif order == 2:
            rng.shuffle(lits)
        out.append(lits)
    return out


def _total(kind, k, n):
    return comb(n, k) * (2 ** k if kind == 'cnf' else 2)


def _listing_cheap(kind, k, n, p):
    return _total(kind, k, n) * max(p, 1) * max(k, 1) * n <= DENSE_CAP


def _listing_not_needed(kind, k, n, m, mx):
    """10*m draws give m new compatible items except with negligible probability: at least 40
    wanted, at most a tenth of the compatible ones, which are at least 23% of all."""
    return m >= 40 and 10 * m <= mx and mx >= 0.23 * _total(kind, k, n)


def _scale_m(mode, n, mx):
    return {'1': 1, '7': 7, 'n/2': n // 2, 'n': n, '3n': 3 * n, '4n+3': 4 * n + 3,
            'max-1': max(0, mx - 1), 'max': mx, 'max+1': mx + 1, 'max+2': mx + 2}[mode]


def _scale_case(kind, n, k, cfg, mode, seed, cap=BOUNDARY_CAP['quick']):
    """The case, or None when it could be expensive for the tree."""
    rng = random.Random(seed)
    planted = _scale_planted(cfg, n, rng)
    pbits = tuple(rr.assignment_bits(n, a) for a in planted)
    mx = _maxfor(kind, k, n, pbits)
    m = _scale_m(mode, n, mx)
    cheap = _listing_cheap(kind, k, n, len(planted))
    if mode.startswith('max'):
        if not cheap or mx > cap:
            return None
    elif not (cheap or _listing_not_needed(kind, k, n, m, mx)):
        return None
    return {'kind': kind, 'k': k, 'n': n, 'm': m, 'planted': planted, 'config': cfg, 'mode': mode,
            'rseed': rng.getrandbits(30), 'pc': 'list', 'ac': ('list', 'tuple')[seed % 2]}


def run_scale(case):
    n = case['n']
    out = run_library(case)
    labels = list(out.labels) + ['config=' + case['config'], 'n={}'.format(n)]
    if n >= 64:
        labels.append('n>=64')
    if any(any(l >= 64 for l in a) for a in case['planted']):
        labels.append('variable>=64-planted-true')
    if case['mode'].startswith('max'):
        labels.append('boundary')
    return Outcome(labels=labels, nontrivial=out.nontrivial and not out.rejected, rejected=out.rejected)


def enum_scale(tier):
    ks = [1, 2, 3, 4] if tier == 'quick' else [1, 2, 3, 4, 5]
    j = 0
    for kind in KINDS:
        for n in SCALE_NS[tier]:
            for k in ks:
                for cfg in SCALE_CONFIGS:
                    j += 1
                    if tier == 'quick':
                        modes = [SCALE_MODES[j % 6], SCALE_MODES[6 + j % 4]]
                    else:
                        modes = SCALE_MODES
                    for mode in modes:
                        seed = zlib.crc32("S{}:{}:{}:{}:{}".format(kind, n, k, cfg, mode).encode())
                        case = _scale_case(kind, n, k, cfg, mode, seed, BOUNDARY_CAP[tier])
                        if case is not None:
                            yield case


_SCALE_N_ALL = st.sampled_from(SCALE_NS['thorough'] + [64, 65, 70, 100, 160, 200])
_SCALE_K = st.sampled_from([1, 2, 2, 3, 3, 4])
_SCALE_CFG = st.sampled_from(SCALE_CONFIGS)
_SCALE_MODE = st.sampled_from(SCALE_MODES)
_SEED32 = st.integers(0, 2 ** 32 - 1)
_KIND = st.sampled_from(KINDS)


@st.composite
def strat_scale(draw):
    kind, n, k, cfg, seed = draw(_KIND), draw(_SCALE_N_ALL), draw(_SCALE_K), draw(_SCALE_CFG), draw(_SEED32)
    case = _scale_case(kind, n, k, cfg, draw(_SCALE_MODE), seed)
    if case is None:
        case = _scale_case(kind, n, k, cfg, '3n', seed)
    if case is None:                        # always possible: one variable per clause
        case = _scale_case(kind, n, 1, cfg, 'n/2', seed)
    return case


# the command line with -p: the planted assignment is read where the helper hands it to
# the library function (a pass-through wrapper around the name bound in the helper module)

class _PlantedRecorder:
    NAMES = ('RandomKCNF', 'RandomKXOR')

    def __init__(self):
        self.calls = []
        self.installed = False

    def __enter__(self):
        import cnfgen.clihelpers.simple_helpers as sh
        self.mod = sh
        self.saved = {}
        for name in self.NAMES:
            orig = getattr(sh, name, None)
            if orig is None:
                continue
            self.saved[name] = orig

            def wrapper(*args, _orig=orig, _name=name, **kwargs):
                pa = kwargs.get('planted_assignments')
                if pa is not None:
                    pa = [list(a) for a in pa]
                    kwargs['planted_assignments'] = [list(a) for a in pa]
                self.calls.append((_name, args, pa))
                return _orig(*args, **kwargs)
            setattr(sh, name, wrapper)
        self.installed = len(self.saved) == len(self.NAMES)
        return self

    def __exit__(self, *exc):
        for name, orig in self.saved.items():
            setattr(self.mod, name, orig)
        return False


def run_cli_scale(case):
    kind, k, n, m, via = case['kind'], case['k'], case['n'], case['m'], case['via']
    c = dict(case, plant=True)
    argv = _argv(c)
    what = "{} [{}]".format(" ".join(str(a) for a in argv), via)
    mx = comb(n, k) * ((2 ** k - 1) if kind == 'cnf' else 1)
    expect_reject = m > mx
    labels = [kind, via, 'n={}'.format(n)]
    if case['mode'].startswith('max'):
        labels.append('boundary')
    random.seed(case['pre'])
    with _PlantedRecorder() as rec:
        r = rr.run_cli(argv, via)
    if r.kind == 'exit' and via != 'main':
        raise Violation("{}: cli() left through SystemExit({}) instead of CLIError".format(what, r.code))
    if r.kind != 'ok':
        if via == 'main':
            if r.code in (0, None):
                raise Violation("{}: main() stopped with exit status {} on an error".format(what, r.code))
            if r.stdout:
                raise Violation("{}: error exit but {} characters on stdout".format(what, len(r.stdout)))
        if not expect_reject:
            raise Violation("{}: refused ({}) although m={} <= {} available".format(
                what, (r.value or r.stderr or '').strip().split('\n')[0], m, mx))
        labels += ['rejected'] + (['m=max+1-rejected'] if m == mx + 1 else [])
        return Outcome(labels=labels, nontrivial=False, rejected=True)
    if via == 'formula':
        nv, clauses = r.value.number_of_variables(), [list(x) for x in r.value]
    else:
        try:
            nv, clauses = rr.read_dimacs(r.value if via == 'string' else r.stdout)
        except (rr.ShapeError, ValueError) as e:
            raise Violation("{}: output is not DIMACS: {}".format(what, e))
    if expect_reject:
        raise Violation("{}: produced a formula with {} clauses instead of an error (only {} available)".format(
            what, len(clauses), mx))
    pbits = ()
    want = 'RandomKCNF' if kind == 'cnf' else 'RandomKXOR'
    seen = [pa for name, args, pa in rec.calls if name == want]
    if rec.installed and len(seen) == 1 and seen[0] is not None:
        if len(seen[0]) != 1 or sorted(abs(l) for l in seen[0][0]) != list(range(1, n + 1)):
            raise Violation("{}: -p handed {} to {} instead of one total assignment of the variables 1..{}".format(
                what, seen[0], want, n))
        pbits = (rr.assignment_bits(n, seen[0][0]),)
        labels.append('planted-observed')
        if any(l >= 64 for l in seen[0][0]):
            labels.append('variable>=64-planted-true')
    elif rec.installed and len(seen) == 1:
        raise Violation("{}: -p was given but {} was called without planted assignments".format(what, want))
    else:
        labels.append('planted-not-observed')
    parities = check_formula_shape(kind, k, n, m, nv, clauses, pbits, what)
    if kind == 'xor' and parities is not None:
        # whatever was planted, the linear system must have a solution
        if not rr.gf2_consistent(parities):
            raise Violation("{}: -p was given but the linear system has no solution: {}".format(what, parities[:40]))
        labels.append('system-consistent')
    if m == mx:
        labels.append('m=max')
    return Outcome(labels=labels, nontrivial=m >= 1)


def _cli_scale_case(kind, n, k, mode, via, seed, cap=BOUNDARY_CAP['quick']):
    mx = comb(n, k) * ((2 ** k - 1) if kind == 'cnf' else 1)
    m = _scale_m(mode, n, mx)
    cheap = _listing_cheap(kind, k, n, 1)
    if mode.startswith('max'):
        if not cheap or mx > cap:
            return None
    elif not (cheap or _listing_not_needed(kind, k, n, m, mx)):
        return None
    return {'kind': kind, 'k': k, 'n': n, 'm': m, 'mode': mode, 'via': via, 'seed': 1 + seed % 99991,
            'seedopt': ('--seed', '-S')[seed % 2], 'plantopt': ('-p', '--plant')[(seed // 2) % 2],
            'plantpos': (seed // 4) % 4, 'quiet': bool((seed // 16) % 4), 'pre': seed % 7919}


_VIAS = ['string', 'formula', 'main', 'output']


def enum_cli_scale(tier):
    ks = [1, 2, 3, 4] if tier == 'quick' else [1, 2, 3, 4, 5]
    j = 0
    for kind in KINDS:
        for n in SCALE_NS[tier]:
            for k in ks:
                j += 1
                if tier == 'quick':
                    # all four boundary points where they are cheapest, one of them elsewhere
                    modes = [SCALE_MODES[j % 6]] + (SCALE_MODES[6:] if k == 1 else [SCALE_MODES[6 + j % 4]])
                else:
                    modes = SCALE_MODES
                for mode in modes:
                    j += 1
                    seed = zlib.crc32("C{}:{}:{}:{}".format(kind, n, k, mode).encode())
                    case = _cli_scale_case(kind, n, k, mode, _VIAS[j % 3], seed, BOUNDARY_CAP[tier])
                    if case is not None:
                        yield case


@st.composite
def strat_cli_scale(draw):
    kind, n, k, seed = draw(_KIND), draw(_SCALE_N_ALL), draw(_SCALE_K), draw(_SEED32)
    via = _VIAS[seed % 4]
    case = _cli_scale_case(kind, n, k, draw(_SCALE_MODE), via, seed)
    if case is None:
        case = _cli_scale_case(kind, n, k, '3n', via, seed)
    if case is None:
        case = _cli_scale_case(kind, n, 1, 'n/2', via, seed)
    return case


# ---------------------------------------------------------------------------
# the dense end of large instances, without planted assignments
#
#   {"dense_end": true, "kind": "cnf", "k": 1, "n": 25000, "short": 1, "m": 49999, "via": "library", "rseed": 7}
#
# Without planted assignments the sparse sampler (10*m draws with repetition) falls short of m only when (nearly)
# every possible clause is requested and there are many of them: after 10*T draws about T/e^10 of the T possible
# clauses are still unseen, so the listing of all clauses takes over at m = T-j roughly when T > 22000*j.  The
# small grids reach that listing only at m = T exactly; here T is 10^4..10^5 and m = T, T-1, T-2..T-5.

DENSE_POINTS = {
    'cnf': [(1, 5000), (1, 15000), (1, 50000), (2, 72), (2, 100), (2, 200), (3, 25), (3, 30), (4, 16), (5, 13)],
    'xor': [(1, 5000), (1, 30000), (1, 50000), (2, 150), (2, 200), (2, 316), (3, 40), (3, 60), (4, 24)],
}
DENSE_TOOL_POINTS = [('cnf', 1, 30000), ('cnf', 2, 150), ('cnf', 3, 27), ('xor', 1, 25000), ('xor', 2, 230)]
# quick tier: (kind, k, n, short, via, r); the states r of the generator are those, found by trying r = 0, 1, ..
# on the unchanged sampler, after which its 10*m draws fall short (labels '*-dense-path-*' are required)
DENSE_QUICK = [('cnf', 2, 100, 0, 'formula', 4), ('cnf', 1, 25000, 1, 'library', 2), ('xor', 1, 12000, 0, 'library', 0),
               ('cnf', 2, 160, 2, 'library', 0), ('xor', 2, 110, 1, 'library', 1), ('cnf', 2, 72, -1, 'library', 0),
               ('xor', 1, 5000, -1, 'string', 0)]


def _dense_case(kind, k, n, short, via, r):
    total = _total(kind, k, n)
    rseed = zlib.crc32("D{}:{}:{}:{}:{}".format(kind, k, n, short, r).encode())
    return {'dense_end': True, 'kind': kind, 'k': k, 'n': n, 'short': short, 'm': total - short, 'via': via,
            'rseed': rseed}


def enum_dense_end(tier):
    if tier == 'quick':
        for kind, k, n, short, via, r in DENSE_QUICK:
            yield _dense_case(kind, k, n, short, via, r)
        return
    for kind in KINDS:
        for k, n in DENSE_POINTS[kind]:
            total = _total(kind, k, n)
            for short in (0, 1, 2, 3, 4, 5, -1, -2):
                # the further below the maximum, the rarer the listing: more generator states where it can happen
                reps = 1 if short < 0 else 2 if short <= 2 or total < 22000 * short else 4
                for r in range(reps):
                    yield _dense_case(kind, k, n, short, 'library', r)
    for j, (kind, k, n) in enumerate(DENSE_TOOL_POINTS):
        for short in (0, 1, 2, 3, -1):
            for r in range(2):
                yield _dense_case(kind, k, n, short, ('formula', 'string', 'main', 'output')[(j + short + r) % 4], r)


def run_dense_end(case):
    kind, k, n, m, short, via = case['kind'], case['k'], case['n'], case['m'], case['short'], case['via']
    total = exact_max(kind, k, n, ())
    if m != total - short:
        raise RuntimeError("harness: m={} is not maximum {} - {}".format(m, total, short))
    rec = rr.SampleRecorder()
    with rec:
        if via == 'library':
            out = run_library({'kind': kind, 'k': k, 'n': n, 'm': m, 'planted': [], 'rseed': case['rseed'],
                               'pc': 'list', 'ac': 'list'}, mx=total)
        else:
            # no --seed: the tool goes on from the state of the global generator (one run, no comparison)
            out = run_cli({'kind': kind, 'k': k, 'n': n, 'm': m, 'plant': False, 'seed': None, 'quiet': True,
                           'via': via, 'pre': [case['rseed'], 0]})
    path = rec.path_labels()
    labels = [kind, 'via-library' if via == 'library' else 'via-tool', 'possible>=10^4' if total >= 10000 else 'possible<10^4']
    where = 'short=0' if short == 0 else 'short=1' if short == 1 else 'short=2..5' if short > 1 else 'above-max'
    labels.append(where)
    if out.rejected:
        labels.append('above-max-rejected')
        return Outcome(labels=labels, nontrivial=True, rejected=True)
    for p in path:
        labels += [p, '{}-{}'.format(kind, p), '{}-{}'.format(p, where), '{}-{}-{}'.format(kind, p, where)]
        if short >= 1:
            labels += ['{}-below-max'.format(p), '{}-{}-below-max'.format(kind, p)]
        if via != 'library':
            labels.append('{}-via-tool'.format(p))
    return Outcome(labels=labels, nontrivial=True)


GRID_LABELS = ['cnf', 'xor', 'm=max', 'm=max+1-rejected', 'k>n-rejected', 'k=n', 'k=0', 'n=0', 'm=0',
               'planted=0', 'planted=1', 'planted>=2', 'planted=3', 'planted-equal', 'planted-complementary',
               'sparse-path', 'dense-path', 'cnf-dense-path', 'xor-dense-path', 'cnf-sparse-path',
               'xor-sparse-path', 'max=0']

SUBCHECKS = [
    SubCheck('grid', run_library, strategy=strat_grid, enumerate_cases=enum_grid,
             quick=3000, thorough=250000,
             rule="RandomKCNF and RandomKXOR on the complete grid k 0..4 x n 0..6 x m 0..max+2 (max = brute-force count of the clauses/parities compatible with the planted set) x 7 (thorough 9) planted configurations of 0..3 total assignments (equal, complementary, random) x 2 (thorough 20) states of the global generator; plus Hypothesis cases k 0..5, n 0..8, m biased to 0,1,max-1..max+2; oracle: ValueError iff k>n or m>max, else n variables, m distinct clauses (parities) on k distinct variables, all satisfied by every planted assignment, XOR: order-independent decoding into complete sign-pattern blocks and truth table == GF(2) solution set; non-trivial: k>=1, m>=1, k<=n",
             required_labels=GRID_LABELS),
    SubCheck('large', run_library, strategy=strat_large, enumerate_cases=enum_large,
             quick=60, thorough=6000,
             rule="n 7..12, k in {0..4, n-1, n}, m in max-2..max+2, planted sets of 0..3 assignments; enumerated slice (quick: n in 7,9,12; thorough: n 7..12, 5 planted configurations, 4 generator states) plus Hypothesis; same oracle as grid; non-trivial: k>=1, m>=1",
             required_labels=['cnf', 'xor', 'm=max', 'm=max+1-rejected', 'dense-path', 'sparse-path',
                              'cnf-dense-path-unplanted', 'xor-dense-path-unplanted',
                              'cnf-sparse-path-unplanted', 'xor-sparse-path-unplanted',
                              'cnf-dense-path-planted', 'xor-dense-path-planted',
                              'planted>=2', 'k=n', 'k=0']),
    SubCheck('seed_param', run_seed, strategy=strat_seed, quick=2500, thorough=80000,
             rule="library call with seed= (ints including 0 and negative, strings) executed twice from two different states of the global generator; oracle: shape as in grid and identical clause lists; non-trivial: k>=1, m>=1 and at least two available clauses (so that a forgotten reseed can show)",
             required_labels=['cnf', 'xor', 'seed=0', 'seed-int', 'seed-str', 'several-outcomes-possible',
                              'planted>=2', 'rejected']),
    SubCheck('cli', run_cli, strategy=strat_cli, enumerate_cases=enum_cli, quick=600, thorough=30000,
             rule="cnfgen [-q] [--seed|-S s] randkcnf|randkxor [-p|--plant at any position] k n m run in-process through cli(mode=string|formula|output) and main(); k 0..5, n 0..8, m biased to the boundary; oracle: CLIError / non-zero exit with empty stdout iff k>n or m>max(one planted assignment if -p), else the DIMACS output (own reader) has the shape of grid, is satisfiable with -p, and is reproduced by a second run with the same non-zero seed; k=0/n=0 gray; non-trivial: k>=1, m>=1, formula produced or rejected at the boundary",
             required_labels=['cnf', 'xor', 'plant', 'noplant', 'seed', 'noseed', 'seed=0', 'string', 'formula',
                              'output', 'main', 'm=max', 'm=max+1-rejected', 'k>n-rejected', 'plant-satisfiable',
                              'seed-deterministic', 'k=n', 'gray-zero-argument']),
    SubCheck('planted_scale', run_scale, strategy=strat_scale, enumerate_cases=enum_scale,
             quick=60, thorough=4000,
             rule="RandomKCNF and RandomKXOR with planted total assignments on n in {64, 65, 90, 130, 200} (thorough also 63, 66, 127..129, 256; Hypothesis also 70, 100, 160) variables, k 1..4 (thorough 5), ten planted configurations of 1..4 assignments (random, equal, complementary, all true, only the variables >= 64 true, two assignments differing in variable n; literals listed in increasing, decreasing or shuffled order, lists or tuples), m in {1, 7, n/2, n, 3n, 4n+3} and max-1..max+2; a case is generated only when listing all compatible clauses is cheap for the tree (comb(n,k)*2^k*p*k*n <= 5e7; boundary cases also max <= 4500, thorough 13000) or cannot be needed (40 <= m <= max/10, max >= 23% of all); oracle: ValueError iff m > max, where max is counted by the harness per class of variables on which the planted assignments agree (closed form, compared with the brute-force count for n <= 7); else n variables, m distinct clauses / parities (order-independent decoding of the sign-pattern blocks) on k distinct variables, and every planted assignment evaluated by the harness satisfies every produced clause (no truth table); non-trivial: formula produced, k>=1, m>=1",
             required_labels=['cnf', 'xor', 'n>=64', 'variable>=64-planted-true', 'n=64', 'n=65', 'n=90', 'n=130',
                              'n=200', 'planted=1', 'planted>=2', 'planted=4', 'planted-equal',
                              'planted-complementary', 'boundary', 'm=max', 'm=max+1-rejected', 'dense-path',
                              'sparse-path', 'xor-sparse-path-planted', 'cnf-sparse-path-planted',
                              'xor-dense-path-planted', 'cnf-dense-path-planted'] +
                             ['config=' + c for c in SCALE_CONFIGS]),
    SubCheck('cli_planted_scale', run_cli_scale, strategy=strat_cli_scale, enumerate_cases=enum_cli_scale,
             quick=20, thorough=1500,
             rule="cnfgen [-q] --seed|-S s randkcnf|randkxor -p|--plant (any position) k n m, in-process through cli(mode=string|formula|output) and main(), n in {64, 65, 90, 130, 200} (thorough/Hypothesis as planted_scale), k 1..4, m in {1, 7, n/2, n, 3n, 4n+3} and max-1..max+2 under the same cost bound; the planted assignment is read by a pass-through wrapper around RandomKCNF/RandomKXOR as bound in cnfgen.clihelpers.simple_helpers; oracle: error iff m > max for one planted assignment; else -p hands over exactly one total assignment of 1..n, the output (own DIMACS reader) has n variables and m distinct clauses / parities of width k, every clause is satisfied by the observed assignment (direct evaluation), and the parities form a consistent linear system (GF(2) elimination); non-trivial: formula produced, m>=1",
             required_labels=['cnf', 'xor', 'string', 'formula', 'main', 'planted-observed',
                              'variable>=64-planted-true', 'system-consistent', 'boundary', 'm=max',
                              'm=max+1-rejected', 'n=64', 'n=65', 'n=90', 'n=130', 'n=200']),
    SubCheck('planted_iterable', run_iterable_or_exact, strategy=strat_iterable_or_exact, enumerate_cases=enum_exact,
             quick=700, thorough=23000, max_shards=4,
             rule="(a) planted_assignments passed as a one-shot iterator / generator of lists (the docstring says 'iterable(lists)'); n 1..7, k 1..4, 1..3 assignments; same oracle as grid; non-trivial: m>=1. "
                  "(b) the exact boundary at sizes where floating point would round: RandomKCNF and RandomKXOR for every (n, k) with n in 11..30 or n in {64, 100, 1000, 1200}, k in 0..n, whose maximum 2^k*C(n,k) is at most 4500 (2*C(n,k) parities: at most 1500 with an encoding of at most 10000 clauses; thorough: 20000 resp. 30000): without planted assignments at m = max and max+1 on every pair and at max-1 or 0 on three pairs out of four, with one planted total assignment at max or max+1 in turns, on every third pair with two (random, complementary, differing in one variable, equal) at max or max+1 (thorough: every pair with none / one at max-1, max, max+1, 0 and two random / complementary / differing in one variable at max, max+1); planted sets passed as list, tuple or one-shot iterator. "
                  "(c) widths where 2^k, C(n,k) or their product exceed 2^53 or the range of a float: k-CNF on (n,k) from (54,27) to (1200,1200) including k = 1000, 1023, 1024, 1025, 1100, 1199 (Hypothesis: n in {54..1200}, any k in n/2..n), k-XOR on n up to 1200 with k <= 11, m in {0,1,2,5}, 0..2 planted assignments; k-XOR with wide k only at m = 0. "
                  "oracle: the maximum is a closed form in Python integers (math.comb and shifts; two planted assignments by inclusion-exclusion), compared with the count per class of variables / brute force of vlib/randref wherever that is cheap; ValueError exactly when m > max; otherwise n variables, m pairwise distinct clauses (parities, decoded from the sign-pattern blocks) on k distinct variables of 1..n, each satisfied by every planted assignment (evaluated by the harness). non-trivial (b),(c): k<=n and m>=1, or a maximum beyond the float range",
             required_labels=['cnf', 'xor', 'm=max', 'm=max+1-rejected', 'planted>=2', 'one-shot-iterable',
                              'exact', 'exact-cnf', 'exact-xor', 'exact-planted=0', 'exact-planted=1', 'exact-planted=2',
                              'family-boundary', 'family-wide', 'n-in-11..30', 'n>=1000', 'k>=1000', 'k>=1024',
                              'max-beyond-float-range', 'max-beyond-2^53', 'exact-m=max', 'exact-m=max-planted',
                              'exact-m=max-1', 'exact-m=max+1-rejected', 'exact-m=0', 'dense-path', 'sparse-path', 'k=n']),
    SubCheck('dense_end', run_dense_end, enumerate_cases=enum_dense_end, quick=0, thorough=0,
             rule="the dense end of large instances, no planted assignments: RandomKCNF / RandomKXOR at m = maximum - j for j = 0, 1, 2..5 and above the maximum (j = -1, -2), "
                  "where the maximum T = 2^k*C(n,k) (2*C(n,k) parities) is 10^4..10^5, the region in which the sparse sampler gives up within its 10*m draws although m is below the maximum (needs about T > 22000*j) and every clause is listed instead. "
                  "quick: seven fixed cases of 0.5..3 s - k-CNF (2,100) at T through cli(mode=formula), (1,25000) at T-1, (2,160) at T-2, k-XOR (1,12000) at T, (2,110) at T-1, k-CNF (2,72) and k-XOR (1,5000, through cli(mode=string)) at T+1 - with generator states chosen so that the unchanged sampler gives up in the five legal ones. "
                  "thorough: k-CNF on (k,n) in {(1,5000), (1,15000), (1,50000), (2,72), (2,100), (2,200), (3,25), (3,30), (4,16), (5,13)}, k-XOR on {(1,5000), (1,30000), (1,50000), (2,150), (2,200), (2,316), (3,40), (3,60), (4,24)}, j in 0..5 and -1, -2, 1..4 generator states each (4 where T > 22000*j), "
                  "and through the tool (cnfgen -q randkcnf|randkxor k n m via cli(mode=formula|string|output) and main(), generator state set before the call) on k-CNF (1,30000), (2,150), (3,27), k-XOR (1,25000), (2,230) with j in 0..3 and -1. "
                  "oracle: ValueError / CLIError exactly when m > T (closed form in Python integers); otherwise n variables and exactly m pairwise distinct clauses on k distinct variables of 1..n (k-XOR: exactly m*2^(k-1) clauses that decode, whatever their order, into m distinct parities with the complete block of 2^(k-1) sign patterns each). "
                  "Whether the listing took over is observed from outside (random.sample on a list instead of a range, pass-through wrapper) and only labels the case. non-trivial: every case",
             required_labels=['cnf', 'xor', 'via-library', 'via-tool', 'possible>=10^4', 'short=0', 'short=1', 'short=2..5',
                              'above-max-rejected', 'dense-path', 'cnf-dense-path', 'xor-dense-path',
                              'dense-path-short=0', 'dense-path-short=1', 'dense-path-short=2..5',
                              'cnf-dense-path-below-max', 'xor-dense-path-below-max', 'dense-path-via-tool']),
]
