"""C10 - every formula mentions only variables it owns, and allocates them freshly."""
import random
from math import comb

from hypothesis import strategies as st

from vlib.core import SubCheck, Violation, Outcome
from vlib import cli, catalog

PROPERTY = "C10"
ASSUMPTIONS = [
    "documented variable counts are re-derived by the harness from the parameters and graphs (m*n, |E|, m*ceil(log2 n), C(M,p), n*k, ...)",
    "hook H1 (CNFGEN_VERIF=1) records when a new variable group starts at or below a variable that a clause already mentioned; the check requires the record to be empty",
    "check=False insertions in generated histories only mention variables inside the declared range (the precondition every caller in the tree respects)",
    "graphs at realistic sizes come from networkx generators seeded from the case (harness owned)",
]


def bits(n):
    return (n - 1).bit_length() if n > 1 else 0


# ---------------------------------------------------------------------------
# structural oracle

def audit(F, what, expected_nv=None, zero_ok=False):
    from cnfgen.formula.baseopb import BaseOPB
    n = F.number_of_variables()
    if not isinstance(n, int) or isinstance(n, bool) or n < 0:
        raise Violation("{}: number_of_variables() = {!r}".format(what, n))
    rows = 0
    lits = 0
    if isinstance(F, BaseOPB):
        for row in F:
            rows += 1
            if len(row) < 2 or row[-2] not in ('>=', '=='):
                raise Violation("{}: malformed pseudo-Boolean row {}".format(what, row[:6]))
            if not isinstance(row[-1], int) or isinstance(row[-1], bool):
                raise Violation("{}: degree {!r} is not an integer".format(what, row[-1]))
            for t in row[:-2]:
                c, l = t
                # rows are kept normalised: no negative coefficient; a zero only where the caller supplied one himself
                if not isinstance(c, int) or isinstance(c, bool) or c < 0 or (c == 0 and not zero_ok):
                    raise Violation("{}: coefficient {!r} is not a positive integer".format(what, c))
                if not isinstance(l, int) or isinstance(l, bool) or l == 0 or abs(l) > n:
                    raise Violation("{}: literal {!r} outside 1..{} (row {})".format(what, l, n, rows))
                lits += 1
    else:
        for clause in F:
            rows += 1
            for l in clause:
                if not isinstance(l, int) or isinstance(l, bool) or l == 0 or abs(l) > n:
                    raise Violation("{}: literal {!r} outside 1..{} (clause {})".format(what, l, n, rows))
                lits += 1
    if rows != len(F):
        raise Violation("{}: len() = {} but {} rows".format(what, len(F), rows))
    ev = getattr(F, '_verif_events', None)
    if ev:
        raise Violation("{}: a variable group was created on identifiers already mentioned by a clause: (begin, end, largest mentioned) = {}".format(what, ev[:3]))
    labs = sum(1 for _ in F.all_variable_labels())
    if labs != n:
        raise Violation("{}: {} variable names for {} variables".format(what, labs, n))
    if expected_nv is not None and n != expected_nv:
        raise Violation("{}: {} variables, the documentation promises {}".format(what, n, expected_nv))
    return rows, lits


# ---------------------------------------------------------------------------
# realistic instances

def nx_graph(kind, n, m, seed):
    import networkx
    if kind == 'gnm':
        return networkx.gnm_random_graph(n, m, seed=seed)
    if kind == 'regular':
        return networkx.random_regular_graph(m, n, seed=seed)
    if kind == 'grid':
        return networkx.grid_graph([n, m])
    raise ValueError(kind)


def simple_from_nx(G):
    from cnfgen.graphs import Graph
    return Graph.from_networkx(G)


def bip(L, R, d, seed):
    from cnfgen.graphs import BipartiteGraph
    r = random.Random(seed)
    B = BipartiteGraph(L, R)
    for u in range(1, L + 1):
        for v in r.sample(range(1, R + 1), min(d, R)):
            B.add_edge(u, v)
    return B


def dag(n, seed, maxpred=2):
    from cnfgen.graphs import DirectedGraph
    r = random.Random(seed)
    D = DirectedGraph(n)
    for v in range(2, n + 1):
        for u in r.sample(range(1, v), min(maxpred, v - 1, r.randint(0, maxpred))):
            D.add_edge(u, v)
    return D


def build_instance(name, p, cls):
    """returns (formula, documented number of variables)"""
    import cnfgen
    s = p['s']
    if name == 'php':
        return cnfgen.PigeonholePrinciple(p['a'], p['b'], functional=p['f'], onto=p['o'], formula_class=cls), p['a'] * p['b']
    if name == 'gphp':
        B = bip(p['a'], p['b'], p['c'], s)
        return cnfgen.GraphPigeonholePrinciple(B, functional=p['f'], onto=p['o'], formula_class=cls), B.number_of_edges()
    if name == 'bphp':
        return cnfgen.BinaryPigeonholePrinciple(p['a'], p['b'], formula_class=cls), p['a'] * bits(p['b'])
    if name == 'rphp':
        return cnfgen.RelativizedPigeonholePrinciple(p['a'], p['b'], p['c'], formula_class=cls), p['a'] * p['b'] + p['b'] * p['c'] + p['b']
    if name == 'count':
        return cnfgen.CountingPrinciple(p['a'], p['b'], formula_class=cls), comb(p['a'], p['b'])
    if name == 'cliquecoloring':
        n, k, c = p['a'], p['b'], p['c']
        return cnfgen.CliqueColoring(n, k, c, formula_class=cls), comb(n, 2) + k * n + n * c
    if name == 'ram':
        return cnfgen.RamseyNumber(p['a'], p['b'], p['c'], formula_class=cls), comb(p['c'], 2)
    if name == 'vdw':
        K = p['K']
        return cnfgen.VanDerWaerden(p['a'], *K, formula_class=cls), p['a'] if len(K) == 2 else p['a'] * len(K)
    if name == 'ptn':
        return cnfgen.PythagoreanTriples(p['a'], formula_class=cls), p['a']
    if name == 'op':
        kw = dict(total=p['f'], smart=p['o'], plant=p['pl'], knuth=0 if p['o'] else p['kn'])
        n = p['a']
        return cnfgen.OrderingPrinciple(n, formula_class=cls, **kw), (comb(n, 2) if p['o'] else n * (n - 1))
    if name == 'cpls':
        a, b, c = p['a'], p['b'], p['c']
        return cnfgen.CPLSFormula(a, b, c, formula_class=cls), a * b * c + a * b * bits(b) + b * bits(c)
    if name == 'pitfall':
        v, d, ny, nz, k = p['a'], p['b'], p['c'], p['d'], p['e']
        random.seed(s)
        return cnfgen.PitfallFormula(v, d, ny, nz, k, formula_class=cls), k * (2 * (v * d // 2) + ny + 2 * nz + 3)
    if name == 'randkcnf':
        return cnfgen.RandomKCNF(p['a'], p['b'], p['c'], seed=s, formula_class=cls), p['b']
    if name == 'randkxor':
        return cnfgen.RandomKXOR(p['a'], p['b'], p['c'], seed=s, formula_class=cls), p['b']
    # graph based
    if name in ('tseitin', 'matching', 'ec', 'kcolor', 'domset', 'tiling', 'kclique', 'kcliquebin', 'ramlb', 'gop', 'auto', 'iso', 'subgraph'):
        if name == 'ec':
            Gx = nx_graph('regular', max(6, p['a'] + (p['a'] % 2)), 4, s)
        else:
            Gx = nx_graph(p['g'], p['a'], p['b'], s)
        G = simple_from_nx(Gx) if p['cnfgen'] else Gx
        N, E = Gx.number_of_nodes(), Gx.number_of_edges()
        if name == 'tseitin':
            random.seed(s)
            ch = [random.randint(0, 1) for _ in range(N)]
            return cnfgen.TseitinFormula(G, ch, formula_class=cls), E
        if name == 'matching':
            return cnfgen.PerfectMatchingPrinciple(G, formula_class=cls), E
        if name == 'ec':
            return cnfgen.EvenColoringFormula(G, formula_class=cls), E
        if name == 'kcolor':
            return cnfgen.GraphColoringFormula(G, p['k'], functional=p['f'], formula_class=cls), N * p['k']
        if name == 'domset':
            return cnfgen.DominatingSet(G, p['k'], alternative=p['f'], formula_class=cls), N + N * p['k']
        if name == 'tiling':
            return cnfgen.Tiling(G, formula_class=cls), N
        if name == 'kclique':
            return cnfgen.CliqueFormula(G, p['k'], symbreak=p['f'], formula_class=cls), p['k'] * N
        if name == 'kcliquebin':
            return cnfgen.BinaryCliqueFormula(G, p['k'], symbreak=p['f'], formula_class=cls), p['k'] * bits(N)
        if name == 'ramlb':
            return cnfgen.RamseyWitnessFormula(G, p['k'], p['k2'], symbreak=p['f'], formula_class=cls), 1 + max(p['k'], p['k2']) * N
        if name == 'gop':
            kw = dict(total=p['f'], smart=p['o'], plant=p['pl'], knuth=0 if p['o'] else p['kn'])
            return cnfgen.GraphOrderingPrinciple(G, formula_class=cls, **kw), (comb(N, 2) if p['o'] else N * (N - 1))
        if name == 'auto':
            return cnfgen.GraphAutomorphism(G, formula_class=cls), N * N
        if name == 'iso':
            G2 = nx_graph(p['g'], p['a'], p['b'], s + 1)
            return cnfgen.GraphIsomorphism(G, simple_from_nx(G2), nontrivial=p['f'], formula_class=cls), N * G2.number_of_nodes()
        if name == 'subgraph':
            H = nx_graph('gnm', p['k'], min(p['k2'], comb(p['k'], 2)), s + 2)
            return cnfgen.SubgraphFormula(G, simple_from_nx(H), induced=p['f'], symbreak=False, formula_class=cls), p['k'] * N
    if name == 'subsetcard':
        # both sides of small degree (the clause encoding of 'at most half' is exponential in the degree)
        from cnfgen.graphs import BipartiteGraph
        B = BipartiteGraph(p['a'], p['a'])
        for u in range(1, p['a'] + 1):
            for j in range(min(p['c'], p['a'])):
                B.add_edge(u, (u + j * (1 + s % 3)) % p['a'] + 1)
        return cnfgen.SubsetCardinalityFormula(B, equalities=p['f'], formula_class=cls), B.number_of_edges()
    if name == 'peb':
        D = dag(p['a'], s, 3)
        return cnfgen.PebblingFormula(D, formula_class=cls), p['a']
    if name == 'stone':
        D = dag(p['a'], s, 2)
        return cnfgen.StoneFormula(D, p['b'], formula_class=cls), p['b'] + p['a'] * p['b']
    if name == 'sparsestone':
        D = dag(p['a'], s, 2)
        B = bip(p['a'], p['b'], p['c'], s)
        return cnfgen.SparseStoneFormula(D, B, formula_class=cls), p['b'] + B.number_of_edges()
    raise ValueError(name)


def I(a, b):
    return st.integers(a, b)


B_ = st.booleans()
GR = st.sampled_from(['gnm', 'regular', 'grid'])


def _graph_params(nlo, nhi):
    @st.composite
    def g(draw):
        kind = draw(GR)
        if kind == 'gnm':
            n = draw(I(nlo, nhi))
            return {'g': 'gnm', 'a': n, 'b': draw(I(0, min(3 * n, comb(n, 2))))}
        if kind == 'regular':
            n = draw(I(max(nlo, 6), nhi))
            d = draw(st.sampled_from([2, 3, 4]))
            if n * d % 2:
                n += 1
            return {'g': 'regular', 'a': n, 'b': d}
        return {'g': 'grid', 'a': draw(I(2, 6)), 'b': draw(I(2, 6))}
    return g()


INSTANCES = {
    'php': st.fixed_dictionaries({'a': I(0, 40), 'b': I(0, 30), 'f': B_, 'o': B_}),
    'gphp': st.fixed_dictionaries({'a': I(1, 40), 'b': I(1, 40), 'c': I(0, 5), 'f': B_, 'o': B_}),
    'bphp': st.fixed_dictionaries({'a': I(0, 24), 'b': I(0, 40)}),
    'rphp': st.fixed_dictionaries({'a': I(0, 9), 'b': I(0, 9), 'c': I(0, 9)}),
    'count': st.fixed_dictionaries({'a': I(0, 12), 'b': I(1, 5)}).filter(lambda p: comb(p['a'], p['b']) <= 500),
    'cliquecoloring': st.fixed_dictionaries({'a': I(0, 9), 'b': I(0, 5), 'c': I(0, 5)}),
    'ram': st.fixed_dictionaries({'a': I(1, 5), 'b': I(1, 5), 'c': I(0, 12)}),
    'vdw': st.fixed_dictionaries({'a': I(0, 60), 'K': st.lists(I(1, 6), min_size=2, max_size=4)}),
    'ptn': st.fixed_dictionaries({'a': I(0, 300)}),
    'op': st.fixed_dictionaries({'a': I(0, 16), 'f': B_, 'o': B_, 'pl': B_, 'kn': st.sampled_from([0, 2, 3])}),
    'cpls': st.fixed_dictionaries({'a': I(1, 4), 'b': st.sampled_from([1, 2, 4, 8]), 'c': st.sampled_from([1, 2, 4, 8])}),
    'pitfall': st.fixed_dictionaries({'a': st.sampled_from([4, 6, 8, 10]), 'b': st.sampled_from([2, 3]), 'c': I(2, 4), 'd': I(1, 4), 'e': st.sampled_from([2, 4])}),
    'randkcnf': st.fixed_dictionaries({'a': I(0, 4), 'b': I(4, 200), 'c': I(0, 400)}).filter(lambda p: p['c'] <= comb(p['b'], p['a']) * 2 ** p['a']),
    'randkxor': st.fixed_dictionaries({'a': I(1, 3), 'b': I(4, 60), 'c': I(0, 60)}).filter(lambda p: p['c'] <= comb(p['b'], p['a']) * 2),
    'subsetcard': st.fixed_dictionaries({'a': I(1, 40), 'c': I(0, 6), 'f': B_}),
    'peb': st.fixed_dictionaries({'a': I(1, 200)}),
    'stone': st.fixed_dictionaries({'a': I(1, 14), 'b': I(0, 6)}),
    'sparsestone': st.fixed_dictionaries({'a': I(1, 20), 'b': I(1, 10), 'c': I(0, 3)}),
}
for _nm, _lo, _hi in (('tseitin', 4, 60), ('matching', 2, 40), ('tiling', 1, 60), ('auto', 1, 9), ('ec', 6, 30)):
    INSTANCES[_nm] = _graph_params(_lo, _hi).map(lambda d: dict(d, cnfgen=True))
for _nm, _lo, _hi in (('kcolor', 1, 30), ('domset', 1, 14), ('kclique', 1, 16), ('kcliquebin', 1, 30), ('ramlb', 1, 12),
                      ('gop', 1, 12), ('iso', 1, 9), ('subgraph', 2, 12)):
    INSTANCES[_nm] = st.tuples(_graph_params(_lo, _hi), I(0, 5), I(0, 4), B_, B_, B_, st.sampled_from([0, 2, 3]), B_).map(
        lambda t: dict(t[0], k=max(t[1], 1) if True else t[1], k2=t[2], f=t[3], o=t[4], pl=t[5], kn=t[6], cnfgen=t[7]))

T_CHAIN = [['xor', 2], ['or', 2], ['maj', 3], ['eq', 2], ['neq', 2], ['one', 2], ['atleast', 3, 2], ['atmost', 2, 1], ['exact', 3, 1],
           ['anybut', 2, 1], ['ite'], ['lift', 2], ['lift', 3], ['flip'], ['shuffle'], ['shuffle', 'nothing'], ['xorcomp', 2], ['majcomp', 3]]


def apply_chain(F, chain, seed):
    """returns (formula, documented variable count) ; compression graphs drawn by the harness"""
    import cnfgen
    n = F.number_of_variables()
    for t in chain:
        name = t[0]
        if name in ('xor', 'or', 'maj', 'eq', 'neq', 'one'):
            fn = {'xor': cnfgen.XorSubstitution, 'or': cnfgen.OrSubstitution, 'maj': cnfgen.MajoritySubstitution,
                  'eq': cnfgen.AllEqualSubstitution, 'neq': cnfgen.NotAllEqualSubstitution, 'one': cnfgen.ExactlyOneSubstitution}[name]
            F = fn(F, t[1])
            n = n * t[1]
        elif name in ('atleast', 'atmost', 'exact', 'anybut'):
            fn = {'atleast': cnfgen.AtLeastKSubstitution, 'atmost': cnfgen.AtMostKSubstitution,
                  'exact': cnfgen.ExactlyKSubstitution, 'anybut': cnfgen.AnythingButKSubstitution}[name]
            F = fn(F, t[1], t[2])
            n = n * t[1]
        elif name == 'ite':
            F = cnfgen.IfThenElseSubstitution(F)
            n = 3 * n
        elif name == 'lift':
            F = cnfgen.FormulaLifting(F, t[1])
            n = 2 * t[1] * n
        elif name == 'flip':
            F = cnfgen.FlipPolarity(F)
        elif name == 'shuffle':
            random.seed(seed)
            if len(t) > 1 and t[1] == 'nothing':
                F = cnfgen.Shuffle(F, 'fixed', 'fixed', 'fixed')       # asked to move nothing: still a formula of its own
            else:
                F = cnfgen.Shuffle(F)
        else:
            R = max(1, n // 2)
            B = bip(n, R, t[1], seed)
            F = cnfgen.VariableCompression(F, B, function='xor' if name == 'xorcomp' else 'maj')
            n = R
    return F, n


def chain_ok(F, chain):
    """bound the size of the result before building it"""
    rows = len(F)
    width = max([len(r) for r in F] + [0]) if rows and isinstance(next(iter(F)), list) else 0
    for t in chain:
        if t[0] in ('flip', 'shuffle'):
            continue
        per = {'xor': 2, 'or': 2, 'maj': 3, 'eq': 2, 'neq': 2, 'one': 3, 'atleast': 3, 'atmost': 2, 'exact': 3, 'anybut': 2,
               'ite': 2, 'lift': 2, 'xorcomp': 2, 'majcomp': 3}[t[0]]
        rows = rows * per ** width
        width = width * (t[1] if len(t) > 1 and isinstance(t[1], int) else 2)
        if rows > 60000 or width > 30:
            return False
    return True


def run_family(case):
    from cnfgen.formula.cnf import CNF
    from cnfgen.formula.opb import OPB
    name, p = case['name'], case['p']
    cls = CNF if case['cls'] == 'CNF' else OPB
    F, nv = build_instance(name, p, cls)
    what = "{}({}) as {}".format(name, {k: v for k, v in p.items()}, case['cls'])
    rows, lits = audit(F, what, nv)
    labels = [name, case['cls']]
    chain = case.get('chain', [])
    if chain and case['cls'] == 'CNF':
        width = max([len(r) for r in F] + [0])
        if rows <= 3000 and width <= 6 and chain_ok(F, chain):
            G, nv2 = apply_chain(F, chain, p['s'])
            audit(G, what + " + " + str(chain), nv2)
            audit(F, what + " (after the transformations)", nv)
            # the result is a formula of its own: it is extended (a clause over a never-seen variable, a variable, a block),
            # what it hands out is fresh for it, and the source neither grows nor hears of it
            src_rows, src_n = len(F), F.number_of_variables()
            G.add_clause([nv2 + 1, -1] if nv2 else [1])
            v = G.new_variable('harness_after')
            blk = list(G.new_block(2, label='hb_{{{}}}'))
            top = max(nv2 + 1, 1)
            if not (v == top + 1 and blk == [top + 2, top + 3]):
                raise Violation("{} + {}: after a clause mentioning variable {} the result hands out variable {} and block {}, expected {} and {}".format(
                    what, chain, top, v, blk, top + 1, [top + 2, top + 3]))
            if G.number_of_variables() != top + 3:
                raise Violation("{} + {}: the extended result declares {} variables, expected {}".format(what, chain, G.number_of_variables(), top + 3))
            if len(F) != src_rows or F.number_of_variables() != src_n:
                raise Violation("{} + {}: extending the result changed the source formula ({} rows / {} variables, before {} / {})".format(
                    what, chain, len(F), F.number_of_variables(), src_rows, src_n))
            audit(F, what + " (after the result was extended)", nv)
            labels.append('chain-length>={}'.format(min(len(chain), 2)))
            labels += ['T:' + t[0] for t in chain]
        else:
            labels.append('chain-skipped-for-size')
    return Outcome(labels=labels, nontrivial=rows >= 100 or (bool(chain) and 'chain-skipped-for-size' not in labels))


@st.composite
def strat_family(draw):
    name = draw(st.sampled_from(sorted(INSTANCES)))
    p = dict(draw(INSTANCES[name]))
    p['s'] = draw(I(0, 10 ** 6))
    chain = draw(st.lists(st.sampled_from(T_CHAIN), max_size=3))
    if sum(1 for t in chain if t[0] not in ('flip', 'shuffle')) > 1:
        keep = [t for t in chain if t[0] not in ('flip', 'shuffle')][:1]
        chain = [t for t in chain if t[0] in ('flip', 'shuffle')] + keep
    return {'name': name, 'p': p, 'cls': draw(st.sampled_from(['CNF', 'CNF', 'OPB'])), 'chain': chain}


# ---------------------------------------------------------------------------
# command line tools

def expected_after(n, targs):
    """documented number of variables after the -T steps, from the number before them"""
    steps, cur = [], None
    for t in targs:
        if t == '-T':
            cur = []
            steps.append(cur)
        elif cur is not None:
            cur.append(t)
    for st_ in steps:
        name = st_[0]
        nums = [int(x) for x in st_[1:] if x.lstrip('-').isdigit()]
        if name in ('xor', 'or', 'maj', 'eq', 'neq', 'one', 'atleast', 'atmost', 'exact', 'anybut'):
            n = n * nums[0]
        elif name == 'ite':
            n = 3 * n
        elif name == 'lift':
            n = 2 * nums[0] * n
        elif name in ('xorcomp', 'majcomp'):
            if not nums:
                return None
            n = nums[0]
        elif name not in ('flip', 'none', 'shuffle'):
            return None
    return n


def run_cli(case):
    f = catalog.FAMILIES[case['fam']] if 'fam' in case else None
    with catalog.Ctx() as ctx:
        base = ['--seed', str(case['seed'])] + ([f.name] + [str(x) for x in f.argv(case['p'], ctx)] if f is not None else list(case['raw']))
        args = base + case.get('targs', [])
        tool = case['tool']
        if tool == 'pbgen':
            args = [a for a in args]
            args = args[:args.index('-T')] if '-T' in args else args
        from cnfgen.clitools.cmdline import CLIError
        try:
            F = cli.build(tool, args)
        except CLIError:
            return Outcome(rejected=True, nontrivial=False, labels=['rejected'])
        exp = None
        if tool == 'cnfgen' and '-T' in args:
            # the declared number after the chain is the documented function of the number before it
            F0 = cli.build(tool, base)
            exp = expected_after(F0.number_of_variables(), args[args.index('-T'):])
        audit(F, "{} {}".format(tool, ' '.join(args[:14])), exp)
    labels = [tool, f.name if f is not None else case['raw'][0]]
    if len(F) == 0 and F.number_of_variables() > 0:
        labels.append('no-clauses')
    if exp is not None:
        labels.append('count-after-chain')
    return Outcome(labels=labels, nontrivial=len(F) >= 3 or exp is not None)


def enum_cli(tier):
    """formulas with variables but (after the chain) no clauses, through every transformation"""
    bases = [['randkcnf', '3', '5', '0'], ['randkxor', '2', '4', '0'], ['ptn', '4'], ['or', '2', '0'], ['or', '3', '0'], ['and', '0', '0'],
             ['php', '0', '3'], ['true']]
    ts = [['xor', '2'], ['or', '2'], ['maj', '3'], ['eq', '2'], ['neq', '2'], ['one', '2'], ['ite'], ['lift', '2'], ['flip'], ['shuffle'], ['none'],
          ['atleast', '2', '1'], ['atmost', '2', '2'], ['exact', '2', '1'], ['anybut', '2', '3'], ['xorcomp', '4', '2'], ['majcomp', '3', '2']]
    k = 0
    for b in bases:
        for t in ts:
            for t2 in ([], ['xor', '2']):
                k += 1
                if tier == 'quick' and t2 and k % 3:
                    continue
                yield {'raw': b, 'targs': ['-T'] + t + (['-T'] + t2 if t2 else []), 'tool': 'cnfgen', 'seed': k}


@st.composite
def strat_cli(draw):
    inv = draw(catalog.invocations())
    inv['tool'] = draw(st.sampled_from(['cnfgen', 'pbgen']))
    inv['seed'] = draw(I(0, 999))
    from vlib import argv_gen
    inv['targs'] = draw(argv_gen.tchain(max_len=2, allow_expanding=inv['name'] not in argv_gen.WIDE))
    return inv


# ---------------------------------------------------------------------------
# histories of group creation and clause insertion

GROUP_OPS = ['new_variable', 'new_block', 'new_combinations', 'new_permutations', 'new_words', 'new_mapping',
             'new_binary_mapping', 'new_sparse_mapping', 'new_graph_edges', 'new_digraph_edges', 'new_bipartite_edges']


def _group_size(kind, a):
    """number of variables of a group, from the definition of its index set"""
    from math import perm
    if kind == 'new_variable':
        return 1
    if kind == 'new_block':
        r = 1
        for d in a[0]:
            r *= d
        return r
    if kind == 'new_combinations':
        return comb(a[0], a[1])
    if kind == 'new_permutations':
        return perm(a[0], a[1]) if a[1] <= a[0] else 0
    if kind == 'new_words':
        return a[0] ** a[1]
    if kind == 'new_mapping':
        return a[0] * a[1]
    if kind == 'new_binary_mapping':
        return a[0] * bits(a[1])
    if kind in ('new_sparse_mapping', 'new_bipartite_edges'):
        return len(a[2])
    if kind in ('new_graph_edges', 'new_digraph_edges'):
        return len(a[1])
    return None


def run_history(case):
    from cnfgen.formula.cnf import CNF
    from cnfgen.formula.opb import OPB
    from cnfgen.graphs import Graph, DirectedGraph, BipartiteGraph
    F = CNF() if case['cls'] == 'CNF' else OPB()
    top = 0             # model: largest identifier mentioned or allotted so far
    declared = 0
    ngroups = 0
    raised_between = False
    interesting = False
    labels = set([case['cls']])
    for step, op in enumerate(case['ops']):
        kind, a = op[0], op[1:]
        what = "history step {} {} of {}".format(step, op, case['cls'])
        before = F.number_of_variables()
        g = None
        if kind == 'new_variable':
            v = F.new_variable('V{}'.format(step))
            ids = [v]
        elif kind == 'new_block':
            g = F.new_block(*a[0])
        elif kind == 'new_combinations':
            g = F.new_combinations(a[0], a[1])
        elif kind == 'new_permutations':
            g = F.new_permutations(a[0], a[1])
        elif kind == 'new_words':
            g = F.new_words(a[0], a[1])
        elif kind == 'new_mapping':
            g = F.new_mapping(a[0], a[1])
        elif kind == 'new_binary_mapping':
            g = F.new_binary_mapping(a[0], a[1])
        elif kind in ('new_sparse_mapping', 'new_bipartite_edges'):
            B = BipartiteGraph(a[0], a[1])
            for u, v in a[2]:
                B.add_edge(u, v)
            g = getattr(F, kind)(B)
        elif kind in ('new_graph_edges', 'new_digraph_edges'):
            G = (Graph if kind == 'new_graph_edges' else DirectedGraph)(a[0])
            for u, v in a[1]:
                G.add_edge(u, v)
            g = getattr(F, kind)(G)
        elif kind == 'add_clause':
            lits = [l for l in a[0] if l != 0]
            F.add_clause(lits, check=True)
            if lits and max(map(abs, lits)) > top:
                raised_between = True
            top = max([top] + [abs(l) for l in lits])
            continue_ok = True
        elif kind == 'add_clause_nocheck':
            n = F.number_of_variables()
            lits = [l for l in a[0] if l != 0 and abs(l) <= n]
            F.add_clause(lits, check=False)
            top = max([top] + [abs(l) for l in lits])
        elif kind == 'builder_nocheck':
            n = F.number_of_variables()
            lits = sorted(set(abs(l) for l in a[1] if l != 0 and abs(l) <= n))[:5]
            meth = a[0]
            if meth == 'add_parity':
                F.add_parity(lits, a[2] % 2, check=False)
            elif meth == 'add_linear' and case['cls'] == 'CNF':
                F.add_linear(lits, a[3], a[2] % 4, check=False)
            elif meth.startswith('cardinality_'):
                getattr(F, meth)(lits, a[2] % 4, check=False)
            top = max([top] + lits)
        elif kind == 'builder_check':
            lits = sorted(set(abs(l) for l in a[1] if l != 0))[:5]
            getattr(F, a[0])(lits, a[2] % 4) if a[0].startswith('cardinality_') else F.add_parity(lits, a[2] % 2)
            if lits and max(lits) > top:
                raised_between = True
            top = max([top] + lits)
        elif kind == 'add_clause_lazy':
            # ONE clause given as a generator that allots variables on the same formula while it is consumed
            # (and yields only some of them); model: the allotments happen, then the clause mentions what it mentions
            st_ = {'top': top, 'err': None}

            def lits_():
                for it in a[0]:
                    if isinstance(it, list):
                        got = list(F.new_block(*it))
                        if got and (got != list(range(got[0], got[0] + len(got))) or got[0] <= st_['top']):
                            st_['err'] = "{}: a block allotted while the clause was being read got identifiers {}.. but {} was already in use".format(what, got[:3], st_['top'])
                        st_['top'] = max([st_['top']] + got)
                        if got:
                            yield got[0] if len(got) % 2 else -got[0]
                    elif it != 0:
                        yield it
            F.add_clause(lits_())
            if st_['err']:
                raise Violation(st_['err'])
            row = list(F[len(F) - 1]) if case['cls'] == 'CNF' else [l for (_, l) in F[len(F) - 1][:-2]]
            if row and max(map(abs, row)) > st_['top']:
                raise_top = max(map(abs, row))
                if raise_top > top:
                    raised_between = True
                st_['top'] = raise_top
            top = st_['top']
            labels.add('lazy-clause')
        elif kind == 'add_clauses_from':
            # a batch whose iterable may be lazy and may allot variables between two clauses;
            # model: the same as inserting the items one by one
            state = {'top': top, 'raised': raised_between, 'err': None, 'groups': 0}

            def items():
                for it in a[0]:
                    if it and it[0] == 'new_variable':
                        v = F.new_variable('B{}'.format(step))
                        got = [v]
                    elif it and it[0] == 'new_block':
                        got = list(F.new_block(*it[1]))
                    else:
                        lits = [l for l in it if l != 0]
                        if lits and max(map(abs, lits)) > state['top']:
                            state['raised'] = True
                        state['top'] = max([state['top']] + [abs(l) for l in lits])
                        yield lits
                        continue
                    state['groups'] += 1
                    if got and (got != list(range(got[0], got[0] + len(got))) or got[0] <= state['top']):
                        state['err'] = "{}: a group allotted while the batch was being consumed got identifiers {}.. but variable {} was already mentioned by an earlier clause of the batch".format(what, got[:4], state['top'])
                    state['top'] = max([state['top']] + got)
            lazy = a[1] == 'generator' or any(it and isinstance(it[0], str) for it in a[0])
            batch = items() if lazy else [[l for l in it if l != 0] for it in a[0]]
            if not lazy:
                for lits in batch:
                    if lits and max(map(abs, lits)) > state['top']:
                        state['raised'] = True
                    state['top'] = max([state['top']] + [abs(l) for l in lits])
            F.add_clauses_from(batch) if a[2] else F.add_clauses_from(batch, check=True)
            if state['err']:
                raise Violation(state['err'])
            top, raised_between = state['top'], state['raised']
            if state['groups']:
                ngroups += state['groups']
                labels.add('allot-inside-batch')
                interesting = True
            labels.add('batch')
        elif kind == 'add_constraint' and case['cls'] != 'OPB':
            continue
        elif kind == 'add_constraint':
            pairs = [(tuple if a[4] == 'tuple' else list)(p) for p in a[0]]
            F.add_constraint(pairs + [a[1], a[2]]) if a[3] else F.add_constraints_from(iter([pairs + [a[1], a[2]]]))
            ls = [abs(l) for (_, l) in a[0]]
            if ls and max(ls) > top:
                raised_between = True
            top = max([top] + ls)
            labels.add('constraint-pairs:' + a[4])
        elif kind == 'refused':
            # an insertion the library must refuse (literal 0, a string among the literals, an unknown operator):
            # ValueError, and the formula is as it was: no row kept, no variable declared for it
            rows_before = len(F)
            big = [l for l in a[1] if l != 0] or [1]
            how = a[0]
            try:
                if how == 'zero-literal':
                    F.add_clause(big + [0])
                elif how == 'string-literal':
                    F.add_clause(big + ['x'])
                elif how == 'parity-zero':
                    F.add_parity(big + [0], 1)
                elif how == 'cardinality-zero':
                    F.cardinality_leq(big + [0], 1)
                elif how == 'batch':
                    F.add_clauses_from([big + [0]])
                elif how == 'bad-operator' and case['cls'] == 'CNF':
                    F.add_linear(big, '=>', 1)
                elif how == 'bad-operator':
                    F.add_constraint([(1, l) for l in big] + ['=>', 1])
                elif case['cls'] == 'OPB':
                    F.add_constraint([(1, l) for l in big] + [(2, 0), '>=', 1])
                else:
                    F.add_linear(big + [0], '>=', 1)
                raise Violation("{}: accepted".format(what))
            except ValueError:
                pass
            if len(F) != rows_before:
                raise Violation("{}: refused with ValueError but {} row(s) stayed in the formula".format(what, len(F) - rows_before))
            if F.number_of_variables() != before:
                raise Violation("{}: refused with ValueError but the declared number of variables went from {} to {}".format(
                    what, before, F.number_of_variables()))
            labels.add('refused-insertion')
        elif kind == 'update_variable_number':
            F.update_variable_number(a[0])
            if a[0] > top:
                raised_between = True
            top = max(top, a[0])
        else:
            raise ValueError(kind)
        if kind.startswith('new_'):
            if g is not None:
                ids = list(g)
            exp = _group_size(kind, a)
            if exp is not None and len(ids) != exp:
                raise Violation("{}: the group has {} variables, its definition gives {}".format(what, len(ids), exp))
            if ids:
                if ids != list(range(ids[0], ids[0] + len(ids))):
                    raise Violation("{}: identifiers {} are not contiguous".format(what, ids[:10]))
                if ids[0] <= top:
                    raise Violation("{}: the new group starts at {} but variable {} was already mentioned or allotted".format(what, ids[0], top))
                if ids[0] != top + 1 and ids[0] != before + 1:
                    raise Violation("{}: the new group starts at {} (declared count was {})".format(what, ids[0], before))
                top = max(top, ids[-1])
            ngroups += 1
            if ngroups >= 2 and raised_between:
                interesting = True
            labels.add(kind)
            raised_between = False
        now = F.number_of_variables()
        if now < before:
            raise Violation("{}: the declared number of variables decreased {} -> {}".format(what, before, now))
        if now < top:
            raise Violation("{}: variable {} was mentioned/allotted but only {} are declared".format(what, top, now))
    audit(F, "history {} ({} steps)".format(case['cls'], len(case['ops'])),
          zero_ok=any(k == 'add_constraint' and any(p[0] == 0 for p in a[0]) for k, *a in case['ops'] if k == 'add_constraint'))
    if F.number_of_variables() != top:
        raise Violation("history: {} variables declared but the largest mentioned/allotted/requested is {}".format(F.number_of_variables(), top))
    return Outcome(labels=sorted(labels), nontrivial=interesting)


@st.composite
def strat_history(draw):
    ops = []
    nsteps = draw(I(1, 30))
    S = lambda lo, hi: draw(I(lo, hi))      # noqa
    for _ in range(nsteps):
        kind = draw(st.sampled_from(GROUP_OPS + ['add_clause', 'add_clause', 'add_clause_nocheck', 'builder_nocheck',
                                                 'builder_check', 'update_variable_number', 'add_clauses_from', 'add_constraint', 'refused', 'add_clause_lazy']))
        lits = draw(st.lists(st.integers(-40, 40), max_size=5))
        if kind == 'new_variable':
            ops.append([kind])
        elif kind == 'new_block':
            ops.append([kind, draw(st.lists(I(0, 4), min_size=1, max_size=3))])
        elif kind in ('new_combinations', 'new_permutations', 'new_words'):
            ops.append([kind, S(0, 5), S(0, 3)])
        elif kind in ('new_mapping',):
            ops.append([kind, S(0, 4), S(0, 4)])
        elif kind == 'new_binary_mapping':
            ops.append([kind, S(0, 4), S(0, 9)])
        elif kind in ('new_sparse_mapping', 'new_bipartite_edges'):
            L, R = S(0, 4), S(0, 4)
            P = [[u, v] for u in range(1, L + 1) for v in range(1, R + 1)]
            ops.append([kind, L, R, draw(st.lists(st.sampled_from(P), unique_by=tuple)) if P else []])
        elif kind in ('new_graph_edges', 'new_digraph_edges'):
            n = S(0, 5)
            P = [[u, v] for u in range(1, n + 1) for v in range(u + 1, n + 1)]
            ops.append([kind, n, draw(st.lists(st.sampled_from(P), unique_by=tuple)) if P else []])
        elif kind in ('add_clause', 'add_clause_nocheck'):
            ops.append([kind, lits])
        elif kind == 'add_clause_lazy':
            item = st.one_of(st.integers(-40, 40), st.integers(-40, 40), st.lists(I(1, 3), min_size=1, max_size=2))
            ops.append([kind, draw(st.lists(item, min_size=1, max_size=5))])
        elif kind == 'refused':
            ops.append([kind, draw(st.sampled_from(['zero-literal', 'string-literal', 'parity-zero', 'cardinality-zero', 'batch', 'bad-operator', 'linear-zero'])), lits])
        elif kind == 'add_clauses_from':
            item = st.one_of(st.lists(st.integers(-40, 40), max_size=4), st.lists(st.integers(-40, 40), max_size=4),
                             st.just(['new_variable']), st.lists(I(0, 3), min_size=1, max_size=2).map(lambda d: ['new_block', d]))
            ops.append([kind, draw(st.lists(item, max_size=6)), draw(st.sampled_from(['list', 'generator'])), draw(B_)])
        elif kind == 'add_constraint':
            pairs = draw(st.lists(st.tuples(st.integers(-3, 3), st.integers(-40, 40).filter(bool)), max_size=4))      # a term with coefficient 0 still mentions its variable
            ops.append([kind, [list(p) for p in pairs], draw(st.sampled_from(['>=', '<=', '>', '<', '=='])), S(-3, 6), draw(B_),
                        draw(st.sampled_from(['tuple', 'list']))])
        elif kind == 'builder_nocheck':
            ops.append([kind, draw(st.sampled_from(['add_parity', 'add_linear', 'cardinality_geq', 'cardinality_leq', 'cardinality_eq', 'cardinality_neq'])),
                        lits, S(0, 5), draw(st.sampled_from(['<=', '>=', '==', '!=', '<', '>']))])
        elif kind == 'builder_check':
            ops.append([kind, draw(st.sampled_from(['add_parity', 'cardinality_geq', 'cardinality_leq', 'cardinality_eq', 'cardinality_neq'])), lits, S(0, 5)])
        else:
            ops.append([kind, S(0, 60)])
    return {'cls': draw(st.sampled_from(['CNF', 'OPB'])), 'ops': ops}


SUBCHECKS = [
    SubCheck('families', run_family, strategy=strat_family, quick=1600, thorough=40000,
             rule="every family through the library at realistic sizes (php up to 40x30, graph families on gnm/regular/grid graphs up to 60 vertices from seeded networkx generators, op 16, stone 14x6, cpls 4x8x8, pitfall 10 vertices, vdw 60, ptn 300, random 4-CNF 200x400, ...), CNF and OPB classes, followed by chains of 0..3 transformations (one clause-expanding step; size bounded before building); oracle: every literal a non-zero int (not bool) within 1..number_of_variables(), OPB coefficients positive (zero only where the caller passed a zero himself), number_of_variables() equals the documented count re-derived from the parameters, as many names as variables, no freshness event (hook H1), input untouched by the chain; non-trivial: >=100 rows or a chain applied",
             required_labels=sorted(INSTANCES) + ['CNF', 'OPB', 'chain-length>=2', 'T:xorcomp', 'T:lift', 'T:shuffle']),
    SubCheck('tools', run_cli, strategy=strat_cli, enumerate_cases=enum_cli, quick=600, thorough=20000,
             rule="every sub-command of the catalogue through cnfgen (with -T chains) and pbgen built in-process; same structural oracle on the returned object, and for cnfgen with -T the declared number of variables equals the documented function (x k, x 3, x 2k, N) of the number declared without the chain; enumerated: formulas with variables but no clauses (randkcnf k n 0, ptn 4, or 2 0 -T atmost 2 2, ...) through every transformation and pairs of transformations",
             required_labels=['cnfgen', 'pbgen', 'no-clauses', 'count-after-chain']),
    SubCheck('history', run_history, strategy=strat_history, quick=1500, thorough=60000,
             rule="op logs (1..30 steps) on CNF and OPB: all eleven group constructors with generated shapes (empty groups included), add_clause(check=True) with arbitrary literals up to 40, add_clause(check=False) and check=False builders restricted to declared variables, checked builders, update_variable_number, add_clauses_from on lists and on lazy iterables that allot variables/blocks between two clauses, a single clause given as a generator that allots blocks while it is read and yields only some of the new variables, OPB add_constraint/add_constraints_from with (coefficient, literal) pairs (coefficients -3..3, zero included: such a term still mentions its variable) given as tuples or as lists and all five operators, insertions that must be refused (literal 0, a string literal, an unknown operator, through add_clause / add_clauses_from / add_parity / cardinality_leq / add_linear / add_constraint: ValueError, no row kept, declared count unchanged); model: the largest identifier mentioned/allotted so far; after every step: new group contiguous and strictly above the model value, declared count never decreases and covers the model value; at the end the structural oracle + empty H1 record; non-trivial: >=2 group creations separated by an insertion that raised the count",
             required_labels=GROUP_OPS + ['CNF', 'OPB', 'allot-inside-batch', 'constraint-pairs:list', 'constraint-pairs:tuple', 'refused-insertion', 'lazy-clause']),
]
