"""C12 - OPB and LaTeX renderings denote the formula held in memory.

The renderings are read back by two readers written from the format descriptions
(vlib/rd_opb.py, vlib/rd_latex.py) and compared row by row with ``list(F)`` and with
``F.all_variable_labels()``.

comment_shield also holds the long-text cases (cases with 'long', run_long): header values and keys, description,
variable names, block labels and extra_text of 100..5000 characters, in one word, with blanks at the usual wrap
columns, multi-line, with the comment marks of other formats - OPB, LaTeX snippet and LaTeX document.
"""
import codecs
import gc
import inspect
import io
import itertools
import json
import os
import pathlib
import random
import re
import shutil
import subprocess
import sys
import tempfile
from collections import Counter

from hypothesis import strategies as st

from vlib.core import SubCheck, Violation, Outcome
from vlib.rd_opb import read_opb
from vlib.rd_latex import read_latex, norm_name

PROPERTY = "C12"
ASSUMPTIONS = [
    "rows are compared in order; inside a row the (coefficient, literal) pairs are compared as a multiset (the order of the terms of a constraint is not part of the statement)",
    "OPB: one constraint per line, lines separated by '\\n', terminating ';' optional (the tree documents the format without it); white-space-only lines tolerated",
    "LaTeX: a literal is negative iff it carries \\overline/\\bar or a \\neg/\\lnot prefix; names are compared with braces and white space removed; structure is read at brace depth 0 only",
    "variable labels are non-empty brace-balanced LaTeX fragments without backslash, '&', '%'; labels and header keys/values contain no line break except in the sub-check comment_shield",
    "the header always keeps its 'description' entry (to_latex_document uses it as title; every piece of code in the tree keeps it)",
    "page split: to_latex_document puts 35 rows in each align environment (the number named in the property's mechanism) with a page break between environments; to_latex() is a single environment",
    "unnamed variables are called x_<id> in LaTeX (default_label_format='x_{}' is what latexoutput passes to all_variable_labels)",
    "format selection: an explicit 'latex'/'opb'/'dimacs' request wins; otherwise the extension of the file name (.tex/.opb, case sensitive, as os.path.splitext sees it); otherwise DIMACS (CNF class) or OPB (OPB class, which has no DIMACS writer); file names starting with a dot, upper-case extensions, bytes names are not generated (pathlib names: only in the sub-check destination)",
    "pbgen's -of has the default 'opb', i.e. pbgen always makes an explicit request; cnfgen/pbgen are run in-process through cli()",
    "destination: a destination object only has to offer write(str) (no flush/close/writelines/name, any truth value, any return value of write); the writers leave it open; a str is a file name, created or truncated, complete and closed when the call returns; the writers document 'file object or string', so a pathlib.Path may be refused (AttributeError/TypeError) as long as no file is touched and nothing is printed - if it is accepted it is a file name",
    "destination: the format guessed for an object is taken from its string-valued 'name' attribute (open files, NamedTemporaryFile, codecs.open, user objects), otherwise the default format",
    "environment: a file written by NAME is UTF-8 whatever the locale (the tree opens it with encoding='utf-8', the LaTeX document declares utf8 inputenc); it must decode as UTF-8 and denote the formula (exact equality with the StringIO text is only demanded in-process). The encoding of the standard output (destination None) and of a handle opened by the caller is the caller's: for the standard output a text it cannot encode is either refused with UnicodeEncodeError or written completely with the offending characters replaced (to_latex_document does the latter since 72d8609, the OPB writer the former); handles opened by the caller are only tested with an explicit utf-8 encoding; file and directory names are ASCII",
]

PER_PAGE = 35
# header fields whose value cannot occur in the output by coincidence: only these are used to
# assert that export_header=False keeps the header out
_SENTINEL = ('verif sentinel', 'ZQ7-sentinel-value-X19')
_DISTINCTIVE = ('generator', 'copyright', 'url', 'command line', _SENTINEL[0])
_TMPROOT = os.path.join(tempfile.gettempdir(), "verif_c12")


# ---------------------------------------------------------------------------
# expected content, from the formula in memory

def _classes():
    from cnfgen.formula.basecnf import BaseCNF
    from cnfgen.formula.baseopb import BaseOPB
    return BaseCNF, BaseOPB


def expected_rows(F):
    """[(terms, relation, degree)] with terms = [(coeff, var, negative)], from list(F)."""
    BaseCNF, BaseOPB = _classes()
    rows = []
    if isinstance(F, BaseCNF):
        for cls in list(F):
            rows.append(([(1, abs(l), l < 0) for l in cls], '>=', 1))
    elif isinstance(F, BaseOPB):
        for con in list(F):
            rel = con[-2]
            if rel not in ('>=', '=='):
                raise Violation("the formula in memory holds the relation {!r}".format(rel))
            rows.append(([(c, abs(l), l < 0) for c, l in con[:-2]], rel, con[-1]))
    else:
        raise RuntimeError("neither CNF nor OPB: {}".format(type(F)))
    return rows


def is_cnf(F):
    return isinstance(F, _classes()[0])


def _fmt_terms(terms):
    return ' '.join('{:+d}*{}{}'.format(c, '~' if n else '', v) for c, v, n in terms) or '<no terms>'


def asc(x):
    return str(x).encode('ascii', errors='replace').decode('ascii')


def flat(x):
    """the text as it can appear inside ONE comment line: line breaks (str.splitlines) collapsed to spaces"""
    return asc(" ".join(str(x).splitlines()))


def shown(x, c):
    """x appears in the comment c, verbatim or with its line breaks collapsed"""
    return asc(x) in c or flat(x) in c or flat(x).strip() in c


# ---------------------------------------------------------------------------
# OPB oracle

def check_opb(text, F, what, export_header=False, export_varnames=False, header_content=True):
    if not isinstance(text, str):
        raise Violation("{}: not a string but {}".format(what, type(text).__name__))
    res = read_opb(text)
    rows = expected_rows(F)
    n = F.number_of_variables()
    if res.errors:
        no, line, why = res.errors[0]
        raise Violation("{}: line {} {!r} is neither a comment nor a constraint ({})".format(what, no, line[:80], why),
                        signature='opb-non-comment-line')
    if res.declared_variables != n or res.declared_constraints != len(rows):
        raise Violation("{}: declares #variable= {} #constraint= {} but the formula has {} variables and {} constraints".format(
            what, res.declared_variables, res.declared_constraints, n, len(rows)))
    if len(res.constraints) != len(rows):
        raise Violation("{}: {} constraint lines for {} constraints in memory".format(what, len(res.constraints), len(rows)),
                        signature='opb-non-comment-line' if len(res.constraints) > len(rows) else None)
    for i, ((gt, grel, gdeg), (et, erel, edeg)) in enumerate(zip(res.constraints, rows)):
        want_rel = '>=' if erel == '>=' else '='
        if Counter(gt) != Counter(et) or grel != want_rel or gdeg != edeg:
            raise Violation("{}: constraint {} (line {}) reads  {} {} {}  but the formula holds  {} {} {}".format(
                what, i + 1, res.constraint_lines[i], _fmt_terms(gt), grel, gdeg, _fmt_terms(et), erel, edeg))
        for c, v, _neg in gt:
            if not 1 <= v <= n:
                raise Violation("{}: constraint {} mentions x{} but only {} variables are declared".format(what, i + 1, v, n))
    if export_varnames:
        # docstring: "a map from variable indices to variable names should be appended to the header"
        labels = list(F.all_variable_labels())
        for vid, lab in enumerate(labels, start=1):
            pat = re.compile(r'(?<![A-Za-z0-9_])x{}(?![0-9])'.format(vid))
            if not any(pat.search(c) and (str(lab) in c[pat.search(c).end():] or flat(lab).strip() in asc(c[pat.search(c).end():])) for c in res.comments):
                raise Violation("{}: export_varnames=True but no comment maps x{} to its name {!r}".format(what, vid, lab))
    if header_content and not export_header and not export_varnames and res.comments:
        # the doctests of to_opb() pin the output without header and names: spec line and constraints only
        raise Violation("{}: neither header nor variable names are exported, yet there is the comment {!r}".format(
            what, res.comments[0][:80]))
    if header_content and not export_header:
        # "export_header determines whether the formula header should be inserted"; cnfgen -q: "no header"
        for k, v in F.header.items():
            if k in _DISTINCTIVE and len(asc(v).strip()) >= 8 and any(asc(v) in c for c in res.comments):
                raise Violation("{}: export_header=False but header field {!r}: {!r} is in a comment".format(what, k, v))
    if export_header and header_content:
        # docstring: "the formula header should be inserted as a comment"
        for k, v in F.header.items():
            if ' object at 0x' in str(v):
                continue          # a description that prints an object address (C07's business) differs between builds
            if not any(shown(k, c) and shown(v, c) for c in res.comments):
                raise Violation("{}: export_header=True but header field {!r}: {!r} is in no comment".format(what, k, v))
    return res


# ---------------------------------------------------------------------------
# LaTeX oracle

_PAGEBREAK = re.compile(r'\\(pagebreak|newpage|clearpage)(?![A-Za-z])')


def check_latex(text, F, what, document, export_header=None):
    if not isinstance(text, str):
        raise Violation("{}: not a string but {}".format(what, type(text).__name__))
    doc = read_latex(text)
    rows = expected_rows(F)
    cnf = is_cnf(F)
    labels = [norm_name(str(l)) for l in F.all_variable_labels(default_label_format='x_{}')]
    if len(labels) != F.number_of_variables():
        raise Violation("{}: all_variable_labels gives {} names for {} variables".format(what, len(labels), F.number_of_variables()))
    if doc.errors:
        raise Violation("{}: {}".format(what, doc.errors[0]))
    if not doc.blocks:
        raise Violation("{}: no align environment".format(what))
    if document:
        if doc.documentclass != 1 or doc.begin_document != 1 or doc.end_document != 1:
            raise Violation("{}: a full document needs one \\documentclass, \\begin{{document}}, \\end{{document}}; found {}, {}, {}".format(
                what, doc.documentclass, doc.begin_document, doc.end_document))
        b = doc.before
        if not (0 <= b.find('\\documentclass') < b.find('\\begin{document}')) or '\\end{document}' not in doc.after:
            raise Violation("{}: the formula is not between \\begin{{document}} and \\end{{document}} of a document with a preamble".format(what))
    else:
        if doc.documentclass or doc.begin_document or doc.end_document:
            raise Violation("{}: the snippet contains a preamble or a document environment".format(what))
        if len(doc.blocks) != 1:
            raise Violation("{}: the snippet has {} align environments".format(what, len(doc.blocks)))
    if document and export_header is not None:
        # "export_header determines whether the formula header should be inserted ... in the output"
        for k, v in F.header.items():
            if k == 'description' or ' object at 0x' in str(v) or len(asc(v).strip()) < 8:
                continue            # the description is the title in either case
            if export_header and asc(v) not in text:
                raise Violation("{}: export_header=True but header field {!r}: {!r} is not in the document".format(what, k, v))
            if not export_header and k in _DISTINCTIVE and asc(v) in text:
                raise Violation("{}: export_header=False but header field {!r}: {!r} is in the document".format(what, k, v))
    got = [r for blk in doc.blocks for r in blk]
    if len(rows) == 0:
        if len(got) != 1 or got[0].kind != 'top' or len(doc.blocks) != 1:
            raise Violation("{}: the empty formula must be rendered as a single \\top, found {!r}".format(
                what, [r.text.strip() for r in got][:4]))
        return doc
    if any(r.kind == 'top' for r in got):
        raise Violation("{}: \\top in the rendering of a formula with {} rows".format(what, len(rows)))
    if len(got) != len(rows):
        raise Violation("{}: {} rows rendered for {} rows in memory".format(what, len(got), len(rows)))
    for i, (r, (et, erel, edeg)) in enumerate(zip(got, rows)):
        if cnf:
            if r.kind != 'clause':
                raise Violation("{}: row {} of a CNF is not a clause: {!r}".format(what, i + 1, r.text.strip()))
            want = Counter((labels[v - 1], neg) for _c, v, neg in et)
            if Counter(r.lits) != want:
                raise Violation("{}: row {} shows {} but clause {} is {} (names {})".format(
                    what, i + 1, sorted(r.lits), i + 1, list(F)[i], sorted(want)))
        else:
            if r.kind != 'constraint':
                raise Violation("{}: row {} of a pseudo-Boolean formula is not a linear constraint: {!r}".format(what, i + 1, r.text.strip()))
            want = Counter((c, labels[v - 1], neg) for c, v, neg in et)
            if Counter(r.terms) != want or r.rel != erel or r.degree != edeg:
                raise Violation("{}: row {} shows {} {} {} but constraint {} is {} (names {})".format(
                    what, i + 1, sorted(r.terms), r.rel, r.degree, i + 1, list(F)[i], sorted(want)))
    sizes = [len(b) for b in doc.blocks]
    if document:
        want_sizes = [PER_PAGE] * (len(rows) // PER_PAGE) + ([len(rows) % PER_PAGE] if len(rows) % PER_PAGE else [])
        if sizes != want_sizes:
            raise Violation("{}: {} rows are split into align environments of sizes {}; expected a page break every {} rows: {}".format(
                what, len(rows), sizes, PER_PAGE, want_sizes))
        for gap in doc.between:
            if not _PAGEBREAK.search(gap):
                raise Violation("{}: two align environments without a page break between them: {!r}".format(what, gap[:60]))
    return doc


def check_dimacs_selected(text, what):
    # comment lines carry arbitrary header text (Hypothesis feeds string constants of this file, such as
    # '\\begin{align', into header values): only the lines that are not comments tell the format
    lines = [l for l in text.split('\n') if not l.startswith('c')]
    p = [l for l in lines if l.startswith('p cnf ')]
    if len(p) != 1 or any('\\begin{align' in l for l in lines) or any(l.startswith('* #variable=') for l in lines):
        raise Violation("{}: DIMACS was expected, got {!r}".format(what, text[:80]))


def check_format(fmt, text, F, what, eh, ev, header_content=True):
    if fmt == 'opb':
        check_opb(text, F, what, export_header=eh, export_varnames=ev, header_content=header_content)
    elif fmt == 'latex':
        check_latex(text, F, what, document=True, export_header=eh if header_content else None)
    else:
        check_dimacs_selected(text, what)


def expected_format(F, name, request):
    if request in ('latex', 'opb', 'dimacs'):
        fmt = request
    else:
        ext = os.path.splitext(name)[1] if name is not None else ''
        fmt = {'.tex': 'latex', '.opb': 'opb'}.get(ext, 'dimacs')
    if fmt == 'dimacs' and not is_cnf(F):
        fmt = 'opb'
    return fmt


# ---------------------------------------------------------------------------
# observing to_file in its different guises

class _Capture:
    """Replace sys.stdout by a text buffer for the duration of a call."""

    def __enter__(self):
        self.old = sys.stdout
        self.buf = io.StringIO()
        sys.stdout = self.buf
        return self.buf

    def __exit__(self, *a):
        sys.stdout = self.old
        return False


def _read(path):
    with open(path, 'r', encoding='utf-8', newline='') as f:
        return f.read()


def to_file_named(F, target, kwargs):
    """target = {'how': 'path'|'fileobj'|'stdout'|'stringio', 'dir': str, 'name': str}
    Returns (text, name used for the guess or None)."""
    how = target['how']
    if how == 'stringio':
        buf = io.StringIO()
        F.to_file(buf, **kwargs)
        return buf.getvalue(), None
    if how == 'stdout':
        with _Capture() as buf:
            F.to_file(None, **kwargs)
        return buf.getvalue(), None
    os.makedirs(_TMPROOT, exist_ok=True)
    d = tempfile.mkdtemp(dir=_TMPROOT)
    try:
        sub = os.path.join(d, target.get('dir') or '')
        os.makedirs(sub, exist_ok=True)
        path = os.path.join(sub, target['name'])
        if how == 'path':
            F.to_file(path, **kwargs)
        else:
            with open(path, 'w', encoding='utf-8') as f:
                F.to_file(f, **kwargs)
        return _read(path), path
    finally:
        shutil.rmtree(d, ignore_errors=True)


def render_everything(F, case, labels, header_content=True):
    """All library observation points of one formula."""
    eh, ev = bool(case.get('eh', True)), bool(case.get('ev', False))
    extra = case.get('extra_text', '')
    check_opb(F.to_opb(), F, 'to_opb()')
    check_latex(F.to_latex(), F, 'to_latex()', document=False)
    buf = io.StringIO()
    F.to_file(buf, fileformat='opb', export_header=eh, export_varnames=ev)
    check_opb(buf.getvalue(), F, "to_file(fileformat='opb', export_header={}, export_varnames={})".format(eh, ev),
              export_header=eh, export_varnames=ev, header_content=header_content)
    buf = io.StringIO()
    F.to_file(buf, fileformat='latex', export_header=eh, export_varnames=ev, extra_text=extra)
    check_latex(buf.getvalue(), F, "to_file(fileformat='latex', export_header={})".format(eh), document=True,
                export_header=eh if header_content and not extra else None)
    target = case.get('target')
    if target:
        req = target.get('request')
        kwargs = dict(export_header=eh, export_varnames=ev)
        if req is not None or target.get('pass_none'):
            kwargs['fileformat'] = req
        text, used = to_file_named(F, target, kwargs)
        fmt = expected_format(F, used, req)
        what = "to_file({} {!r}, fileformat={!r})".format(target['how'], os.path.join(target.get('dir') or '', target.get('name') or ''), req)
        check_format(fmt, text, F, what, eh, ev, header_content=header_content)
        labels.append('target-' + target['how'])
        labels.append('selected-' + fmt)
        if req is None and used is not None and fmt in ('opb', 'latex') and os.path.splitext(used)[1] in ('.opb', '.tex'):
            labels.append('by-extension')
        if req is not None and used is not None and os.path.splitext(used)[1] in ('.opb', '.tex') \
                and {'.opb': 'opb', '.tex': 'latex'}[os.path.splitext(used)[1]] != req:
            labels.append('request-beats-extension')
        if req is None and fmt == 'dimacs':
            labels.append('default-dimacs')
    if ev:
        labels.append('varnames')
    labels.append('header' if eh else 'no-header')


def shape_labels(F, labels):
    rows = expected_rows(F)
    cnf = is_cnf(F)
    labels.append('CNF' if cnf else 'OPB')
    if not rows:
        labels.append('empty-formula')
    if any(not t for t, _r, _d in rows):
        labels.append('empty-constraint')
    if any(r == '==' for _t, r, _d in rows):
        labels.append('equality')
    if any(c > 1 for t, _r, _d in rows for c, _v, _n in t):
        labels.append('coefficient>1')
    if any(r == '==' and any(n for _c, _v, n in t) for t, r, _d in rows):
        labels.append('equality-with-negative-literal')
    if any(d < 0 for _t, _r, d in rows):
        labels.append('negative-degree')
    if len(rows) > PER_PAGE:
        labels.append('page-split')
    if len(rows) > 2 * PER_PAGE:
        labels.append('two-page-splits')
    if rows and len(rows) % PER_PAGE == 0:
        labels.append('full-last-page')
    labs = list(F.all_variable_labels())
    if any(re.search(r'[_^]', str(l)) for l in labs):
        labels.append('name-with-sub/superscript')
    if any(re.search(r'[(),=\[\]]', str(l)) for l in labs):
        labels.append('name-with-punctuation')
    withneg = sum(1 for t, _r, _d in rows if any(n for _c, _v, n in t))
    nontrivial = len(rows) >= 2 and withneg >= 1
    if not cnf:
        nontrivial = nontrivial and ('coefficient>1' in labels or 'equality' in labels)
    return nontrivial


# ---------------------------------------------------------------------------
# formulas built by hand

def build_hand(case):
    from cnfgen.formula.cnf import CNF
    from cnfgen.formula.opb import OPB
    desc = case.get('description')
    F = (CNF if case['cls'] == 'CNF' else OPB)(description=desc)
    for g in case.get('groups', []):
        kind = g[0]
        if kind == 'single':
            if g[1] is None:
                F.new_variable()              # a variable of its own without a name
            else:
                F.new_variable(label=g[1])
        elif kind == 'block':
            F.new_block(*g[1], label=g[2])
        elif kind == 'anon':
            F.update_variable_number(F.number_of_variables() + g[1])
        else:
            raise RuntimeError("unknown group {}".format(g))
    for row in case.get('rows', []):
        if case['cls'] == 'CNF':
            F.add_clause(list(row))
        elif row[0] == 'clause':
            F.add_clause(list(row[1]))
        else:
            F.add_constraint([tuple(t) for t in row[1]] + [row[2], row[3]])
    for k, v in case.get('header', []):
        F.header[k] = v
    F.header[_SENTINEL[0]] = _SENTINEL[1]
    return F


def run_hand(case):
    F = build_hand(case)
    # the first thing ever asked of the object may be a rendering (the harness looks at names and rows only afterwards)
    first, early = case.get('first'), None
    if first == 'to_latex':
        early = F.to_latex()
    elif first == 'latex-file':
        buf = io.StringIO()
        F.to_file(buf, fileformat='latex', export_header=False, export_varnames=False)
        early = buf.getvalue()
    elif first == 'opb-names':
        buf = io.StringIO()
        F.to_file(buf, fileformat='opb', export_header=False, export_varnames=True)
        early = buf.getvalue()
    labels = []
    nontrivial = shape_labels(F, labels)
    # names the harness knows without asking: a variable that was never given a name is x_<id> in LaTeX and x<id> elsewhere,
    # however it came into being (declared count raised, mentioned by a row, new_variable() without a label); a named single
    # variable carries its label
    vid, known = 0, {}
    for g in case.get('groups', []):
        if g[0] == 'single':
            vid += 1
            known[vid] = g[1]
            if g[1] is None:
                labels.append('unnamed-single-variable')
        elif g[0] == 'anon':
            for _ in range(g[1]):
                vid += 1
                known[vid] = None
        else:
            k = 1
            for dd in g[1]:
                k *= dd
            vid += k
    for v in range(vid + 1, F.number_of_variables() + 1):
        known[v] = None
    for fmt in ('x_{}', 'x{}'):
        got = list(F.all_variable_labels(default_label_format=fmt)) if fmt != 'x{}' else list(F.all_variable_labels())
        for v, nm in sorted(known.items()):
            want = fmt.format(v) if nm is None else nm
            if v <= len(got) and str(got[v - 1]) != want:
                raise Violation("variable {} {} but is listed as {!r} where {!r} is its name under the default format {!r}; groups {}".format(
                    v, 'was never given a name' if nm is None else 'was named {!r}'.format(nm), got[v - 1], want, fmt, case.get('groups')))
    if first == 'to_latex':
        check_latex(early, F, 'to_latex() as the first thing asked of the object', document=False)
    elif first == 'latex-file':
        check_latex(early, F, "to_file(fileformat='latex') as the first thing asked of the object", document=True, export_header=None)
    elif first == 'opb-names':
        check_opb(early, F, "to_file(fileformat='opb', export_varnames=True) as the first thing asked of the object",
                  export_header=False, export_varnames=True)
    if first:
        labels.append('first-observation:' + first)
    rws = case.get('rows', [])
    if any(at < len(rws) and (rws[at] == [] or rws[at] == ['clause', []]) for at in (35, 70)):
        labels.append('empty-clause-opens-a-page')
    if any(g[0] == 'block' and 0 in g[1] for g in case.get('groups', [])):
        labels.append('group-without-variables')
        gs = case['groups']
        if any(gs[i][0] == 'block' and 0 in gs[i][1] and gs[i + 1][0] != 'anon' and not (gs[i + 1][0] == 'block' and 0 in gs[i + 1][1])
               for i in range(len(gs) - 1)):
            labels.append('named-group-after-empty-group')
    render_everything(F, case, labels)
    return Outcome(labels=labels, nontrivial=nontrivial)


_NAMECHARS = "abcxyzXYZpqe0123456789 ,.:;'()[]=+-*/|<>!~éα"
_SAFE = "abcdefghijklmnopqrstuvwxyzABCDEFGHIJKLMNOPQRSTUVWXYZ0123456789 ,.()-=_"
_HEADERCHARS = _SAFE + "*+~#%&{}\\$^:;<>!?\"'`|/@[]\téèα \u0085"

_frag = st.text(alphabet=_NAMECHARS, min_size=1, max_size=4).filter(lambda s: s.strip() != '')
_sub = st.text(alphabet=_NAMECHARS, max_size=4)


def _balanced(s):
    d = 0
    for ch in s:
        if ch == '{':
            d += 1
        elif ch == '}':
            d -= 1
            if d < 0:
                return False
    return d == 0


@st.composite
def _single_label(draw):
    base = draw(_frag)
    form = draw(st.integers(0, 8))
    a, b = draw(_sub), draw(_sub)
    if not _balanced(a):
        a = a.replace('{', '').replace('}', '')
    if not _balanced(b):
        b = b.replace('{', '').replace('}', '')
    lab = [base, base + '_{' + a + '}', base + '^{' + b + '}', base + '_{' + a + '}^{' + b + '}',
           '{' + base + '_{' + a + '}}^' + (b[:1] if b[:1] not in ('{', '}', ' ', '') else '1'), '_' + base, '^' + base + '_' + (a[:1] if a[:1] not in ('{', '}', ' ', '') else '2'),
           base + '_' + (a[:1] if a[:1] not in ('{', '}', ' ', '') else '1'), '(' + base + ')_{' + a + '}'][form]
    return lab


_BLOCK1 = ['x_{{{}}}', 'y^{{{}}}', 'v({})', 'e[{}]', 'Z{}', 'p_{{{0}}}^{{a}}', '(f_{{{}}})', 'R_{}', '{{x({})}}^1', '_{}']
_BLOCK2 = ['p_{{{},{}}}', 'e({},{})', 'f({})={}', 'X[{},{}]', '(u({0}))_{{{1}}}', 'e[{}]_{{{}}}', '{{p_{{{},{}}}}}^1',
           'x_{{{0}{1}}}', 'G_{}({})', 'X_{{x_{{{},{}}}}}^2', '{{{{p_{{{{{},{}}}}}}}}}^{{i}}', 'q^{{{}}}_{{{}}}']

_group = st.one_of(
    st.tuples(st.just('single'), _single_label()).map(list),
    st.just(['single', None]),
    st.tuples(st.just('block'), st.lists(st.integers(1, 3), min_size=1, max_size=1), st.sampled_from(_BLOCK1)).map(list),
    st.tuples(st.just('block'), st.lists(st.integers(1, 3), min_size=2, max_size=2), st.sampled_from(_BLOCK2)).map(list),
    st.tuples(st.just('anon'), st.integers(1, 3)).map(list),
    # groups without variables (a block with a dimension 0, as the edges of an edgeless graph give)
    st.tuples(st.just('block'), st.sampled_from([[0], [0, 2], [2, 0]]), st.sampled_from(_BLOCK2)).map(
        lambda g: [g[0], g[1], g[2] if len(g[1]) == 2 else 'x_{{{}}}']),
)

_nrows = st.one_of(st.integers(0, 6), st.integers(0, 80), st.sampled_from([34, 35, 36, 69, 70, 71, 72, 80]))

_NAMES = ['f', 'formula', 'a.b', 'x-1', 'out_2', 'tex', 'opb']
_EXTS = ['.opb', '.tex', '.cnf', '.txt', '', '.dimacs', '.latex', '.opb.bak', '.tex.opb', '.opb.tex', '.tex.gz', '.opbx', '.te']
_DIRS = ['', '', '', 'd.tex', 'd.opb', 'sub']


@st.composite
def strat_target(draw, cls):
    how = draw(st.sampled_from(['path', 'path', 'fileobj', 'stringio', 'stdout']))
    reqs = [None, None, None, 'opb', 'latex'] + (['dimacs'] if cls == 'CNF' else [])
    t = {'how': how, 'request': draw(st.sampled_from(reqs)), 'pass_none': draw(st.booleans())}
    if how in ('path', 'fileobj'):
        t['dir'] = draw(st.sampled_from(_DIRS))
        t['name'] = draw(st.sampled_from(_NAMES)) + draw(st.sampled_from(_EXTS))
    return t


def _lit(maxvar):
    return st.integers(-maxvar, maxvar - 1).map(lambda v: v if v < 0 else v + 1)


def _rows(draw, row, n):
    """n rows: drawn one by one when few, otherwise a pool of up to 8 drawn rows repeated in a
    drawn pattern (keeps generation cheap; neighbouring rows still differ most of the time)."""
    if n <= 8:
        return draw(st.lists(row, min_size=n, max_size=n))
    pool = draw(st.lists(row, min_size=3, max_size=8))
    idx = draw(st.lists(st.integers(0, len(pool) - 1), min_size=n, max_size=n))
    return [pool[i] for i in idx]


@st.composite
def strat_hand(draw):
    cls = draw(st.sampled_from(['CNF', 'OPB']))
    groups = draw(st.lists(_group, max_size=4))
    nv = 0
    for g in groups:
        if g[0] == 'single':
            nv += 1
        elif g[0] == 'anon':
            nv += g[1]
        else:
            k = 1
            for d in g[1]:
                k *= d
            nv += k
    maxvar = max(1, nv + draw(st.integers(0, 2)))
    n = draw(_nrows)
    if cls == 'CNF':
        rows = _rows(draw, st.lists(_lit(maxvar), max_size=4), n)
    else:
        term = st.tuples(st.one_of(st.integers(1, 12), st.integers(1, 3), st.integers(-12, -1), st.integers(0, 1)), _lit(maxvar)).map(list)
        con = st.tuples(st.just('con'), st.lists(term, max_size=4), st.sampled_from(['>=', '==', '==', '<=', '<', '>']),
                        st.integers(-5, 30)).map(list)
        cl = st.tuples(st.just('clause'), st.lists(_lit(maxvar), max_size=4)).map(list)
        rows = _rows(draw, st.one_of(con, con, cl), n)
    if len(rows) > 35 and draw(st.integers(0, 2)) == 0:
        # the rows that open and close a page of the LaTeX document are special ones: the empty clause, a unit, the widest row
        for at in (35, 70, 34, 69):
            if at < len(rows) and draw(st.booleans()):
                rows[at] = [] if cls == 'CNF' else ['clause', []]
    case = {'cls': cls, 'groups': groups, 'rows': rows,
            'eh': draw(st.booleans()), 'ev': draw(st.booleans()),
            'target': draw(strat_target(cls))}
    if draw(st.booleans()):
        case['description'] = draw(st.text(alphabet=_SAFE, max_size=20))
    hdr = draw(st.lists(st.tuples(st.text(alphabet=_HEADERCHARS, min_size=1, max_size=8),
                                  st.one_of(st.text(alphabet=_HEADERCHARS, max_size=16), st.integers(-5, 10 ** 6))).map(list),
                        max_size=2))
    if hdr:
        case['header'] = hdr
    if draw(st.integers(0, 3)) == 0:
        case['extra_text'] = draw(st.sampled_from(['Some remark.\n', '\\noindent text with $x_1$\n\n', 'a\n\nb\n']))
    if draw(st.booleans()):
        case['first'] = draw(st.sampled_from(['to_latex', 'latex-file', 'opb-names']))
    return case


# ---------------------------------------------------------------------------
# real families (through the tools' own builders), rendered by the library

CATALOGUE = [
    'php 3 2', 'php 4 3 --functional', 'php 3 3 --onto', 'php 2 2 --functional --onto', 'bphp 3 2', 'bphp 4 3',
    'cliquecoloring 3 2 2', 'cliquecoloring 4 3 2', 'count 4 2', 'count 5 3', 'cpls 2 2 2', 'domset 2 grid 2 2',
    'domset 1 complete 3 --alternative', 'ec grid 2 2', 'iso complete 3', 'iso grid 2 2 -e complete 4',
    'kclique 2 complete 3', 'kclique 3 grid 2 2', 'kcliquebin 2 complete 3', 'kcolor 2 complete 3',
    'kcolor 3 grid 2 2', 'matching complete 4', 'matching grid 2 2', 'op 3', 'op 3 --total', 'op 4 --smart',
    'op 3 --plant', 'op 3 --knuth2', 'op 3 --knuth3', 'parity 4', 'parity 3', 'peb pyramid 2', 'peb tree 2',
    'peb path 3', 'pitfall 4 2 2 2 2', 'ptn 5', 'ram 3 3 4', 'ram 2 3 4', 'ramlb 2 2 complete 3', 'rphp 3 2 2',
    'rphp 4 2 3', 'stone 2 pyramid 1', 'stone 3 path 2', 'subsetcard complete 2 2',
    'subsetcard complete 3 3 --equal', 'subsetcard complete 3 3', 'tiling grid 2 2', 'tiling complete 4',
    'tseitin first grid 2 2', 'tseitin one complete 3', 'tseitin zero complete 4', 'vdw 5 2 2', 'vdw 6 3 2',
    'and 2 1', 'and 0 0', 'or 1 2', 'or 0 0', 'false', 'true', 'php 5 4', 'op 4', 'count 6 3', 'php 6 5',
    'subsetcard complete 4 4', 'subsetcard complete 5 5 --equal', 'php 7 5 --functional --onto',
    'php 3 2 -T xor 2', 'op 3 -T lift 2', 'peb pyramid 1 -T or 2', 'php 2 2 -T maj 3', 'php 3 2 -T flip',
    'parity 3 -T eq 2', 'php 3 2 -T ite', 'or 1 1 -T atleast 3 2', 'op 3 -T shuffle', 'php 2 2 -T one 2',
    'php 2 2 -T anybut 3 1', 'php 2 1 -T neq 2', 'php 2 2 -T exact 3 2', 'php 2 2 -T atmost 3 1',
    'php 2 2 -T none', 'php 2 2 -T xor 2 -T or 2',
]
CLI_CATALOGUE = [
    'php 3 2', 'php 4 3 --functional', 'bphp 3 2', 'cliquecoloring 3 2 2', 'count 4 2', 'cpls 2 2 2',
    'domset 2 grid 2 2', 'ec grid 2 2', 'iso complete 3', 'kclique 2 complete 3', 'kcolor 3 grid 2 2',
    'op 3', 'op 4', 'peb pyramid 2', 'pitfall 4 2 2 2 2', 'ramlb 2 2 complete 3', 'rphp 3 2 2',
    'stone 2 pyramid 1', 'subsetcard complete 3 3 --equal', 'subsetcard complete 4 4', 'tseitin first grid 2 2',
    'vdw 5 2 2', 'and 0 0', 'or 0 0', 'false', 'true', 'php 5 4', 'php 7 5 --functional --onto',
    'php 3 2 -T xor 2', 'op 3 -T lift 2', 'php 3 2 -T ite', 'php 2 2 -T xor 2 -T or 2',
]


def run_tool(tool, argv, mode, rseed=0):
    """In-process cli() of cnfgen/pbgen with the process-global state reset."""
    from cnfgen.clitools import msg
    if tool == 'cnfgen':
        from cnfgen.clitools.cnfgen import cli
    else:
        from cnfgen.clitools.pbgen import cli
    msg._prefix = ''
    random.seed(rseed)
    return cli([tool] + list(argv), mode=mode)


def run_catalogue(case):
    F = run_tool(case['tool'], case['args'], 'formula', case.get('rseed', 0))
    labels = [case['tool']]
    nontrivial = shape_labels(F, labels)
    if '-T' in case['args']:
        labels.append('transformed')
    render_everything(F, case, labels)
    return Outcome(labels=labels, nontrivial=nontrivial)


_ENUM_TARGETS = [
    {'how': 'path', 'dir': '', 'name': 'f.opb', 'request': None},
    {'how': 'path', 'dir': '', 'name': 'f.tex', 'request': None},
    {'how': 'fileobj', 'dir': '', 'name': 'g.opb', 'request': None},
    {'how': 'fileobj', 'dir': 'd.opb', 'name': 'g.tex', 'request': None, 'pass_none': True},
    {'how': 'path', 'dir': '', 'name': 'f.tex', 'request': 'opb'},
    {'how': 'path', 'dir': '', 'name': 'f.opb', 'request': 'latex'},
    {'how': 'path', 'dir': 'd.tex', 'name': 'f.cnf', 'request': None},
    {'how': 'stdout', 'request': None},
    {'how': 'stdout', 'request': 'latex'},
    {'how': 'stringio', 'request': None},
    {'how': 'fileobj', 'dir': '', 'name': 'h', 'request': 'opb'},
]


def enum_catalogue(tier):
    i = 0
    for tool in ('cnfgen', 'pbgen'):
        for s in CATALOGUE:
            if tool == 'pbgen' and '-T' in s:
                continue
            for eh, ev in itertools.product([True, False], repeat=2):
                yield {'tool': tool, 'args': s.split(), 'eh': eh, 'ev': ev,
                       'target': dict(_ENUM_TARGETS[i % len(_ENUM_TARGETS)])}
                i += 1


# ---------------------------------------------------------------------------
# the command line tools themselves

def run_cli(case):
    tool, args = case['tool'], list(case['args'])
    of, lflag, quiet, varnames = case.get('of'), case.get('lflag', False), case.get('quiet', False), case.get('varnames', False)
    out, mode = case.get('out'), case.get('mode', 'output')
    labels = [tool, 'mode-' + mode]
    opts = []
    if quiet:
        opts.append('-q')
    if varnames:
        opts.append('--varnames')
    if lflag:
        opts.append('-l')
    elif of:
        opts += ['-of', of]
    request = 'latex' if lflag else of
    if request is None and tool == 'pbgen':
        request = 'opb'                   # the default of pbgen's -of
    what = ' '.join([tool] + opts + (['-o', out] if out else []) + args)
    d = None
    try:
        path = None
        if out:
            os.makedirs(_TMPROOT, exist_ok=True)
            d = tempfile.mkdtemp(dir=_TMPROOT)
            path = os.path.join(d, out)
            opts += ['-o', path]
        # the formula in memory: same command line (so the header is the same), mode='formula'
        F = run_tool(tool, opts + args, 'formula', case.get('rseed', 0))
        nontrivial = shape_labels(F, labels)
        with _Capture() as buf:
            ret = run_tool(tool, opts + args, mode, case.get('rseed', 0))
        gc.collect()                       # the tool leaves closing its -o file to the garbage collector
        if mode == 'string':
            fmt = expected_format(F, path, request)
            if not isinstance(ret, str):
                raise Violation("{} (mode='string') returned {}".format(what, type(ret).__name__))
            if fmt == 'opb':
                check_opb(ret, F, what + " mode='string'")
            elif fmt == 'latex':
                check_latex(ret, F, what + " mode='string'", document=False)
            else:
                check_dimacs_selected(ret, what + " mode='string'")
        else:
            if path is not None:
                text = _read(path)
            else:
                text = buf.getvalue()
            fmt = expected_format(F, path, request)
            check_format(fmt, text, F, what, not quiet, varnames)
    finally:
        if d:
            shutil.rmtree(d, ignore_errors=True)
    labels.append('selected-' + fmt)
    if request is None and fmt in ('opb', 'latex'):
        labels.append('by-extension')
    if request is not None and out and os.path.splitext(out)[1] in ('.opb', '.tex') and \
            {'.opb': 'opb', '.tex': 'latex'}[os.path.splitext(out)[1]] != fmt:
        labels.append('request-beats-extension')
    if varnames:
        labels.append('varnames')
    labels.append('quiet' if quiet else 'verbose')
    labels.append('to-file' if out else 'to-stdout')
    return Outcome(labels=labels, nontrivial=nontrivial)


_CLI_OUTS = [None, None, 'f.opb', 'f.tex', 'f.cnf', 'f']


def _cli_cases():
    for tool in ('cnfgen', 'pbgen'):
        for s in CLI_CATALOGUE:
            if tool == 'pbgen' and '-T' in s:
                continue
            ofs = [None, 'opb', 'latex', '-l'] + (['dimacs'] if tool == 'cnfgen' else [])
            for of in ofs:
                for quiet in (False, True):
                    for varnames in (False, True):
                        for out in _CLI_OUTS[1:]:
                            for mode in ('output', 'string'):
                                if mode == 'string' and (quiet or varnames):
                                    continue
                                yield {'tool': tool, 'args': s.split(), 'of': None if of == '-l' else of,
                                       'lflag': of == '-l', 'quiet': quiet, 'varnames': varnames,
                                       'out': out, 'mode': mode}


def enum_cli(tier):
    return _cli_cases()


@st.composite
def strat_cli(draw):
    tool = draw(st.sampled_from(['cnfgen', 'pbgen']))
    s = draw(st.sampled_from([c for c in CLI_CATALOGUE if tool == 'cnfgen' or '-T' not in c]))
    of = draw(st.sampled_from([None, 'opb', 'latex', '-l'] + (['dimacs'] if tool == 'cnfgen' else [])))
    mode = draw(st.sampled_from(['output', 'output', 'output', 'string']))
    return {'tool': tool, 'args': s.split(), 'of': None if of == '-l' else of, 'lflag': of == '-l',
            'quiet': draw(st.booleans()), 'varnames': draw(st.booleans()),
            'out': draw(st.sampled_from(_CLI_OUTS)), 'mode': mode}


# ---------------------------------------------------------------------------
# guess_output_format itself

class _Named(io.StringIO):
    pass


def run_guess(case):
    from cnfgen.formula.cnfio import guess_output_format
    name, req, how = case['name'], case['request'], case['how']
    if how == 'str':
        obj = name
    elif how == 'named-object':
        obj = _Named()
        obj.name = name
    else:
        obj = io.StringIO()
        name = None
    if req not in (None, 'latex', 'opb', 'dimacs'):
        # outside the documented requests ('tex' is named by the docstring of to_file but
        # refused by guess_output_format): ValueError or one of the formats, nothing else
        try:
            got = guess_output_format(obj, req)
        except ValueError:
            return Outcome(labels=['bad-request'], rejected=True, nontrivial=False)
        if got not in ('latex', 'opb', 'dimacs'):
            raise Violation("guess_output_format({!r}, {!r}) = {!r} is not a format".format(name, req, got))
        return Outcome(labels=['bad-request-accepted'], nontrivial=False)
    got = guess_output_format(obj, req)
    if req is not None:
        want = req
    else:
        ext = os.path.splitext(name)[1] if name is not None else ''
        want = {'.tex': 'latex', '.opb': 'opb'}.get(ext, 'dimacs')
    if got != want:
        raise Violation("guess_output_format({} {!r}, {!r}) = {!r}, expected {!r}".format(how, name, req, got, want))
    labels = [how, 'request' if req else ('by-extension' if want != 'dimacs' else 'default-dimacs')]
    return Outcome(labels=labels, nontrivial=req is None or os.path.splitext(name or '')[1] in ('.opb', '.tex'))


def enum_guess(tier):
    for d in ['', 'd.tex/', 'd.opb/', '/tmp/x/', './']:
        for stem in _NAMES:
            for ext in _EXTS:
                for req in [None, 'latex', 'opb', 'dimacs', 'tex', 'pdf', '']:
                    for how in ('str', 'named-object', 'nameless-object'):
                        yield {'name': d + stem + ext, 'request': req, 'how': how}


# ---------------------------------------------------------------------------
# file objects whose name is not a string (tempfile.TemporaryFile, os.fdopen)

def run_anonymous(case):
    F = build_hand(case)
    req = case['request']
    kind = case['kind']
    kwargs = {'export_header': case.get('eh', True), 'export_varnames': case.get('ev', False)}
    if req is not None:
        kwargs['fileformat'] = req
    if kind == 'temporaryfile':
        f = tempfile.TemporaryFile('w+', encoding='utf-8', newline='')
    elif kind == 'fdopen':
        os.makedirs(_TMPROOT, exist_ok=True)
        fd, path = tempfile.mkstemp(dir=_TMPROOT)
        os.unlink(path)
        f = os.fdopen(fd, 'w+', encoding='utf-8', newline='')
    else:
        f = io.StringIO()
    labels = [kind, 'request' if req else 'no-request', 'name-is-' + type(getattr(f, 'name', None)).__name__]
    try:
        try:
            F.to_file(f, **kwargs)
        except TypeError as e:
            raise Violation("to_file(<{} file object, name={!r}>, fileformat={!r}) raises TypeError: {}; a file object "
                            "without a usable name must get the default format".format(kind, getattr(f, 'name', None), req, e),
                            signature='to_file-object-with-non-string-name')
        f.seek(0)
        text = f.read()
    finally:
        f.close()
    fmt = expected_format(F, None, req)
    check_format(fmt, text, F, "to_file(<{}>, fileformat={!r})".format(kind, req), kwargs['export_header'], kwargs['export_varnames'])
    nontrivial = shape_labels(F, labels)
    return Outcome(labels=labels, nontrivial=nontrivial and req is None)


_ANON_FORMULAS = [
    {'cls': 'CNF', 'groups': [['block', [2, 2], 'p_{{{},{}}}']], 'rows': [[1, -2], [-3, 4], [], [2, -4, 1]]},
    {'cls': 'CNF', 'groups': [], 'rows': []},
    {'cls': 'OPB', 'groups': [['single', 'a=b'], ['block', [2], 'x_{{{}}}']],
     'rows': [['con', [[2, 1], [3, -2]], '==', 3], ['clause', []], ['con', [[12, -3]], '>=', 2], ['con', [[1, 1], [5, -3]], '<', 2]]},
    {'cls': 'OPB', 'groups': [], 'rows': []},
]


def enum_anonymous(tier):
    for f in _ANON_FORMULAS:
        for kind in ('temporaryfile', 'fdopen', 'stringio'):
            reqs = [None, 'opb', 'latex'] + (['dimacs'] if f['cls'] == 'CNF' else [])
            for req in reqs:
                for eh, ev in ((True, False), (False, True)):
                    c = dict(f)
                    c.update({'kind': kind, 'request': req, 'eh': eh, 'ev': ev})
                    yield c


# ---------------------------------------------------------------------------
# "everything else in the file is a comment": hostile header fields and variable names

_BREAKS = ['\n', '\r\n', '\n\n', '\r', '\x0b', '\x0c', '\x1c', '\x85', ' ']
_PAYLOADS = ['+1 x1 >= 1', 'p cnf 1 1', '* #variable= 9 #constraint= 9', '1 0', 'x', '', ' ', '>= 0 ;', '+2 ~x2 = 2', '*']


def run_shield(case):
    if 'long' in case:
        return run_long(case)
    F = build_hand(case)
    labels = []
    texts = [str(k) + str(v) for k, v in case.get('header', [])] + [str(l) for l in F.all_variable_labels()] + \
            [str(case.get('description') or '')]
    if any('\n' in t for t in texts):
        labels.append('line-feed-in-comment-text')
    if any(re.search('[\r\x0b\x0c\x1c\x85 ]', t) for t in texts):
        labels.append('other-line-separator')
    if any('\n' in str(k) + str(v) for k, v in case.get('header', [])) or '\n' in str(case.get('description') or ''):
        labels.append('line-feed-in-header')
    if any('\n' in str(l) for l in F.all_variable_labels()):
        labels.append('line-feed-in-variable-name')
    nontrivial = shape_labels(F, labels)
    eh, ev = case.get('eh', True), case.get('ev', True)
    buf = io.StringIO()
    F.to_file(buf, fileformat='opb', export_header=eh, export_varnames=ev)
    text = buf.getvalue()
    try:
        # the content of multi-line fields is not looked for (how a line break inside a
        # comment is to be rendered is the tree's choice) - only that it stays a comment
        check_opb(text, F, "to_file(fileformat='opb', export_header={}, export_varnames={})".format(eh, ev),
                  export_header=False, export_varnames=False, header_content=False)
    except Violation as v:
        if v.signature == 'opb-non-comment-line':
            raise Violation("{} -- header {!r} / names {!r}".format(v, case.get('header'), list(F.all_variable_labels())[:4]),
                            signature='opb-line-break-in-comment-text')
        raise
    # the LaTeX rows only depend on the names up to white space
    check_latex(F.to_latex(), F, 'to_latex()', document=False)
    if eh:
        labels.append('header')
    if ev:
        labels.append('varnames')
    return Outcome(labels=labels, nontrivial=('line-feed-in-comment-text' in labels) and (eh or ev))


@st.composite
def _hostile_text(draw):
    parts = draw(st.lists(st.one_of(st.sampled_from(_PAYLOADS), st.text(alphabet=_SAFE, max_size=5)), min_size=1, max_size=3))
    seps = [draw(st.sampled_from(_BREAKS + ['\n', '\n', ' '])) for _ in parts]
    s = ''
    for p, b in zip(parts, seps):
        s += p + b
    if draw(st.booleans()):
        s = s.rstrip('\n')
    return s


@st.composite
def _hostile_label(draw):
    base = draw(st.sampled_from(['x', 'y_{1}', 'p', 'E_{1,2}', 'z^2']))
    tail = draw(st.sampled_from(['x', 'y', '1', '+1 x1 >= 1', '>= 0', '* c', '']))
    br = draw(st.sampled_from(_BREAKS + ['\n', '\n']))
    return base + br + tail


@st.composite
def strat_shield(draw):
    cls = draw(st.sampled_from(['CNF', 'OPB']))
    groups = draw(st.lists(st.one_of(
        st.tuples(st.just('single'), st.one_of(_hostile_label(), _single_label())).map(list),
        st.tuples(st.just('block'), st.lists(st.integers(1, 2), min_size=1, max_size=1),
                  st.sampled_from(['x_{{{}}}', 'a\nb_{}', 'v({})\r\n', '\nw{}'])).map(list),
        st.tuples(st.just('anon'), st.integers(1, 2)).map(list)), max_size=3))
    maxvar = 4
    n = draw(st.integers(0, 4))
    if cls == 'CNF':
        rows = draw(st.lists(st.lists(_lit(maxvar), max_size=3), min_size=n, max_size=n))
    else:
        term = st.tuples(st.integers(1, 12), _lit(maxvar)).map(list)
        rows = draw(st.lists(st.tuples(st.just('con'), st.lists(term, max_size=3), st.sampled_from(['>=', '==']),
                                       st.integers(-2, 9)).map(list), min_size=n, max_size=n))
    case = {'cls': cls, 'groups': groups, 'rows': rows, 'eh': draw(st.sampled_from([True, True, False])),
            'ev': draw(st.sampled_from([True, True, False]))}
    hdr = draw(st.lists(st.tuples(st.one_of(st.text(alphabet=_SAFE, min_size=1, max_size=6), _hostile_text()),
                                  st.one_of(_hostile_text(), st.text(alphabet=_HEADERCHARS, max_size=8))).map(list), max_size=2))
    if hdr:
        case['header'] = hdr
    if draw(st.integers(0, 3)) == 0:
        case['description'] = draw(st.sampled_from(['two\nlines', 'a formula\n', 'cr\rlf', 'plain']))
    return case



# ---------------------------------------------------------------------------
# LONG AND MULTI-LINE TEXT in everything a rendering quotes (cases of comment_shield with a 'long' entry)
#
# 'long': [[position, length, shape, salt], ...] with position in
#   hv (header value)  hk (header key)  desc (description)  label (name of a single variable)
#   block (label format of a block of variables)  extra (extra_text of the LaTeX document)
# The text itself is rebuilt from the entry by _long_text (the case stays small).

_WRAP_WIDTHS = (72, 80, 132, 255, 1024, 4096)
_LONG_LENGTHS = [100, 131, 132, 133, 200, 255, 256, 257, 500, 1023, 1024, 1025, 2000, 5000]
_LONG_SHAPES = ['words', 'oneword', 'blank-at-wrap', 'lines', 'crlf-lines', 'blank-lines', 'tabs', 'marks-c', 'marks-star',
                'marks-percent', 'inline-marks', 'payload']
_LONG_POSITIONS = ['hv', 'hk', 'desc', 'label', 'block', 'extra']
_LONG_SEPS = {
    'words': [' '], 'oneword': [''], 'blank-at-wrap': [''], 'tabs': ['\t', '\t', ' \t'],
    'lines': [' ', ' ', '\n'], 'crlf-lines': [' ', '\r\n', ' ', ' '], 'blank-lines': [' ', ' ', ' ', '\n\n'],
    'marks-c': [' ', '\nc ', ' ', ' c '], 'marks-star': [' ', '\n* ', ' * ', ' ', '\n*'],
    'marks-percent': [' ', '\n% ', ' % ', ' '], 'inline-marks': [' c ', ' * ', ' % ', ' ', ' p cnf 1 1 '],
    'payload': [' ', '\n+1 x1 >= 1\n', ' +1 x1 >= 1 ', ' ', '\n* #variable= 9 #constraint= 9\n', ' ', '\n+2 ~x2 = 2 ;\n', ' >= 0 ; '],
}


def _long_text(position, length, shape, salt):
    """A text of exactly `length` characters: words that carry the position's tag and a running number (so that no
    text is part of another one), separated as the shape says."""
    tag = {'hv': 'v', 'hk': 'k', 'desc': 'd', 'label': 'n', 'block': 'b', 'extra': 'e'}[position]
    seps = _LONG_SEPS[shape]
    if position in ('label', 'block', 'desc'):
        seps = [sp.replace('%', '*') for sp in seps]       # (a '%' in a name or in the title would comment out LaTeX code)
    if position == 'hk':
        seps = [sp.replace(':', '') for sp in seps]
    out, tot, i, x = [], 0, 0, salt * 2654435761 % (1 << 31) or 1
    while tot < length:
        x = (x * 1103515245 + 12345) & 0x7FFFFFFF
        w = tag + str(i) + 'qzjxkvwy'[x % 8] * ((x >> 8) % 9)
        sp = seps[(i + salt) % len(seps)]
        out.append(w + sp)
        tot += len(w) + len(sp)
        i += 1
    text = ''.join(out)[:length]
    if shape == 'blank-at-wrap':
        t = list(text)
        for wdt in _WRAP_WIDTHS:
            for d in (-10, -5, -2, -1, 0, 1):
                if 0 < wdt + d < len(t) - 1:
                    t[wdt + d] = ' '
        text = ''.join(t)
    if text[-1:].isspace():
        text = text[:-1] + 'z'
    if text[:1].isspace():
        text = 'z' + text[1:]
    return text


def _squeeze(x):
    return re.sub(r'\s+', '', str(x))


def _build_long(case):
    """-> (F, {position: [texts]})"""
    case = dict(case)
    groups = [list(g) for g in case.get('groups', [])]
    header = [list(h) for h in case.get('header', [])]
    texts = {p: [] for p in _LONG_POSITIONS}
    for position, length, shape, salt in case['long']:
        t = _long_text(position, length, shape, salt)
        texts[position].append(t)
        if position == 'hv':
            header.append(['long field {}'.format(len(header)), t])
        elif position == 'hk':
            header.append([t, 'value of a long key'])
        elif position == 'desc':
            case['description'] = t
        elif position == 'label':
            groups.insert(salt % (len(groups) + 1), ['single', t])
        elif position == 'block':
            groups.insert(salt % (len(groups) + 1), ['block', [2], t + '_{{{}}}'])
        elif position == 'extra':
            case['extra_text'] = t + '\n'
    case['groups'], case['header'] = groups, header
    if case.get('tool'):
        F = run_tool(case['tool'], case['args'], 'formula', 0)
        for k, v in header:
            F.header[k] = v
        F.header[_SENTINEL[0]] = _SENTINEL[1]
    else:
        F = build_hand(case)
    return F, texts, case.get('extra_text', '')


def _comment_stream(comments):
    """what the comment lines say, as one stream: the leading '*' of every line dropped, white space dropped"""
    return _squeeze(''.join(c[1:] for c in comments))


def run_long(case):
    F, texts, extra = _build_long(case)
    eh, ev = bool(case.get('eh', True)), bool(case.get('ev', True))
    labels = ['long-text']
    nontrivial = shape_labels(F, labels)
    longest = 0
    for position, length, shape, _salt in case['long']:
        labels += ['long-' + position, 'long-shape-' + shape]
        longest = max(longest, length)
        for w in (80, 132, 255, 1024):
            if length > w:
                labels.append('long>{}'.format(w))
    if case.get('tool'):
        labels.append('long-' + case['tool'])
    # ---- OPB without comments
    check_opb(F.to_opb(), F, 'to_opb()')
    # ---- OPB with header / names
    buf = io.StringIO()
    F.to_file(buf, fileformat='opb', export_header=eh, export_varnames=ev)
    text = buf.getvalue()
    what = "to_file(fileformat='opb', export_header={}, export_varnames={}) with long text {}".format(
        eh, ev, [e[:3] for e in case['long']])
    try:
        res = check_opb(text, F, what, export_header=False, export_varnames=False, header_content=False)
    except Violation as v:
        if v.signature == 'opb-non-comment-line':
            raise Violation("{} -- text leaks out of the comments".format(v), signature='opb-long-text-leaks')
        raise
    stream = _comment_stream(res.comments)
    if not eh and not ev and res.comments:
        raise Violation("{}: neither header nor variable names are exported, yet there is the comment {!r}".format(
            what, res.comments[0][:80]))
    for k, v in F.header.items():
        if ' object at 0x' in str(v):
            continue
        sk, sv = _squeeze(asc(_squeeze(k))), _squeeze(asc(_squeeze(v)))
        if eh and not (sk in stream and sv in stream):
            raise Violation("{}: export_header=True but the header field {!r}: {!r} is not carried by the comment lines "
                            "(white space and folding aside)".format(what, str(k)[:60], str(v)[:60]))
        if not eh and len(sv) >= 60 and sv in stream and not any(sv in _squeeze(l) for l in F.all_variable_labels()):
            raise Violation("{}: export_header=False but the header value {!r}... is in the comments".format(what, str(v)[:60]))
    if ev:
        for vid, lab in enumerate(F.all_variable_labels(), start=1):
            # (the names of these cases never begin with a digit)
            if not re.search(r'x{}(?![0-9]).{{0,8}}?{}'.format(vid, re.escape(_squeeze(lab))), stream):
                raise Violation("{}: export_varnames=True but the comment lines do not map x{} to its name {!r}... "
                                "(white space and folding aside)".format(what, vid, str(lab)[:60]))
    # ---- LaTeX: the snippet and the document (rows as everywhere else; the header is quoted verbatim)
    check_latex(F.to_latex(), F, 'to_latex() with long names', document=False)
    buf = io.StringIO()
    F.to_file(buf, fileformat='latex', export_header=eh, export_varnames=ev, extra_text=extra)
    tex = buf.getvalue()
    what = "to_file(fileformat='latex', export_header={}) with long text {}".format(eh, [e[:3] for e in case['long']])
    check_latex(tex, F, what, document=True, export_header=None)
    stex = _squeeze(tex)
    for k, v in F.header.items():
        if k == 'description' or ' object at 0x' in str(v):
            continue
        sv = _squeeze(asc(v))
        if eh and sv not in stex:
            raise Violation("{}: export_header=True but the header field {!r}: {!r}... is not in the document".format(
                what, str(k)[:60], str(v)[:60]))
        if not eh and len(sv) >= 60 and sv in stex and not any(sv in _squeeze(l) for l in F.all_variable_labels()):
            raise Violation("{}: export_header=False but the header value {!r}... is in the document".format(what, str(v)[:60]))
    if extra and _squeeze(extra) not in stex:
        raise Violation("{}: the extra text is not in the document".format(what))
    labels.append('header' if eh else 'no-header')
    labels.append('varnames' if ev else 'no-varnames')
    exported = any(p in ('hv', 'hk', 'desc') for p, *_ in case['long']) and eh or \
        any(p in ('label', 'block') for p, *_ in case['long']) and ev
    if exported and longest > 132:
        labels.append('long-exported>132')
    return Outcome(labels=labels, nontrivial=bool(exported) and longest > 80)


_LONG_FORMULAS = [
    {'cls': 'CNF', 'groups': [['block', [2], 'x_{{{}}}'], ['anon', 1]], 'rows': [[1, -2], [-3, 4], [], [2, -4, 1]]},
    {'cls': 'OPB', 'groups': [['single', 'a=b'], ['block', [2], 'y_{{{}}}'], ['anon', 1]],
     'rows': [['con', [[2, 1], [3, -2]], '==', 3], ['clause', [-1, 4]], ['con', [[12, -3]], '>=', 2], ['clause', []]]},
]
_LONG_TOOLS = [('cnfgen', 'php 3 2'.split() + ['-T', 'none'] * 45), ('cnfgen', 'op 3'.split() + ['-T', 'none'] * 25),
               ('pbgen', ['-v'] * 70 + 'php 3 2'.split()), ('pbgen', ['--verbose'] * 30 + 'subsetcard complete 3 3 --equal'.split())]


def enum_long(tier):
    """every length x shape x position once, the formula class and the export switches in rotation (the text is
    exported in three cases out of four); pairs of long texts; long command lines"""
    i = 0
    for length in _LONG_LENGTHS:
        for shape in _LONG_SHAPES:
            for position in _LONG_POSITIONS:
                combos = [(None, None)] if tier == 'quick' else [(a, b) for a in (True, False) for b in (True, False)]
                for eh, ev in combos:
                    i += 1
                    if eh is None:
                        on = i % 4 != 0
                        eh = on if position in ('hv', 'hk', 'desc', 'extra') else bool(i % 2)
                        ev = on if position in ('label', 'block') else bool((i // 2) % 2)
                    f = dict(_LONG_FORMULAS[i % 2])
                    f.update({'long': [[position, length, shape, i % 7 + 1]], 'eh': eh, 'ev': ev})
                    yield f
    for length in (150, 1100):
        for a in _LONG_POSITIONS:
            for b in _LONG_POSITIONS:
                i += 1
                f = dict(_LONG_FORMULAS[i % 2])
                f.update({'long': [[a, length, _LONG_SHAPES[i % len(_LONG_SHAPES)], 1], [b, length + 7, _LONG_SHAPES[(i + 5) % len(_LONG_SHAPES)], 2]],
                          'eh': True, 'ev': True})
                yield f
    for tool, args in _LONG_TOOLS:
        for eh, ev in ((True, False), (True, True), (False, True)):
            yield {'tool': tool, 'args': args, 'long': [], 'eh': eh, 'ev': ev}
            yield {'tool': tool, 'args': args, 'long': [['hv', 300, 'lines', 3]], 'eh': eh, 'ev': ev}


_long_entry = st.tuples(st.sampled_from(_LONG_POSITIONS),
                        st.one_of(st.sampled_from(_LONG_LENGTHS), st.integers(100, 1100), st.integers(100, 5000)),
                        st.sampled_from(_LONG_SHAPES), st.integers(1, 50)).map(list)
_long_entries = st.lists(_long_entry, min_size=1, max_size=3)
_long_switch = st.sampled_from([True, True, True, False])
_long_formula = st.sampled_from(_LONG_FORMULAS)


@st.composite
def strat_long(draw):
    f = dict(draw(_long_formula))
    f.update({'long': draw(_long_entries), 'eh': draw(_long_switch), 'ev': draw(_long_switch)})
    return f


_shield_cases = strat_shield()
_long_cases = strat_long()
_shield_pick = st.sampled_from([0, 0, 1])


@st.composite
def strat_shield_all(draw):
    return draw(_long_cases if draw(_shield_pick) else _shield_cases)

# ---------------------------------------------------------------------------

SUBCHECKS = [
    SubCheck('hand', run_hand, strategy=strat_hand, quick=1600, thorough=96000,
             rule="CNF and OPB objects built by hand: 0-4 variable groups (named singletons, 1- and 2-index blocks with the label shapes of the families, blocks without variables, single variables created without a name, anonymous gaps; in half of the cases a rendering with names is the first thing ever asked of the object and is judged against what the object says afterwards), literals up to 2 past the declared range, 0..80 rows of width 0..4 (OPB: coefficients -12..12 \\ {0}, five input relations, degrees -5..30, clauses), extra header fields, description, export_header x export_varnames, one named target (path / file object / StringIO / stdout, 13 extensions, sub-directories called d.tex and d.opb, request None/opb/latex/dimacs); every case is rendered by to_opb(), to_latex(), to_file(opb), to_file(latex) and the named target, each read back by the independent readers and compared row by row with list(F) and all_variable_labels(); non-trivial: >=2 rows, >=1 row with a negative literal, and for the OPB class a coefficient >1 or an equality",
             required_labels=['empty-clause-opens-a-page', 'unnamed-single-variable', 'first-observation:to_latex', 'first-observation:latex-file', 'first-observation:opb-names', 'group-without-variables', 'named-group-after-empty-group', 'CNF', 'OPB', 'equality', 'coefficient>1', 'empty-constraint', 'empty-formula', 'page-split',
                              'two-page-splits', 'full-last-page', 'varnames', 'by-extension', 'request-beats-extension',
                              'default-dimacs', 'equality-with-negative-literal', 'negative-degree', 'no-header', 'header',
                              'name-with-sub/superscript', 'name-with-punctuation', 'target-path', 'target-fileobj',
                              'target-stdout', 'target-stringio', 'selected-opb', 'selected-latex', 'selected-dimacs']),
    SubCheck('catalogue', run_catalogue, enumerate_cases=enum_catalogue, quick=0, thorough=0,
             rule="82 command lines of real families (every family with deterministic arguments, 16 with -T transformations) built by cnfgen (CNF class) and pbgen (OPB class) x export_header x export_varnames, each with one of 11 named targets in rotation; same renderings and oracle as 'hand'; enumerated completely in both tiers; non-trivial as in 'hand'",
             required_labels=['cnfgen', 'pbgen', 'CNF', 'OPB', 'transformed', 'page-split', 'two-page-splits', 'equality',
                              'empty-formula', 'empty-constraint', 'varnames', 'by-extension', 'name-with-punctuation',
                              'name-with-sub/superscript', 'request-beats-extension']),
    SubCheck('cli', run_cli, strategy=strat_cli, enumerate_cases=enum_cli, enum_tiers=('thorough',),
             quick=240, thorough=0,
             rule="cnfgen / pbgen run in-process on 32 family command lines x (-of opb | -of latex | -l | -of dimacs | nothing) x -q x --varnames x (-o f.opb | f.tex | f.cnf | f | stdout) x mode output/string; the text is compared with the formula the same command line builds with mode='formula'; quick: 400 sampled, thorough: the complete product; non-trivial as in 'hand'",
             required_labels=['cnfgen', 'pbgen', 'selected-opb', 'selected-latex', 'selected-dimacs', 'by-extension',
                              'request-beats-extension', 'varnames', 'quiet', 'verbose', 'to-file', 'to-stdout',
                              'mode-string', 'mode-output', 'page-split']),
    SubCheck('guess', run_guess, enumerate_cases=enum_guess, quick=0, thorough=0, max_shards=2,
             rule="guess_output_format on 5 directories x 7 stems x 13 extensions x 7 requests x (string, object with .name, object without name), complete; explicit request wins, else .tex/.opb, else dimacs; an unknown request raises ValueError; non-trivial: no request, or a request together with a .tex/.opb name",
             required_labels=['str', 'named-object', 'nameless-object', 'request', 'by-extension', 'default-dimacs', 'bad-request']),
    SubCheck('anonymous_file', run_anonymous, enumerate_cases=enum_anonymous, quick=0, thorough=0, max_shards=1,
             rule="to_file on file objects whose name is not a string (tempfile.TemporaryFile, os.fdopen) or that have none (StringIO), 4 formulas x every request x header/varnames, complete; the default format must be used when nothing is requested; non-trivial: no request",
             required_labels=['temporaryfile', 'fdopen', 'stringio', 'no-request', 'request', 'name-is-int']),
    SubCheck('comment_shield', run_shield, strategy=strat_shield_all, enumerate_cases=enum_long, quick=600, thorough=40000,
             rule="OPB output with header keys/values, description and variable names containing line breaks (LF, CRLF, CR, VT, FF, FS, NEL, LS) and payloads that look like constraints or spec lines; oracle: every line that is not one of the formula's constraints starts with '*', counts and constraints unchanged; LaTeX rows still carry the names; non-trivial: a line feed in a text that is exported. "
                  "LONG TEXT (1/3 of the generated cases and an enumerated grid, cases with 'long'): 1..3 texts of 100..5000 characters (lengths 100, 131, 132, 133, 200, 255, 256, 257, 500, 1023, 1024, 1025, 2000, 5000 and any in between) put into a header value, a header key, the description, the name of a variable, the label of a block of variables, the extra_text, of a CNF or an OPB formula with 4 rows; shapes: words of 2..12 characters separated by single blanks / one word without any blank / one word with blanks at and around the columns 72, 80, 132, 255, 1024, 4096 / tabs / lines ended by LF, CRLF, blank lines / lines that begin with the comment mark of another format ('c ', '* ', '*', '% ') / the marks and 'p cnf 1 1' inline / lines that are a constraint or a size declaration ('+1 x1 >= 1', '+2 ~x2 = 2 ;', '* #variable= 9 #constraint= 9'); export_header x export_varnames (each on in 3 cases of 4); plus cnfgen with 25 and 45 '-T none' and pbgen with 30 and 70 verbosity switches (command lines and headers of 200..600 characters). Rendered by to_opb(), to_file(opb), to_latex(), to_file(latex, extra_text). Enumerated: 14 lengths x 12 shapes x 6 positions (thorough: x 4 export settings), 72 pairs of positions, 24 tool cases. Oracle: independent readers as above - every OPB line is a comment starting with '*' or a well formed constraint, the constraints are the formula and the counts are true, no comment when nothing is exported; the comment lines, with their leading '*' and all white space dropped, carry every exported header key/value (non-ASCII replaced) and map every x<i> to its name - so the text may be folded over several comment lines but neither cut nor leak into other lines; an unexported long header value is not in the comments; LaTeX snippet and document: rows, names, structure, page split as in 'hand', the exported header values and the extra text are in the document (white space aside). Non-trivial: a text longer than 80 characters that is exported",
             required_labels=['line-feed-in-header', 'line-feed-in-variable-name', 'other-line-separator', 'header', 'varnames',
                              'long-text', 'long-exported>132', 'long>80', 'long>132', 'long>255', 'long>1024', 'no-header',
                              'no-varnames', 'long-cnfgen', 'long-pbgen', 'CNF', 'OPB'] +
                             ['long-' + p for p in _LONG_POSITIONS] + ['long-shape-' + sh for sh in _LONG_SHAPES]),
]


# ---------------------------------------------------------------------------
# large formulas (size thresholds of buffers / block writers); added after a seeded DIMACS writer change
# that only misbehaved above 4096 clauses

def run_large(case):
    from cnfgen import CNF
    from cnfgen.formula.opb import OPB
    from checks.c18 import opb_problem
    m, n, cls = case['m'], case['n'], case['cls']
    F = CNF() if cls == 'CNF' else OPB()
    F.update_variable_number(n)
    rows = []
    x = case['salt']
    for i in range(m):
        lits = []
        for j in range(3 if i % 5 else i % 2):
            x = (x * 1103515245 + 12345) & 0x7FFFFFFF
            v = x % n + 1
            lits.append(v if (x >> 16) & 1 else -v)
        if cls == 'OPB' and i % 3 == 0:
            terms = [(1 + (abs(l) % 4), l) for l in lits]
            F.add_constraint(terms + ['>=' if i % 2 else '==', 1 + i % 3])
        else:
            F.add_clause(lits)
    want = [list(r) for r in F]
    buf = io.StringIO()
    F.to_file(buf, fileformat='opb', export_header=case['header'])
    text = buf.getvalue()
    what = "OPB rendering of a {} with {} variables and {} rows".format(cls, n, m)
    prob = opb_problem(text)
    if prob is not None:
        raise Violation("{}: {}".format(what, prob))
    res = read_opb(text)
    if res.errors:
        raise Violation("{}: {}".format(what, res.errors[:2]))
    if res.declared_variables != n or res.declared_constraints != m or len(res.constraints) != m:
        raise Violation("{}: header says {} variables / {} constraints, {} constraints found".format(what, res.declared_variables, res.declared_constraints, len(res.constraints)))
    for i, ((gt, grel, gdeg), row) in enumerate(zip(res.constraints, want)):
        if cls == 'CNF':
            et, erel, edeg = [(1, l) for l in row], '>=', 1
        else:
            et, erel, edeg = list(row[:-2]), row[-2], row[-1]
        if Counter((c, v if not neg else -v) for c, v, neg in gt) != Counter(et) or grel != ('>=' if erel == '>=' else '=') or gdeg != edeg:
            raise Violation("{}: row {} reads {} {} {} but memory holds {} {} {}".format(what, i, gt, grel, gdeg, et, erel, edeg))
    # LaTeX: one row per constraint across all pages
    tex = io.StringIO()
    F.to_file(tex, fileformat='latex', export_header=case['header'])
    doc = read_latex(tex.getvalue())
    nrows = sum(len(b) for b in doc.blocks)
    if nrows is not None and nrows != m and not (m == 0 and nrows == 1):
        raise Violation("LaTeX document of a {} with {} rows shows {} rows".format(cls, m, nrows))
    return Outcome(labels=[cls, 'rows>=4096' if m >= 4096 else 'rows<4096'], nontrivial=True)


def enum_large(tier):
    ths = [4095, 4096, 4097, 8193] if tier == 'quick' else [4095, 4096, 4097, 8191, 8192, 8193, 16385, 32769]
    i = 0
    for m in ths:
        for cls in ('CNF', 'OPB'):
            i += 1
            yield {'m': m, 'n': 40 if i % 2 else 3000, 'cls': cls, 'salt': i, 'header': bool(i % 2)}


SUBCHECKS.append(
    SubCheck('large', run_large, enumerate_cases=enum_large,
             rule="CNF and OPB formulas with 4095..8193 (thorough: ..32769) rows rendered to OPB (strict reader: counts, every row) and LaTeX (row count); non-trivial: all",
             required_labels=['rows>=4096']))


# ---------------------------------------------------------------------------
# WHERE the rendering goes (destination) and in WHICH ENVIRONMENT it is written
#
# destination: the text a destination receives is the text a StringIO receives (which is read back and
# compared with the formula as everywhere else), whatever kind of destination the caller names;
# environment: a file written *by name* is a complete UTF-8 file denoting the formula, whatever the
# default text encoding of the process is (child process in the plain C locale, UTF-8 mode off).

_BLANKDIR = 'my dir'
_PRE = 'PREVIOUS line of the caller\n'
_POST = 'NEXT line of the caller\n'
_JUNK = 'junk left in the file by a previous run\n' * 400        # longer than the small renderings


class _Minimal:
    """nothing but write(), which returns None"""
    __slots__ = ('chunks',)

    def __init__(self):
        self.chunks = []

    def write(self, s):
        self.chunks.append(s)


class _Chunks(list):
    """the usual chunk collector; like every list it is FALSY while empty"""
    write = list.append


class _NamedChunks(_Chunks):
    """a chunk collector that also carries the name of what it stands for"""

    def __init__(self, name):
        list.__init__(self)
        self.name = name


class _LenBuffer:
    """a buffer with a length (0 while empty, hence falsy); write() returns the count"""

    def __init__(self):
        self.chunks = []

    def __len__(self):
        return sum(len(c) for c in self.chunks)

    def write(self, s):
        self.chunks.append(s)
        return len(s)


class _BoolBuffer:
    """__bool__ answers 'is there anything waiting to be flushed': never; write() returns the count"""

    def __init__(self):
        self.chunks = []

    def __bool__(self):
        return False

    def write(self, s):
        self.chunks.append(s)
        return len(s)


class _Counting:
    """an ordinary (truthy) object whose write() returns the count"""

    def __init__(self):
        self.chunks = []

    def write(self, s):
        self.chunks.append(s)
        return len(s)


_USER_CLASSES = {'minimal': _Minimal, 'chunks': _Chunks, 'lenbuffer': _LenBuffer, 'boolbuffer': _BoolBuffer,
                 'counting': _Counting}
_NAME_KINDS = ('name', 'pathlib')
_HANDLE_KINDS = ('handle', 'handle-newline-empty', 'handle-line-buffered', 'handle-crlf', 'handle-w+', 'handle-append',
                 'codecs')
_OBJECT_KINDS = _HANDLE_KINDS + ('wrapper-bytesio', 'spooled', 'namedtemp', 'stringio', 'named-chunks') + tuple(_USER_CLASSES)
_NONE_KINDS = ('none', 'none-falsy-stdout')
_DEST_KINDS = _NONE_KINDS + _NAME_KINDS + _OBJECT_KINDS
_FALSY_KINDS = ('chunks', 'named-chunks', 'lenbuffer', 'boolbuffer')


def _joined(chunks, what):
    for c in chunks:
        if not isinstance(c, str):
            raise Violation("{}: write() was called with a {} instead of a str".format(what, type(c).__name__))
    return ''.join(chunks)


class _Destination:
    """One destination of a rendering: ``obj`` is what the writer is given, ``before`` what the destination holds
    before the call, ``received()`` what it holds afterwards (with the translation of line ends undone)."""

    def __init__(self, spec, root):
        kind = spec['kind']
        self.kind, self.root, self.path, self.handle, self.before, self.crlf = kind, root, None, None, '', False
        sub = _BLANKDIR if spec.get('blank') else ''
        fname = spec.get('name') or 'f'
        if kind in _NAME_KINDS or kind in _HANDLE_KINDS:
            os.makedirs(os.path.join(root, sub), exist_ok=True)
            self.path = os.path.join(root, sub, fname)
            shown = os.path.join(sub, fname) if spec.get('rel') else self.path
        pre = bool(spec.get('pre'))
        if kind in _NONE_KINDS:
            self.obj = None
        elif kind in _NAME_KINDS:
            if pre:
                with open(self.path, 'w', encoding='utf-8') as f:
                    f.write(_JUNK)
            self.obj = shown if kind == 'name' else pathlib.Path(shown)
        elif kind in _HANDLE_KINDS:
            if kind == 'handle-append':
                with open(self.path, 'w', encoding='utf-8', newline='') as f:
                    f.write('OLD content\n')
                self.before = 'OLD content\n'
            if kind == 'codecs':
                self.handle = codecs.open(shown, 'w', 'utf-8')
            else:
                kw = {'handle': {}, 'handle-newline-empty': {'newline': ''}, 'handle-line-buffered': {'buffering': 1},
                      'handle-crlf': {'newline': '\r\n'}, 'handle-w+': {'mode': 'w+'}, 'handle-append': {'mode': 'a'}}[kind]
                kw = dict(kw)
                self.handle = open(shown, kw.pop('mode', 'w'), encoding='utf-8', **kw)
            self.crlf = kind == 'handle-crlf'
            self.obj = self.handle
        elif kind == 'wrapper-bytesio':
            self.raw = io.BytesIO()
            self.obj = io.TextIOWrapper(self.raw, encoding='utf-8', newline='')
        elif kind == 'spooled':
            # rolls over from memory to a real file after 64 characters
            self.obj = self.handle = tempfile.SpooledTemporaryFile(max_size=64, mode='w+', encoding='utf-8', newline='', dir=root)
        elif kind == 'namedtemp':
            self.obj = self.handle = tempfile.NamedTemporaryFile('w+', encoding='utf-8', newline='', dir=root,
                                                                 suffix=os.path.splitext(fname)[1])
        elif kind == 'stringio':
            self.obj = io.StringIO()
        elif kind == 'named-chunks':
            self.obj = _NamedChunks(fname)
        else:
            self.obj = _USER_CLASSES[kind]()
        if pre and kind in _OBJECT_KINDS:
            self.obj.write(_PRE)
            self.before += _PRE

    def guess_name(self):
        """the name the format is guessed from: the string itself, else a string-valued ``name`` attribute"""
        if isinstance(self.obj, str):
            return self.obj
        name = getattr(self.obj, 'name', None) if self.obj is not None else None
        return name if isinstance(name, str) else None

    def exists(self):
        return self.path is not None and os.path.exists(self.path)

    def file_text(self):
        with open(self.path, 'rb') as f:
            return f.read().decode('utf-8')

    def after_call(self, what):
        """the caller goes on using its object"""
        if self.kind not in _OBJECT_KINDS:
            return ''
        if getattr(self.obj, 'closed', False):
            raise Violation("{}: the writer closed the file object of the caller".format(what))
        self.obj.write(_POST)
        return _POST

    def received(self, what):
        kind, o = self.kind, self.obj
        if kind in _NAME_KINDS:
            return self.file_text()
        if kind in _HANDLE_KINDS:
            self.handle.close()
            t = self.file_text()
            return t.replace('\r\n', '\n') if self.crlf else t
        if kind == 'wrapper-bytesio':
            o.flush()
            return self.raw.getvalue().decode('utf-8')
        if kind in ('spooled', 'namedtemp'):
            o.seek(0)
            return o.read()
        if kind == 'stringio':
            return o.getvalue()
        if kind in ('chunks', 'named-chunks'):
            return _joined(list(o), what)
        return _joined(o.chunks, what)

    def cleanup(self):
        for h in (self.handle, self.obj if self.kind == 'wrapper-bytesio' else None):
            try:
                if h is not None:
                    h.close()
            except Exception:     # noqa
                pass


class _StdoutAs:
    """sys.stdout replaced for the duration of a call; ``falsy`` makes the replacement a chunk collector"""

    def __init__(self, falsy=False):
        self.repl = _Chunks() if falsy else io.StringIO()

    def __enter__(self):
        self.old = sys.stdout
        sys.stdout = self.repl
        return self

    def __exit__(self, *a):
        sys.stdout = self.old
        return False

    def text(self, what):
        return _joined(list(self.repl), what) if isinstance(self.repl, list) else self.repl.getvalue()


def _denote(fmt, text, F, what, eh, ev, extra='', header_content=True):
    if fmt == 'snippet':
        check_latex(text, F, what, document=False)
    elif fmt == 'latex':
        check_latex(text, F, what, document=True, export_header=eh if header_content and not extra else None)
    else:
        check_format(fmt, text, F, what, eh, ev, header_content=header_content)


def _write(F, via, obj, req, eh, ev, extra, omit=False, pass_none=False):
    """one call of an entry point of the writers with destination obj"""
    from cnfgen.utils.opb import to_opb_file
    from cnfgen.utils import latexoutput
    if via == 'to_file':
        kw = dict(export_header=eh, export_varnames=ev)
        if extra:
            kw['extra_text'] = extra
        if req is not None or pass_none:
            kw['fileformat'] = req
        if omit and obj is None:
            F.to_file(**kw)                   # fileorname has the default None
        else:
            F.to_file(obj, **kw)
    elif via == 'to_opb_file':
        if omit and obj is None:
            to_opb_file(F, export_header=eh, export_varnames=ev)
        else:
            to_opb_file(F, obj, export_header=eh, export_varnames=ev)
    elif via == 'to_latex_document':
        latexoutput.to_latex_document(F, obj, export_header=eh, extra_text=extra)
    elif via == 'print_latex':
        latexoutput._print_latex(F, obj)
    else:
        raise RuntimeError("unknown entry point {}".format(via))


def _norm_dest_case(case):
    """combinations that do not exist are mapped to the nearest one that does"""
    d = case['dest']
    if case['via'] == 'print_latex' and d['kind'] not in _OBJECT_KINDS:
        case['via'] = 'to_latex_document'        # the snippet writer only takes an object
    if case['via'] != 'to_file':
        case['request'] = None
    if case['cls'] == 'OPB' and case.get('request') == 'dimacs':
        case['request'] = 'opb'
    return case


def run_dest(case):
    from cnfgen.utils import latexoutput
    case = _norm_dest_case(dict(case, dest=dict(case['dest'])))
    F = build_hand(case)
    via, req, spec = case['via'], case.get('request'), case['dest']
    eh, ev, extra = bool(case.get('eh', True)), bool(case.get('ev', False)), case.get('extra_text', '')
    kind = spec['kind']
    labels = ['dest-' + kind, 'via-' + via]
    nontrivial = shape_labels(F, labels)
    if via == 'print_latex' and not hasattr(latexoutput, '_print_latex'):
        return Outcome(labels=labels + ['no-_print_latex'], nontrivial=False, rejected=True)
    root = tempfile.mkdtemp(prefix='verif_c12_dest_')
    cwd = os.getcwd()
    dest = None
    try:
        os.chdir(root)
        dest = _Destination(spec, root)
        # the format, from the request or from the name of the destination
        gname = dest.guess_name()
        if via == 'to_file':
            fmt = expected_format(F, gname, req)
        else:
            fmt = {'to_opb_file': 'opb', 'to_latex_document': 'latex', 'print_latex': 'snippet'}[via]
        what = "{}({} {!r}{}) [{}]".format(via, kind, spec.get('name') if gname else None,
                                          ', fileformat={!r}'.format(req) if via == 'to_file' else '', fmt)
        # reference: the same entry point writing into a StringIO (the snippet: the public to_latex())
        if via == 'print_latex':
            ref = F.to_latex()
        else:
            buf = io.StringIO()
            _write(F, via, buf, fmt if via == 'to_file' else None, eh, ev, extra)
            ref = buf.getvalue()
        _denote(fmt, ref, F, what + ' into a StringIO', eh, ev, extra, header_content=bool(case.get('header_content', True)))
        refused = None
        with _StdoutAs(falsy=(kind == 'none-falsy-stdout')) as out:
            try:
                _write(F, via, dest.obj, req, eh, ev, extra, omit=bool(case.get('omit')), pass_none=bool(case.get('pass_none')))
            except (AttributeError, TypeError) as e:
                if kind != 'pathlib':
                    raise
                refused = e
        on_stdout = out.text(what)
        if refused is not None:
            # the writers document "file object or string": a pathlib.Path may be refused, but then nothing is written
            if on_stdout:
                raise Violation("{}: the destination is refused ({}) but {} characters went to the standard output".format(
                    what, refused, len(on_stdout)))
            if dest.exists() != bool(spec.get('pre')) or (spec.get('pre') and dest.file_text() != _JUNK):
                raise Violation("{}: the destination is refused ({}) but the file was {}".format(
                    what, refused, 'overwritten' if spec.get('pre') else 'created'))
            return Outcome(labels=labels + ['pathlib-refused'], nontrivial=False, rejected=True)
        if kind in _NONE_KINDS:
            got, want = on_stdout, ref
        else:
            if on_stdout:
                raise Violation("{}: {} characters went to the standard output although a destination was given: {!r}".format(
                    what, len(on_stdout), on_stdout[:60]), signature='destination-leaks-to-stdout')
            post = dest.after_call(what)
            got, want = dest.received(what), dest.before + ref + post
        if got != want:
            i = next((k for k, (a, b) in enumerate(zip(got, want)) if a != b), min(len(got), len(want)))
            raise Violation("{}: the destination received {} characters, a StringIO receives {} for the same formula "
                            "(first difference at {}: {!r} vs {!r})".format(what, len(got) - len(want) + len(ref), len(ref), i,
                                                                           got[i:i + 40], want[i:i + 40]))
    finally:
        os.chdir(cwd)
        if dest is not None:
            dest.cleanup()
        shutil.rmtree(root, ignore_errors=True)
    labels.append('selected-' + fmt)
    if kind == 'pathlib':
        labels.append('pathlib-accepted')
    if kind in _NAME_KINDS or kind in _HANDLE_KINDS:
        labels.append('relative' if spec.get('rel') else 'absolute')
        if spec.get('blank'):
            labels.append('blank-in-directory')
    if spec.get('pre'):
        labels.append('destination-not-empty')
    if kind in _FALSY_KINDS and not spec.get('pre'):
        labels.append('falsy-destination')
    if via == 'to_file' and req is None and kind not in _NAME_KINDS and gname is not None \
            and os.path.splitext(gname)[1] in ('.opb', '.tex'):
        labels.append('format-from-name-attribute')
    if case.get('omit') and kind in _NONE_KINDS:
        labels.append('destination-omitted')
    return Outcome(labels=labels, nontrivial=nontrivial or kind in _FALSY_KINDS)


# --- the command line tools as writers: -o <name> against the standard output of the same command line

def run_dest_cli(case):
    tool, args, of, o = case['tool'], list(case['args']), case['of'], case['out']
    opts = ['-q', '-of', of] + (['--varnames'] if case.get('varnames') else [])
    labels = ['via-cli', tool, 'cli-out-' + o['how']]
    F = run_tool(tool, opts + args, 'formula')
    nontrivial = shape_labels(F, labels)
    with _StdoutAs() as out:
        run_tool(tool, opts + args, 'output')
    ref = out.text('')
    what0 = ' '.join([tool] + opts + args)
    _denote(of, ref, F, what0, False, bool(case.get('varnames')))
    root = tempfile.mkdtemp(prefix='verif_c12_dest_')
    cwd = os.getcwd()
    try:
        os.chdir(root)
        sub = _BLANKDIR if o.get('blank') else ''
        os.makedirs(os.path.join(root, sub), exist_ok=True)
        path = os.path.join(root, sub, o['name'])
        if o['how'] == 'dash':
            given = '-'
        else:
            given = os.path.join(sub, o['name']) if o.get('rel') else path
            if o.get('pre'):
                with open(path, 'w', encoding='utf-8') as f:
                    f.write(_JUNK)
        what = ' '.join([tool] + opts + ['-o', repr(given)] + args)
        with _StdoutAs() as out:
            run_tool(tool, opts + ['-o', given] + args, 'output')
        gc.collect()                            # the tool leaves closing its -o file to the garbage collector
        if o['how'] == 'dash':
            got = out.text(what)
        else:
            if out.text(what):
                raise Violation("{}: {} characters on the standard output although -o names a file".format(what, len(out.text(what))))
            with open(path, 'rb') as f:
                got = f.read().decode('utf-8')
        if got != ref:
            raise Violation("{}: the file holds {} characters, the standard output of the same command line without -o "
                            "has {}".format(what, len(got), len(ref)))
    finally:
        os.chdir(cwd)
        shutil.rmtree(root, ignore_errors=True)
    if o.get('blank'):
        labels.append('blank-in-directory')
    if o['how'] != 'dash':
        labels.append('relative' if o.get('rel') else 'absolute')
    return Outcome(labels=labels + ['selected-' + of], nontrivial=nontrivial)


# --- the environment: a child process whose default text encoding is not UTF-8

_ENVS = {
    # name: (environment, interpreter options, EncodingWarning is an error)
    'C': ({'LC_ALL': 'C', 'LANG': 'C', 'PYTHONUTF8': '0', 'PYTHONCOERCECLOCALE': '0'}, [], False),
    'C-stdout-ascii': ({'LC_ALL': 'C', 'LANG': 'C', 'PYTHONUTF8': '0', 'PYTHONCOERCECLOCALE': '0', 'PYTHONIOENCODING': 'ascii'}, [], False),
    'C-stdout-latin-1': ({'LC_ALL': 'C', 'LANG': 'C', 'PYTHONUTF8': '0', 'PYTHONCOERCECLOCALE': '0', 'PYTHONIOENCODING': 'latin-1'}, [], False),
    # UTF-8 locale, but the interpreter reports every use of the default encoding (PEP 597) and the user made it an error
    'utf8-warn-default-encoding': ({'LC_ALL': 'C.UTF-8', 'LANG': 'C.UTF-8', 'PYTHONUTF8': '0'}, ['-X', 'warn_default_encoding'], True),
}

_CHILD_MAIN = r'''
def _main():
    import json, locale, os, pathlib, sys, traceback, warnings
    spec = json.loads(sys.stdin.read())
    report = {'preferred': locale.getpreferredencoding(False), 'stdout': sys.stdout.encoding, 'stdout_errors': sys.stdout.errors,
              'utf8_mode': sys.flags.utf8_mode, 'jobs': [], 'fatal': None}
    try:
        from cnfgen.utils.opb import to_opb_file
        from cnfgen.utils.latexoutput import to_latex_document
        if spec['warn']:
            warnings.simplefilter('error', EncodingWarning)
        F = build_hand(spec['formula'])
        eh, ev, extra = spec['eh'], spec['ev'], spec['extra']
        for i, job in enumerate(spec['jobs']):
            via, req, how, name = job['via'], job['request'], job['how'], job['name']
            rec = {'error': None, 'size': None}
            handle = None
            if how == 'none':
                dest = None
                sys.stdout.write('\n@@JOB {}@@\n'.format(i))
                sys.stdout.flush()
            elif how == 'str':
                dest = name
            elif how == 'path':
                dest = pathlib.Path(name)
            else:
                dest = handle = open(name, 'w', encoding='utf-8', newline='')
            try:
                if via == 'to_file':
                    kw = {'fileformat': req} if req else {}
                    F.to_file(dest, export_header=eh, export_varnames=ev, extra_text=extra, **kw)
                elif via == 'to_opb_file':
                    to_opb_file(F, dest, export_header=eh, export_varnames=ev)
                else:
                    to_latex_document(F, dest, export_header=eh, extra_text=extra)
            except Exception as e:
                tb = traceback.extract_tb(e.__traceback__)
                rec['error'] = [type(e).__name__, ascii(str(e)), [f.filename for f in tb]]
            if how in ('str', 'path') and os.path.exists(name):
                rec['size'] = os.path.getsize(name)          # on return, before anything is flushed at exit
            if handle is not None:
                handle.close()
            if how == 'none':
                try:
                    sys.stdout.flush()
                except Exception:
                    pass
                sys.stdout.write('\n@@END {}@@\n'.format(i))
                sys.stdout.flush()
            report['jobs'].append(rec)
    except BaseException as e:
        report['fatal'] = ascii(traceback.format_exc())
    with open(spec['report'], 'w', encoding='ascii') as f:
        json.dump(report, f)


_main()
'''


def _child_source():
    return "_SENTINEL = {!r}\n\n{}\n{}".format(_SENTINEL, inspect.getsource(build_hand), _CHILD_MAIN)


def _env_jobs(cnf):
    jobs = [
        {'via': 'to_file', 'request': None, 'how': 'str', 'name': 'f.opb', 'abs': True},
        {'via': 'to_file', 'request': None, 'how': 'str', 'name': _BLANKDIR + '/g.tex', 'abs': False},
        {'via': 'to_file', 'request': 'latex', 'how': 'str', 'name': 'h', 'abs': True},
        {'via': 'to_file', 'request': 'opb', 'how': 'str', 'name': 'h2.txt', 'abs': False},
        {'via': 'to_file', 'request': None, 'how': 'str', 'name': _BLANKDIR + '/d.cnf', 'abs': True},
        {'via': 'to_opb_file', 'request': None, 'how': 'str', 'name': 'k.opb', 'abs': False},
        {'via': 'to_latex_document', 'request': None, 'how': 'str', 'name': 'k.tex', 'abs': True},
        {'via': 'to_file', 'request': None, 'how': 'path', 'name': 'p.tex', 'abs': True},
        {'via': 'to_file', 'request': None, 'how': 'path', 'name': 'p.opb', 'abs': False},
        {'via': 'to_file', 'request': 'latex', 'how': 'handle', 'name': 'hh.tex', 'abs': False},
        {'via': 'to_file', 'request': 'opb', 'how': 'handle', 'name': 'hh.opb', 'abs': True},
        {'via': 'to_file', 'request': 'opb', 'how': 'none', 'name': None},
        {'via': 'to_file', 'request': 'latex', 'how': 'none', 'name': None},
        {'via': 'to_opb_file', 'request': None, 'how': 'none', 'name': None},
    ]
    if cnf:
        jobs.append({'via': 'to_file', 'request': 'dimacs', 'how': 'str', 'name': 'e.txt', 'abs': False})
    return jobs


def _encodable(text, enc):
    try:
        text.encode(enc)
        return True
    except (UnicodeEncodeError, LookupError):
        return False


def run_env(case):
    from vlib.core import REPO
    F = build_hand(case['formula'])
    eh, ev, extra = bool(case.get('eh', True)), bool(case.get('ev', True)), case.get('extra_text', '')
    envname = case['env']
    envvars, pyopts, warn = _ENVS[envname]
    labels = ['env-' + envname]
    nontrivial = shape_labels(F, labels)
    texts = [str(l) for l in F.all_variable_labels()] + [str(v) for v in F.header.values()] + [extra]
    nonascii = any(not _encodable(t, 'ascii') for t in texts)
    if nonascii:
        labels.append('non-ascii-text')
    if any(not _encodable(str(l), 'latin-1') for l in F.all_variable_labels()):
        labels.append('name-not-latin-1')
    if any(ord(ch) > 0xFFFF for l in F.all_variable_labels() for ch in str(l)):
        labels.append('name-beyond-BMP')
    jobs = _env_jobs(is_cnf(F))
    root = tempfile.mkdtemp(prefix='verif_c12_env_')
    try:
        os.makedirs(os.path.join(root, _BLANKDIR))
        for j in jobs:
            if j['name'] is not None and j.get('abs'):
                j['name'] = os.path.join(root, j['name'])
        report_path = os.path.join(root, 'report.json')
        env = {'PATH': os.environ.get('PATH', '/usr/bin:/bin'), 'HOME': root, 'PYTHONPATH': REPO, 'PYTHONHASHSEED': '0',
               'PYTHONWARNINGS': 'ignore::SyntaxWarning'}
        if os.environ.get('PYTHONPYCACHEPREFIX'):
            env['PYTHONPYCACHEPREFIX'] = os.environ['PYTHONPYCACHEPREFIX']
        else:
            env['PYTHONDONTWRITEBYTECODE'] = '1'
        env.update(envvars)
        spec = {'formula': case['formula'], 'eh': eh, 'ev': ev, 'extra': extra, 'jobs': jobs, 'warn': warn, 'report': report_path}
        python = sys.executable or '/venv/bin/python'
        p = subprocess.run([python] + (['-O'] if sys.flags.optimize else []) + pyopts + ['-c', _child_source()],
                           input=json.dumps(spec).encode('ascii'), env=env, cwd=root,
                           stdout=subprocess.PIPE, stderr=subprocess.PIPE, timeout=300)
        if not os.path.exists(report_path):
            raise RuntimeError("the child process left no report (exit {}): {}".format(p.returncode, p.stderr[-1500:]))
        with open(report_path, encoding='ascii') as f:
            report = json.load(f)
        if report['fatal']:
            raise Violation("in a process with the environment {} the formula cannot even be built: {}".format(envvars, report['fatal'][-1200:]))
        child_utf8 = codecs.lookup(report['preferred']).name == 'utf-8'
        labels.append('child-default-encoding-' + ('utf-8' if child_utf8 else 'not-utf-8'))
        enc_out = report['stdout']
        labels.append('child-stdout-' + codecs.lookup(enc_out).name)
        for i, (job, rec) in enumerate(zip(jobs, report['jobs'])):
            via, req, how, name = job['via'], job['request'], job['how'], job['name']
            if via == 'to_file':
                fmt = expected_format(F, name, req)
            else:
                fmt = 'opb' if via == 'to_opb_file' else 'latex'
            what = "[{}; default encoding {}] {}({}{}) [{}]".format(
                ' '.join('{}={}'.format(k, v) for k, v in sorted(envvars.items())) + ''.join(' ' + o for o in pyopts),
                report['preferred'], via,
                {'none': 'None', 'str': 'file name', 'path': 'pathlib.Path', 'handle': 'handle opened with utf-8'}[how] +
                ('' if name is None else ' ' + repr(os.path.relpath(name, root) if os.path.isabs(name) else name)),
                ', fileformat={!r}'.format(req) if req else '', fmt)
            err = rec['error']
            if how == 'none':
                m = re.search(('\n@@JOB {}@@\n(.*)\n@@END {}@@\n'.format(i, i)).encode('ascii'), p.stdout, re.S)
                if m is None:
                    raise RuntimeError("{}: markers of job {} not found in the output of the child".format(what, i))
                buf = io.StringIO()
                _write(F, via, buf, req, eh, ev, extra)
                ref = buf.getvalue()
                if _encodable(ref, enc_out):
                    if err:
                        raise Violation("{}: {} {} although the text can be encoded for this standard output".format(what, err[0], err[1]))
                    if m.group(1) != ref.encode(enc_out):
                        raise Violation("{}: the standard output received {} bytes, the text has {}".format(
                            what, len(m.group(1)), len(ref.encode(enc_out))))
                    labels.append('stdout-complete' if _encodable(ref, 'ascii') else 'stdout-complete-non-ascii')
                else:
                    # the encoding of the standard output is the user's choice: a text that it cannot represent is either
                    # refused (UnicodeEncodeError) or written completely with the offending characters replaced
                    if err and err[0] != 'UnicodeEncodeError':
                        raise Violation("{}: {} {}".format(what, err[0], err[1]))
                    if not err and m.group(1) not in [ref.encode(enc_out, h) for h in ('replace', 'backslashreplace', 'xmlcharrefreplace', 'namereplace')]:
                        raise Violation("{}: the text cannot be encoded in {}; there was no UnicodeEncodeError, and the {} bytes on the "
                                        "standard output are not the text with the offending characters replaced either".format(
                                            what, enc_out, len(m.group(1))))
                    labels.append('stdout-cannot-encode')
                    labels.append('stdout-cannot-encode-' + ('refused' if err else 'replaced'))
                continue
            path = name if os.path.isabs(name) else os.path.join(root, name)
            if err:
                if how == 'path' and err[0] in ('AttributeError', 'TypeError') and not os.path.exists(path):
                    labels.append('pathlib-refused')
                    continue
                raise Violation("{}: {} {}".format(what, err[0], err[1]), signature='locale-dependent-file')
            if not os.path.exists(path):
                raise Violation("{}: no file was written".format(what))
            with open(path, 'rb') as f:
                raw = f.read()
            if how in ('str', 'path') and rec['size'] != len(raw):
                raise Violation("{}: when the call returned the file had {} bytes, in the end {}: it was not closed".format(what, rec['size'], len(raw)))
            try:
                text = raw.decode('utf-8')
            except UnicodeDecodeError as e:
                raise Violation("{}: the file is not UTF-8 ({})".format(what, e), signature='locale-dependent-file')
            _denote(fmt, text, F, what, eh, ev, extra)
            labels.append('file-' + how + '-' + fmt)
    finally:
        shutil.rmtree(root, ignore_errors=True)
    return Outcome(labels=labels, nontrivial=nonascii and (not child_utf8 or warn))


def run_destination(case):
    kind = case.get('kind', 'dest')
    if kind == 'dest':
        return run_dest(case)
    if kind == 'cli':
        return run_dest_cli(case)
    return run_env(case)


# --- the cases

def _lcg_rows(cls, m, nvars, salt):
    rows, x = [], salt
    for i in range(m):
        lits = []
        for _ in range(0 if i % 11 == 7 else 1 + i % 3):
            x = (x * 1103515245 + 12345) & 0x7FFFFFFF
            v = x % nvars + 1
            lits.append(v if (x >> 16) & 1 else -v)
        if cls == 'CNF':
            rows.append(lits)
        elif i % 3 == 1:
            rows.append(['clause', lits])
        else:
            rows.append(['con', [[1 + (abs(l) * 7 + i) % 5, l] for l in lits], '==' if i % 4 == 0 else '>=', i % 6 - 1])
    return rows


_DEST_FORMULAS = [
    {'cls': 'CNF', 'groups': [['block', [2, 2], 'p_{{{},{}}}'], ['single', 'α_1'], ['anon', 1]],
     'rows': [[1, -2], [-3, 4], [], [2, -4, 5], [-6]]},
    {'cls': 'CNF', 'groups': [['block', [3], 'x_{{{}}}'], ['single', 'é^{2}']], 'rows': _lcg_rows('CNF', 40, 4, 5),
     'description': 'forty clauses', 'header': [['note', 'two pages']]},
    {'cls': 'CNF', 'groups': [], 'rows': []},
    {'cls': 'OPB', 'groups': [['single', 'a=b'], ['block', [2], 'x_{{{}}}'], ['single', 'π_{1,2}']],
     'rows': [['con', [[2, 1], [3, -2]], '==', 3], ['clause', []], ['con', [[12, -3]], '>=', 2], ['con', [[1, 4], [5, -3]], '<', 2]]},
    {'cls': 'OPB', 'groups': [], 'rows': []},
    {'cls': 'OPB', 'groups': [['block', [2, 2], 'e({},{})']], 'rows': _lcg_rows('OPB', 36, 4, 9)},
]
_DEST_VIAS = [('to_file', 'opb'), ('to_file', 'latex'), ('to_file', None), ('to_file', 'dimacs'), ('to_opb_file', None),
              ('to_latex_document', None), ('print_latex', None)]
_DEST_FILENAMES = ['f.opb', 'g.tex', 'h.cnf', 'out', 'a b.opb', 'x.tex.txt']


def _dest_specs():
    """every kind of destination with its variants"""
    for kind in _DEST_KINDS:
        if kind in _NAME_KINDS or kind in _HANDLE_KINDS:
            for rel, blank in ((False, False), (True, False), (False, True), (True, True)):
                yield {'kind': kind, 'rel': rel, 'blank': blank}
        else:
            yield {'kind': kind}
            if kind in _USER_CLASSES or kind == 'named-chunks':
                yield {'kind': kind}            # twice: the user-defined objects are what this sub-check is about


def _enum_dest():
    specs = list(_dest_specs())
    i = 0
    for fi, f in enumerate(_DEST_FORMULAS):
        for via, req in _DEST_VIAS:
            if req == 'dimacs' and f['cls'] != 'CNF':
                continue
            for spec in specs:
                if via == 'print_latex' and spec['kind'] not in _OBJECT_KINDS:
                    continue
                i += 1
                c = dict(f)
                d = dict(spec)
                d['name'] = _DEST_FILENAMES[i % len(_DEST_FILENAMES)]
                d['pre'] = i % 3 == 0
                c.update({'kind': 'dest', 'via': via, 'request': req, 'dest': d, 'eh': bool(i % 2), 'ev': bool((i // 2) % 2),
                          'omit': i % 4 == 1, 'pass_none': i % 5 == 0})
                if i % 7 == 0:
                    c['extra_text'] = 'Some remark.\n'
                yield c


_DEST_CLI = ['php 3 2', 'op 3', 'subsetcard complete 3 3 --equal', 'php 5 4', 'or 0 0', 'false']
_CLI_OUT = [{'how': 'file', 'name': 'f.out', 'rel': False, 'blank': True}, {'how': 'file', 'name': 'f.tex', 'rel': True, 'blank': True},
            {'how': 'file', 'name': 'f.opb', 'rel': True, 'blank': False, 'pre': True}, {'how': 'dash', 'name': '-'},
            {'how': 'file', 'name': 'a b.cnf', 'rel': False, 'blank': False, 'pre': True}]


def _enum_dest_cli(tier):
    i = 0
    for tool in ('cnfgen', 'pbgen'):
        for s in (_DEST_CLI if tier == 'thorough' else _DEST_CLI[:3]):
            for of in ('opb', 'latex'):
                i += 1
                outs = _CLI_OUT if tier == 'thorough' else [_CLI_OUT[i % len(_CLI_OUT)]]
                for o in outs:
                    yield {'kind': 'cli', 'tool': tool, 'args': s.split(), 'of': of, 'out': dict(o), 'varnames': bool(i % 2)}


_ENV_NAMES = ['α_1', 'β', 'π_{1,2}', 'é^{2}', 'ñ', '変数_{1}', '节点(2)', '€_3', 'ж', '𝛼_2', 'y', 'x_{ü,1}', 'Ω^{∞}', 'ก']
_ENV_HEADERS = [['auteur', 'Élodie — ≥ 3'], ['注释', '式'], ['note', 'plain ascii value'], ['κ', 'λ=μ']]
_ENV_DESCRIPTIONS = ['formula with α, β and 変数', 'plain description', 'Größe ≤ 3', None]
_ENV_EXTRA = ['', 'Bemerkung: größer ≥ 2, 注.\n', 'ascii remark\n']


def _env_formula(rseed, alphabet='any'):
    r = random.Random(rseed)
    cls = 'CNF' if rseed % 2 else 'OPB'
    ascii_only = alphabet == 'ascii'
    if ascii_only:
        groups = [['block', [2, 2], 'p_{{{},{}}}'], ['single', 'y']]
        nv = 5
    else:
        pool = _ENV_NAMES if alphabet == 'any' else [n for n in _ENV_NAMES if _encodable(n, 'latin-1')]
        names = r.sample(pool, min(len(pool), 4 + rseed % 3))
        groups = [['single', n] for n in names]
        if r.random() < 0.5:
            groups.insert(r.randrange(len(groups) + 1), ['block', [2], r.choice(['χ_{{{}}}', 'z({})', '点_{{{}}}'])])
        nv = sum(2 if g[0] == 'block' else 1 for g in groups)
    m = r.choice([3, 6, 36, 40]) if rseed % 4 == 1 else r.choice([3, 5, 8])
    f = {'cls': cls, 'groups': groups, 'rows': _lcg_rows(cls, m, nv, 1 + rseed)}
    if not ascii_only:
        d = _ENV_DESCRIPTIONS[rseed % len(_ENV_DESCRIPTIONS)]
        if alphabet == 'latin1':
            d = 'Größe und café'
        if d is not None:
            f['description'] = d
        f['header'] = [list(_ENV_HEADERS[(rseed // 2) % len(_ENV_HEADERS)])]
    return f


def _enum_env(tier):
    n = 3 if tier == 'quick' else 24
    i = 0
    for envname in _ENVS:
        for k in range(n):
            i += 1
            alphabet = ['any', 'latin1', 'ascii', 'any', 'any', 'any'][k % 6]
            yield {'kind': 'env', 'env': envname, 'rseed': i, 'formula': _env_formula(i, alphabet=alphabet),
                   'eh': bool(k % 3 != 1), 'ev': True if k < 3 else bool(i % 2),
                   'extra_text': {'any': _ENV_EXTRA[i % len(_ENV_EXTRA)], 'latin1': 'größer\n', 'ascii': ''}[alphabet]}


def enum_destination(tier):
    # the slower child-process and command-line cases come first, one after the other: the shards (case index modulo
    # the number of shards) share them evenly
    for c in _enum_env(tier):
        yield c
    for c in _enum_dest_cli(tier):
        yield c
    for c in _enum_dest():
        yield c


_hand_cases = strat_hand()
_dest_kind = st.sampled_from(_DEST_KINDS + tuple(_USER_CLASSES) + ('named-chunks', 'pathlib', 'name'))
_dest_via = st.sampled_from(_DEST_VIAS)
_dest_fname = st.tuples(st.sampled_from(_NAMES + ['a b']), st.sampled_from(_EXTS)).map(lambda t: t[0] + t[1])
_bool = st.booleans()


@st.composite
def strat_destination(draw):
    case = dict(draw(_hand_cases))
    case.pop('target', None)
    via, req = draw(_dest_via)
    case.update({'kind': 'dest', 'via': via, 'request': req, 'omit': draw(_bool), 'pass_none': draw(_bool),
                 'dest': {'kind': draw(_dest_kind), 'rel': draw(_bool), 'blank': draw(_bool), 'pre': draw(_bool),
                          'name': draw(_dest_fname)}})
    return _norm_dest_case(case)


SUBCHECKS.append(
    SubCheck('destination', run_destination, strategy=strat_destination, enumerate_cases=enum_destination,
             quick=300, thorough=40000,
             rule="(a) DESTINATION: 6 fixed formulas (CNF/OPB, empty, 36 and 40 rows, non-ASCII names) and the formulas of 'hand' x entry point "
                  "(to_file with request opb/latex/dimacs/None, to_opb_file, to_latex_document, the snippet writer _print_latex) x destination: "
                  "None and omitted argument (sys.stdout replaced by a StringIO or by a falsy chunk list), file name as str and as pathlib.Path "
                  "(absolute/relative to the cwd, directory with a blank, file absent or holding longer junk), text handles (default, newline='', "
                  "line buffered, newline='\\r\\n', 'w+', 'a', codecs.open), TextIOWrapper over BytesIO, SpooledTemporaryFile that rolls over, "
                  "NamedTemporaryFile, StringIO, user objects: only write() returning None, list subclass with write=list.append (falsy), "
                  "the same with a name attribute, buffer with __len__, buffer with __bool__==False, write() returning the count; objects empty or "
                  "already written to, and written to again afterwards. Oracle: the StringIO text of the same entry point is read back and compared "
                  "with the formula (as in 'hand'), the destination holds exactly previous+that text+next, nothing reaches sys.stdout unless the "
                  "destination is None, write() only gets str, the caller's object is not closed; a pathlib.Path may instead be refused with "
                  "AttributeError/TypeError if no file is touched. cnfgen/pbgen -q -of opb|latex -o <name> (blank, relative, existing, '-') "
                  "against the standard output of the same command line. "
                  "(b) ENVIRONMENT: formulas with Greek, accented, Cyrillic, CJK, Thai, euro-sign and non-BMP variable names, non-ASCII header "
                  "fields, description and extra_text, written by a child process under LC_ALL=C PYTHONUTF8=0 PYTHONCOERCECLOCALE=0 "
                  "(PYTHONIOENCODING unset/ascii/latin-1) and under -X warn_default_encoding with EncodingWarning as error: 15 jobs per child "
                  "(to_file/to_opb_file/to_latex_document by str name absolute and relative, by Path, into a handle opened with utf-8, to None). "
                  "Oracle: every file written by name is closed on return, decodes as UTF-8 and denotes the formula (readers of 'hand'); the "
                  "standard output carries exactly the text encoded in its encoding when that is possible, else UnicodeEncodeError. quick: 12 "
                  "children, thorough: 96. non-trivial: as in 'hand', or a falsy destination; environment: non-ASCII text and a non-UTF-8 default",
             required_labels=['dest-' + k for k in _DEST_KINDS] +
                             ['via-to_file', 'via-to_opb_file', 'via-to_latex_document', 'via-print_latex', 'via-cli', 'relative', 'absolute',
                              'blank-in-directory', 'destination-not-empty', 'falsy-destination', 'destination-omitted',
                              'format-from-name-attribute', 'selected-opb', 'selected-latex', 'selected-dimacs', 'selected-snippet',
                              'env-C', 'env-C-stdout-ascii', 'env-C-stdout-latin-1', 'env-utf8-warn-default-encoding',
                              'child-default-encoding-not-utf-8', 'child-stdout-ascii', 'child-stdout-iso8859-1', 'non-ascii-text',
                              'name-not-latin-1', 'name-beyond-BMP', 'stdout-complete', 'stdout-complete-non-ascii', 'stdout-cannot-encode',
                              'file-str-opb', 'file-str-latex', 'file-str-dimacs', 'file-handle-opb', 'file-handle-latex',
                              'page-split', 'empty-formula', 'CNF', 'OPB']))
