"""C14 - graph files round-trip in every supported format; bad files are rejected."""
import contextlib
import io
import itertools
import json
import os
import shutil
import subprocess
import sys
import tempfile

from hypothesis import strategies as st

from vlib.core import SubCheck, Violation, Outcome, VERIF_DIR, write_replay
from vlib import rd_graphs as R

PROPERTY = "C14"
ASSUMPTIONS = [
    "graph names are single-line texts over letters, digits, blanks and common punctuation without double quotes or backslashes (the name is not part of the property; a name is only a comment/attribute in the file)",
    "in-house readers: the reference dialect is the one of www/KTHlistFormat.txt + www/graphformats.org (one list per line, 'c' comment lines, empty lines ignored), DIMACS 'p edge N M' / 'e u v' / 'c' lines, and a whitespace separated 0/1 matrix after 'r c'",
    "texts the descriptions leave open are gray (ValueError or exactly the reference graph are both accepted): int() spellings such as '+1', '01', '1_0'; tabs, indentation, whitespace-only lines, CR LF; 'C' comments and continuation lines of the KTH description; vertex lines out of increasing order (read as the union of the lists); a neighbour listed twice; a skipped left vertex in a bipartite kthlist; blank lines, unknown line types and repeated edges in DIMACS; '#' comment lines in a matrix; any character outside printable ASCII (then any graph is accepted)",
    "a text whose numbers exceed 300 is never given to the readers (a declared size allocates that many vertices)",
    "gml/dot documents written by the harness use non negative integer identifiers (or equal-width alphabetic names in dot); the expected numbering is by increasing identifier; for a bipartite document whose nodes are not listed in increasing order both the numbering by identifier and the numbering by order of appearance are accepted",
    "mutated gml/dot documents: only the exception type is checked (a graph or ValueError)",
    "DirectedGraph.from_file reads with type 'digraph' (there is no class for 'dag'), so that route does not check the acyclicity test",
    "objects: only legal edits are made (add_edge of a pair the type allows, remove_edge of a present edge, update_vertex_number above the current count); 'the graph as it is at writing time' is the harness-side model; for random constructions (gnp, glrd, ... , pyramids and trees, whose structure is C15's subject) and after split_random_edges / add_random_missing_edges the model is read from has_edge on every pair of vertices",
    "streams: a stream given to readGraph / writeGraph / from_file is an instance of io.TextIOBase (the tree refuses other objects with ValueError) and the format is always named (a stream made with os.fdopen has a number as name); a stream that cannot seek implements the documented methods only (read, readline and what io.IOBase derives from them; write), read(size) and readline(size) may return fewer characters than asked, never more; streams on pipes are opened with universal newlines as sys.stdin is; named pipes and os.pipe() are those of the host (Linux)",
    "line-end look-alikes (route 'linesep'): U+2028, U+2029, \\x0b, \\x0c, \\x1c-\\x1e, \\x85 and a bare \\r are ordinary characters of the line they are in; a line of a graph file ends at \\n (or \\r\\n) only, and at a bare \\r exactly when the stream translates it (open() with the default universal newlines: file names, handles opened by default, newline=''; not io.StringIO, not newline='\\n'); they are generated inside comment lines and graph names only, followed by a non-empty text. A file written by the harness with such a comment may be rejected (ValueError) but not read as another graph. A graph NAME with a bare \\r written by the tree and read back through a stream with universal newlines is left open (the tail of the name is a line of its own for every reader of such a stream: the unchanged tree rejects its own file with ValueError in that case; another graph is never accepted); names are otherwise single-line texts",
    "second generation (nx_docs, kind 'secondgen'): a '#' comment line of a GML document written by the harness has no double quote (networkx's GML tokenizer takes any line with exactly one double quote, comment or not, for the start of a string that goes on in the next lines: the rest of the document is swallowed, 'input contains no graph', and an empty line inside such a string used to escape from readGraph as IndexError - repaired by e527042, the mutated GML documents demand ValueError there); a '//' comment line of a DOT document does not end with a backslash (pyparsing's cppStyleComment continues it on the next line); a first file in a layout that the reference reader calls gray may be refused with ValueError",
    "objects: a DOT text written by the tree is read back by the tree (pydot, ~50 ms) in a quarter of the quick cases and in every thorough enumerated case; otherwise by a harness-side reader of the plain dialect pydot writes (one statement per line, decimal identifiers, numbering by increasing identifier), falling back to the tree reader when the text is not in that dialect",
]

FORMATS = {
    'simple': ['kthlist', 'gml', 'dot', 'dimacs'],
    'digraph': ['kthlist', 'gml', 'dot', 'dimacs'],
    'dag': ['kthlist', 'gml', 'dot', 'dimacs'],
    'bipartite': ['kthlist', 'gml', 'dot', 'matrix'],
}
ROUTES = ['stringio', 'filename', 'filehandle', 'from_file', 'cli']
NAME_ALPHABET = "abcdefghijklmnopqrstuvwxyzABCDEXYZ0123456789 -_.,:;()[]{}<>=+*/#!?@$%^&~|'\"\\"
FIXED_NAMES = [None, '', '5', 'p edge 3 2', '1 : 2 0', 'c', '#', ' padded ', 'e 1 2', '0', 'graph [', 'x:y',
               'say "hi"', '"', 'ends with \\', '\\"\\', 'a\\"b']


# ---------------------------------------------------------------------------
# helpers

def _classes():
    from cnfgen.graphs import Graph, DirectedGraph, BipartiteGraph
    return {'simple': Graph, 'digraph': DirectedGraph, 'dag': DirectedGraph, 'bipartite': BipartiteGraph}


def _build(gtype, d, name):
    cls = _classes()[gtype]
    if gtype == 'bipartite':
        G = cls(d['L'], d['R']) if name is None else cls(d['L'], d['R'], name)
    else:
        G = cls(d['n']) if name is None else cls(d['n'], name)
    for u, v in d['edges']:
        G.add_edge(u, v)
    return G


@contextlib.contextmanager
def _quiet():
    """pydot prints its parse errors on stdout."""
    buf = io.StringIO()
    with contextlib.redirect_stdout(buf):
        yield buf


@contextlib.contextmanager
def _tmpdir():
    d = tempfile.mkdtemp(prefix='c14-')
    try:
        yield d
    finally:
        shutil.rmtree(d, ignore_errors=True)


def _shape_labels(gtype, d):
    labels = []
    order = R.desc_order(d)
    if order >= 10:
        labels.append('>=10-vertices')
    if order == 0:
        labels.append('null-graph')
    touched = set()
    if gtype == 'bipartite':
        for u, v in d['edges']:
            touched.add(('l', u))
            touched.add(('r', v))
        if d['L'] == 0 or d['R'] == 0:
            labels.append('empty-side')
    else:
        for u, v in d['edges']:
            touched.add(u)
            touched.add(v)
        if gtype in ('digraph', 'dag'):
            labels.append('upward-edges' if R.upward(d) else 'has-back-edge')
            if any(u == v for u, v in d['edges']):
                labels.append('self-loop')
    if len(touched) < order:
        labels.append('isolated')
    if order and not d['edges']:
        labels.append('no-edges')
    if gtype != 'bipartite' and order and order not in touched:
        labels.append('last-vertex-isolated')
    return labels


def _check_same(gtype, want, H, what):
    cls = _classes()[gtype]
    if not isinstance(H, cls):
        raise Violation("{}: result is a {} instead of a {}".format(what, type(H).__name__, cls.__name__),
                        signature='rt-class')
    got = R.describe(H, gtype)
    if gtype == 'bipartite':
        if (got['L'], got['R']) != (want['L'], want['R']):
            raise Violation("{}: left/right split {} became {}".format(
                what, (want['L'], want['R']), (got['L'], got['R'])), signature='rt-split')
    elif got['n'] != want['n']:
        raise Violation("{}: {} vertices became {}".format(what, want['n'], got['n']), signature='rt-order')
    if H.number_of_vertices() != R.desc_order(want):
        raise Violation("{}: number_of_vertices() {} instead of {}".format(
            what, H.number_of_vertices(), R.desc_order(want)), signature='rt-order')
    if got['edges'] != want['edges']:
        raise Violation("{}: edges {} became {}".format(what, want['edges'], got['edges']), signature='rt-edges')
    if H.number_of_edges() != len(want['edges']):
        raise Violation("{}: number_of_edges() {} for {} edges".format(
            what, H.number_of_edges(), len(want['edges'])), signature='rt-edges')
    if gtype in ('digraph', 'dag') and H.is_dag() != R.upward(want):
        raise Violation("{}: is_dag() is {} after the round trip of a graph whose edges {} go upward".format(
            what, H.is_dag(), 'all' if R.upward(want) else 'do not all'), signature='rt-isdag')


# ---------------------------------------------------------------------------
# (d) kinds of streams: the same text through a stream that cannot seek / tell (a pipe, a FIFO, an object with
# only the reading or only the writing methods), in one piece or in small chunks.
#
#   reading   'noseek'     io.TextIOBase object with read / readline (readlines, iteration derived), nothing else
#             'chunks'     the same, read(k) and readline(k) return at most `chunk` characters when a size is asked
#             'pipe'       os.pipe(), read end wrapped with os.fdopen (what sys.stdin is in `cat file | cnfgen ...`)
#             'pipe-tiny'  the same with a 16 byte buffer
#             'fifo'       a named pipe in a temporary directory, opened by the harness
#             'fifo-name'  the path of the named pipe is given and the tree opens it
#   writing   'writeonly'  io.TextIOBase object with write() only
#             'pipe' / 'pipe-line'   write end of os.pipe() (block / line buffered), a thread collects the text
#             'fifo-name'  the path of a named pipe is given and the tree opens it
#             'spec-save-fifo'       command line graph argument `... save <format> <named pipe>`
#   entry points for reading: readGraph, <class>.from_file, the command line graph argument `<format> -` with
#   sys.stdin replaced (or `<format> <named pipe>`), kthlist2pebbling's cli() with sys.stdin replaced.

RKINDS = ['noseek', 'chunks', 'pipe', 'pipe-tiny', 'fifo', 'fifo-name']
WKINDS = ['stringio', 'writeonly', 'pipe', 'pipe-line', 'fifo-name', 'spec-save-fifo']
RAPIS = ['readGraph', 'from_file', 'spec', 'k2p']
_INLINE_PIPE = 16384         # texts up to this size are put into a pipe before the reader starts


class _TextSource(io.TextIOBase):
    """Readable text stream: no seek, no tell (io.UnsupportedOperation from the base class), not a tty."""

    def __init__(self, text, chunk=0):
        io.TextIOBase.__init__(self)
        self._text, self._pos, self._chunk = text, 0, chunk

    def readable(self):
        return True

    def _limit(self, size):
        if size is None or size < 0:
            return None
        return min(size, self._chunk) if self._chunk else size

    def read(self, size=-1):
        lim = self._limit(size)
        end = len(self._text) if lim is None else min(len(self._text), self._pos + lim)
        out = self._text[self._pos:end]
        self._pos = end
        return out

    def readline(self, size=-1):
        lim = self._limit(size)
        nl = self._text.find('\n', self._pos)
        end = len(self._text) if nl < 0 else nl + 1
        if lim is not None:
            end = min(end, self._pos + lim)
        out = self._text[self._pos:end]
        self._pos = end
        return out


class _TextSink(io.TextIOBase):
    """Writable text stream with write() only."""

    def __init__(self):
        io.TextIOBase.__init__(self)
        self.parts = []

    def writable(self):
        return True

    def write(self, s):
        if not isinstance(s, str):
            raise TypeError("write() argument must be str, not {}".format(type(s).__name__))
        self.parts.append(s)
        return len(s)


def _feed(fd, data):
    """All of data into fd, then close; a reader that goes away early is not an error of the feeder."""
    try:
        view = memoryview(data)
        while len(view):
            n = os.write(fd, view[:4096])
            view = view[n:]
    except OSError:
        pass
    finally:
        os.close(fd)


def _release_fifo(path, thread, flags):
    """A thread of the harness may still be waiting for the tree to open the other end of the named pipe
    (when the tree never did): open that end ourselves until the thread is through."""
    thread.join(0.002)
    while thread.is_alive():
        try:
            fd = os.open(path, flags | os.O_NONBLOCK)
        except OSError:
            thread.join(0.005)
            continue
        try:
            if flags == os.O_RDONLY:
                while thread.is_alive():        # a writer: take what it writes
                    try:
                        os.read(fd, 65536)
                    except OSError:
                        pass
                    thread.join(0.005)
        finally:
            os.close(fd)                        # a reader: sees the end of the file now
        thread.join(0.005)


@contextlib.contextmanager
def _source(kind, text, chunk=0):
    """Yields a stream of the given kind (or, for 'fifo-name', a path) from which `text` can be read once."""
    import threading
    try:
        data = text.encode('utf-8')
    except UnicodeEncodeError:
        kind, data = 'noseek', None
    if kind in ('noseek', 'chunks'):
        yield _TextSource(text, chunk if kind == 'chunks' else 0)
        return
    if kind in ('pipe', 'pipe-tiny'):
        r, w = os.pipe()
        thread = None
        if len(data) <= _INLINE_PIPE:
            _feed(w, data)
        else:
            thread = threading.Thread(target=_feed, args=(w, data), daemon=True)
            thread.start()
        f = os.fdopen(r, 'r', buffering=(16 if kind == 'pipe-tiny' else -1), encoding='utf-8')
        try:
            yield f
        finally:
            f.close()
            if thread is not None:
                thread.join(30)
                if thread.is_alive():
                    raise RuntimeError("the thread feeding the pipe did not finish")
        return
    if kind in ('fifo', 'fifo-name'):
        with _tmpdir() as tmp:
            path = os.path.join(tmp, 'graph_fifo')
            os.mkfifo(path)
            done = threading.Event()

            def feeder():
                _feed(os.open(path, os.O_WRONLY), data)       # waits for a reader
                # safety net: somebody waiting for a second writer on this path would wait for ever
                while not done.wait(20):
                    try:
                        os.close(os.open(path, os.O_WRONLY | os.O_NONBLOCK))
                    except OSError:
                        pass

            thread = threading.Thread(target=feeder, daemon=True)
            thread.start()
            f = None
            try:
                if kind == 'fifo':
                    f = open(path, 'r', encoding='utf-8')
                    yield f
                else:
                    yield path
            finally:
                done.set()
                if f is not None:
                    f.close()
                _release_fifo(path, thread, os.O_RDONLY)
        return
    raise ValueError("unknown kind of input stream in case: {}".format(kind))


def _read_stream(kind, api, gtype, fmt, text, chunk=0):
    """The graph the tree reads from `text` given through a stream of that kind at that entry point."""
    from cnfgen.graphs import readGraph
    from cnfgen.clitools.graph_args import make_graph_from_spec
    import cnfgen.clitools.msg as msg
    with _source(kind, text, chunk) as src:
        if api == 'readGraph':
            return readGraph(src, gtype, fmt)
        if api == 'from_file':
            return _classes()[gtype].from_file(src, fmt)
        if api == 'spec' and kind == 'fifo-name':
            msg._prefix = ''
            return make_graph_from_spec(gtype, [fmt, src])
        if api == 'k2p' and kind == 'fifo-name':
            import importlib
            kthlist2pebbling = importlib.import_module('cnfgen.clitools.kthlist2pebbling')
            msg._prefix = ''
            try:
                return kthlist2pebbling.cli(['kthlist2pebbling', '-q', '-i', src], mode='formula')
            finally:
                msg._prefix = ''
        old_stdin = sys.stdin
        sys.stdin = src
        try:
            msg._prefix = ''
            if api == 'spec':
                return make_graph_from_spec(gtype, [fmt, '-'])
            if api == 'k2p':
                import importlib
                kthlist2pebbling = importlib.import_module('cnfgen.clitools.kthlist2pebbling')
                return kthlist2pebbling.cli(['kthlist2pebbling', '-q'], mode='formula')
            raise ValueError("unknown entry point in case: {}".format(api))
        finally:
            sys.stdin = old_stdin
            msg._prefix = ''


def _write_stream(kind, G, gtype, fmt):
    """The text the tree writes for G into a destination of that kind."""
    import threading
    from cnfgen.graphs import writeGraph
    from cnfgen.clitools.graph_args import make_graph_from_spec
    if kind == 'stringio':
        buf = io.StringIO()
        writeGraph(G, buf, gtype, fmt)
        return buf.getvalue()
    if kind == 'writeonly':
        sink = _TextSink()
        writeGraph(G, sink, gtype, fmt)
        return ''.join(sink.parts)
    got = []
    if kind in ('pipe', 'pipe-line'):
        r, w = os.pipe()

        def collect():
            with os.fdopen(r, 'r', encoding='utf-8', newline='') as f:
                got.append(f.read())

        thread = threading.Thread(target=collect, daemon=True)
        thread.start()
        f = os.fdopen(w, 'w', buffering=(1 if kind == 'pipe-line' else -1), encoding='utf-8')
        try:
            writeGraph(G, f, gtype, fmt)
        finally:
            f.close()
            thread.join(30)
        if thread.is_alive() or not got:
            raise RuntimeError("the thread reading the pipe did not finish")
        return got[0]
    if kind in ('fifo-name', 'spec-save-fifo'):
        with _tmpdir() as tmp:
            path = os.path.join(tmp, 'saved_fifo')
            os.mkfifo(path)

            def collect():
                with open(path, 'r', encoding='utf-8', newline='') as f:     # waits for the writer
                    got.append(f.read())

            thread = threading.Thread(target=collect, daemon=True)
            thread.start()
            try:
                if kind == 'fifo-name':
                    writeGraph(G, path, gtype, fmt)
                else:
                    # the graph argument of the command line: the graph read from a regular file, saved to the pipe
                    p = os.path.join(tmp, 'regular_file')
                    with open(p, 'w', encoding='utf-8') as f:
                        writeGraph(G, f, gtype, fmt)
                    make_graph_from_spec(gtype, [fmt, p, 'save', fmt, path])
            finally:
                _release_fifo(path, thread, os.O_WRONLY)
        if not got:
            raise RuntimeError("the thread reading the named pipe did not finish")
        return got[0]
    raise ValueError("unknown kind of output stream in case: {}".format(kind))


def _pebbling_clauses(want):
    """Clauses of the pebbling formula of a dag, variable v = vertex v (cnfgen/families/pebbling.py: one clause
    'predecessors imply v' per vertex in vertex order, followed by 'not v' when v has no successor)."""
    n = want['n']
    pred = {v: [] for v in range(1, n + 1)}
    out = {v: 0 for v in range(1, n + 1)}
    for u, v in want['edges']:
        pred[v].append(u)
        out[u] += 1
    cls = []
    for v in range(1, n + 1):
        cls.append([-p for p in sorted(pred[v])] + [v])
        if out[v] == 0:
            cls.append([-v])
    return cls


def _dimacs_clauses(text):
    """(number of variables, clauses) of a DIMACS CNF text; None when it is not one."""
    header, cls = None, []
    for l in text.splitlines():
        if not l.strip() or l.startswith('c'):
            continue
        t = l.split()
        if t[0] == 'p':
            if header is not None or len(t) != 4 or t[1] != 'cnf':
                return None
            header = (int(t[2]), int(t[3]))
            continue
        try:
            lits = [int(x) for x in t]
        except ValueError:
            return None
        if not lits or lits[-1] != 0:
            return None
        cls.append(lits[:-1])
    if header is None or header[1] != len(cls):
        return None
    return header[0], cls


def _check_pebbling(want, nvars, clauses, what):
    exp = _pebbling_clauses(want)
    if nvars != want['n'] or sorted(sorted(c) for c in clauses) != sorted(sorted(c) for c in exp):
        raise Violation("{}: the pebbling formula has {} variables and clauses {} instead of {} variables and {}: "
                        "another graph was read".format(what, nvars, clauses, want['n'], exp), signature='stream-formula')


def run_stream(case):
    """Round trip through non-seekable streams: written into a destination of kind `wstream`, read from a
    source of kind `rstream` at the entry point `rapi`."""
    from cnfgen.graphs import readGraph, supported_graph_formats
    gtype, fmt = case['gtype'], case['fmt']
    rkind, wkind, api, chunk = case['rstream'], case['wstream'], case['rapi'], case.get('chunk', 0)
    if gtype == 'bipartite':
        want = R.make_desc(gtype, L=case['L'], R=case['R'], edges=case['edges'])
    else:
        want = R.make_desc(gtype, n=case['n'], edges=case['edges'])
    if fmt not in supported_graph_formats()[gtype]:
        if fmt == 'dot':
            return Outcome(labels=['dot-not-available'], nontrivial=False)
        raise Violation("format {} is not offered for {} graphs".format(fmt, gtype), signature='rt-formats')
    if api == 'k2p' and not (gtype == 'dag' and fmt == 'kthlist'):
        api = 'readGraph'
    G = _build(gtype, want, case.get('name'))
    what = "{} graph {} in {} format".format(gtype, {k: want[k] for k in want if k != 'edges'}, fmt)
    labels = ['{}/{}'.format(gtype, fmt), 'route:stream', 'wstream:' + wkind, 'rstream:' + rkind, 'rapi:' + api]
    labels += _shape_labels(gtype, want)
    # -- writing
    w_what = "{} written into a destination of kind '{}'".format(what, wkind)
    try:
        with _quiet():
            text = _write_stream(wkind, G, gtype, fmt)
            # the text means the graph for the reader of the tree on StringIO ...
            H = readGraph(io.StringIO(text), gtype, fmt)
    except ValueError as e:
        raise Violation("{}: {}({})".format(w_what, type(e).__name__, e), signature='stream-write-rejected')
    _check_same(gtype, want, H, w_what + ', the text read back from StringIO')
    if fmt in R.INHOUSE[gtype]:
        # ... and for the independent reference reader
        ref = R.ref_read(fmt, gtype, text)
        if ref.status == 'invalid' or ref.graph != want:
            raise Violation("{}: the text written, {!r}, does not describe the graph {} for the reference reader ({} {})".format(
                w_what, text, want, ref.status, ref.graph if ref.graph is not None else ref.why),
                signature='stream-written-text')
        labels.append('written-text-' + ref.status)
    # -- reading
    r_what = "{} (text {!r}) read from a source of kind '{}'{} through {}".format(
        what, text if len(text) < 400 else text[:400] + '...', rkind,
        ' (chunks of {})'.format(chunk) if rkind == 'chunks' else '', api)
    try:
        with _quiet():
            H = _read_stream(rkind, api, gtype, fmt, text, chunk)
    except ValueError as e:
        raise Violation("{}: a text that is accepted from StringIO is rejected with {}({})".format(
            r_what, type(e).__name__, e), signature='stream-read-rejected')
    if api == 'k2p':
        _check_pebbling(want, H.number_of_variables(), [list(c) for c in H.clauses()], r_what)
    else:
        _check_same(gtype, want, H, r_what)
    return Outcome(labels=labels, nontrivial=len(want['edges']) >= 1 and R.desc_order(want) >= 3)


_CHILD_RW = ("import sys, json; from cnfgen.graphs import readGraph, writeGraph; a = json.loads(sys.argv[1]); "
             "G = readGraph(sys.stdin, a['gtype'], a['fmt']); writeGraph(G, sys.stdout, a['gtype'], a['ofmt'])")


def run_stream_subprocess(case):
    """A real child process whose standard input and output are pipes.
    tool 'readwrite': readGraph(sys.stdin) + writeGraph(sys.stdout) in the child, the text that comes back must
    be the graph (other format allowed); 'cnfgen-peb' / 'kthlist2pebbling': the formula printed must be the
    pebbling formula of the graph; 'cnfgen-domset': the formula printed must be the one the tool prints, in this
    process, for the same text in a regular file."""
    from vlib import cli
    from cnfgen.graphs import readGraph, supported_graph_formats
    gtype, fmt, tool = case['gtype'], case['fmt'], case['tool']
    if gtype == 'bipartite':
        want = R.make_desc(gtype, L=case['L'], R=case['R'], edges=case['edges'])
    else:
        want = R.make_desc(gtype, n=case['n'], edges=case['edges'])
    ofmt = case.get('ofmt', fmt)
    if fmt not in supported_graph_formats()[gtype] or ofmt not in supported_graph_formats()[gtype]:
        return Outcome(labels=['dot-not-available'], nontrivial=False)
    if fmt in R.INHOUSE[gtype]:
        text = R.write_inhouse(fmt, gtype, want, case.get('style', 0))
        if R.ref_read(fmt, gtype, text).status != 'valid':
            text = R.write_inhouse(fmt, gtype, want, 0)
    else:
        with _quiet():
            text = _write_stream('stringio', _build(gtype, want, None), gtype, fmt)
    what = "child process `{}` fed the {} text {!r} ({} graph {}) through a pipe".format(tool, fmt, text, gtype, want)
    labels = ['route:subprocess', 'tool:' + tool, '{}/{}'.format(gtype, fmt)] + _shape_labels(gtype, want)

    def failed(code, err):
        tail = err.strip().splitlines()[-1] if err.strip() else ''
        if 'Traceback' in err and 'cnfgen' not in err:
            raise RuntimeError("child process failed outside the tree: " + err[-1500:])
        raise Violation("{}: exit status {} and message {!r}; the same text is accepted from a regular file".format(
            what, code, tail), signature='subprocess-rejected')

    if tool == 'readwrite':
        env = {k: v for k, v in os.environ.items()}
        env.update(PYTHONPATH=os.environ.get('VERIF_REPO', '/repo'), PYTHONHASHSEED='0', PYTHONWARNINGS='ignore')
        arg = json.dumps({'gtype': gtype, 'fmt': fmt, 'ofmt': ofmt})
        p = subprocess.run([sys.executable] + (['-O'] if sys.flags.optimize else []) + ['-c', _CHILD_RW, arg],
                           input=text, text=True, stdout=subprocess.PIPE, stderr=subprocess.PIPE,
                           cwd=os.environ.get('VERIF_REPO', '/repo'), env=env, timeout=300)
        if p.returncode != 0:
            failed(p.returncode, p.stderr)
        back = p.stdout
        if ofmt in R.INHOUSE[gtype]:
            ref = R.ref_read(ofmt, gtype, back)
            if ref.status == 'invalid' or ref.graph != want:
                raise Violation("{}: the {} text it wrote to its standard output, {!r}, is not that graph for the "
                                "reference reader ({} {})".format(what, ofmt, back, ref.status,
                                                                  ref.graph if ref.graph is not None else ref.why),
                                signature='subprocess-wrong-graph')
        try:
            with _quiet():
                H = readGraph(io.StringIO(back), gtype, ofmt)
        except ValueError as e:
            raise Violation("{}: the {} text it wrote to its standard output, {!r}, is rejected: {}".format(
                what, ofmt, back, e), signature='subprocess-wrong-graph')
        _check_same(gtype, want, H, what + ", the {} text written to its standard output".format(ofmt))
        labels.append('out:' + ofmt)
    elif tool in ('cnfgen-peb', 'kthlist2pebbling'):
        if tool == 'cnfgen-peb':
            r = cli.run_subprocess('cnfgen', ['-q', 'peb', fmt, '-'], stdin_text=text)
        else:
            r = cli.run_subprocess('kthlist2pebbling', ['-q'], stdin_text=text)
        if r.code != 0:
            failed(r.code, r.err)
        parsed = _dimacs_clauses(r.out)
        if parsed is None:
            raise Violation("{}: the output is not a DIMACS formula: {!r}".format(what, r.out[:600]),
                            signature='subprocess-output')
        _check_pebbling(want, parsed[0], parsed[1], what)
    elif tool == 'cnfgen-domset':
        with _tmpdir() as tmp:
            path = os.path.join(tmp, 'regular.' + fmt)
            with open(path, 'w', encoding='utf-8') as f:
                f.write(text)
            ref = cli.run_main('cnfgen', ['-q', 'domset', case.get('d', 2), fmt, path])
        if ref.code != 0 or ref.exc is not None:
            raise Violation("`cnfgen domset {} {} FILE` fails on a regular file with the text {!r}: {} {!r}".format(
                case.get('d', 2), fmt, text, ref.err[-300:], ref.exc), signature='subprocess-reference')
        r = cli.run_subprocess('cnfgen', ['-q', 'domset', case.get('d', 2), fmt, '-'], stdin_text=text)
        if r.code != 0:
            failed(r.code, r.err)
        a, b = _dimacs_clauses(r.out), _dimacs_clauses(ref.out)
        if a is None or a != b:
            raise Violation("{}: the formula printed differs from the one printed for the same text in a regular "
                            "file: {!r} instead of {!r}".format(what, r.out[:600], ref.out[:600]),
                            signature='subprocess-formula')
    else:
        raise ValueError("unknown tool in case: {}".format(tool))
    return Outcome(labels=labels, nontrivial=len(want['edges']) >= 1 and R.desc_order(want) >= 3)


_STREAM_GRAPHS = {
    # a graph with more than ten vertices whose last vertex is isolated, a small one, one without edges
    'simple': [{'n': 12, 'edges': [[1, 2], [1, 11], [2, 10], [3, 4], [10, 11], [5, 9]]},
               {'n': 4, 'edges': [[1, 3], [2, 3], [3, 4]]}, {'n': 3, 'edges': []}, {'n': 0, 'edges': []}],
    'digraph': [{'n': 12, 'edges': [[1, 2], [11, 1], [2, 10], [4, 3], [10, 11], [5, 5], [9, 2]]},
                {'n': 4, 'edges': [[3, 1], [2, 3], [3, 4], [4, 3]]}, {'n': 2, 'edges': []}, {'n': 0, 'edges': []}],
    'dag': [{'n': 12, 'edges': [[1, 2], [1, 11], [2, 10], [3, 4], [10, 11], [5, 9], [2, 11]]},
            {'n': 4, 'edges': [[1, 3], [2, 3], [3, 4]]}, {'n': 3, 'edges': []}, {'n': 0, 'edges': []}],
    'bipartite': [{'L': 3, 'R': 11, 'edges': [[1, 1], [1, 11], [2, 10], [3, 2], [3, 10]]},
                  {'L': 11, 'R': 2, 'edges': [[1, 1], [10, 2], [11, 1], [4, 2]]},
                  {'L': 2, 'R': 2, 'edges': [[1, 2], [2, 1]]}, {'L': 0, 'R': 3, 'edges': []}],
}


def _stream_combos(gtype, fmt):
    out = []
    for rk in RKINDS:
        for api in RAPIS:
            if api == 'k2p' and not (gtype == 'dag' and fmt == 'kthlist'):
                continue
            out.append((rk, api))
    return out


def enum_streams(tier):
    """Every graph type x format x kind of source x entry point, the kinds of destination in rotation, on fixed
    graphs; and the cases with a real child process."""
    k = 0
    for gtype in R.TYPES:
        for fmt in FORMATS[gtype]:
            graphs = _STREAM_GRAPHS[gtype] if tier == 'thorough' else _STREAM_GRAPHS[gtype][:2]
            for gi, g in enumerate(graphs):
                for rk, api in _stream_combos(gtype, fmt):
                    k += 1
                    if fmt == 'dot' and tier == 'quick' and (k % 6 or gi):
                        continue            # reading DOT costs 50 ms: one combination in six, on one graph
                    if api == 'k2p' and tier == 'quick' and gi:
                        continue
                    c = dict(g)
                    c.update(gtype=gtype, fmt=fmt, route='stream', name=None, rstream=rk, rapi=api,
                             wstream=WKINDS[k % len(WKINDS)], chunk=1 + k % 7)
                    yield c
    # real child processes: a handful in the quick tier
    kid = 0
    for gtype in R.TYPES:
        fmts = FORMATS[gtype] if tier == 'thorough' else [FORMATS[gtype][(R.TYPES.index(gtype)) % 2 * 3]]
        for fi, fmt in enumerate(fmts):
            for gi, g in enumerate(_STREAM_GRAPHS[gtype][:2 if tier == 'thorough' else 1]):
                kid += 1
                c = dict(g)
                c.update(gtype=gtype, fmt=fmt, route='subprocess', tool='readwrite', style=(kid * 5) % 64,
                         ofmt=FORMATS[gtype][(fi + kid) % 4] if tier == 'thorough' else
                         [f for f in FORMATS[gtype] if f != 'dot'][kid % 3])
                yield c
    dags = _STREAM_GRAPHS['dag'][:3 if tier == 'thorough' else 1]
    for gi, g in enumerate(dags):
        for tool in ('cnfgen-peb', 'kthlist2pebbling'):
            c = dict(g)
            c.update(gtype='dag', fmt='kthlist', route='subprocess', tool=tool, style=gi)
            yield c
    for gi, g in enumerate(_STREAM_GRAPHS['simple'][:3 if tier == 'thorough' else 1]):
        for fmt in (['dimacs', 'kthlist', 'gml'] if tier == 'thorough' else ['dimacs']):
            c = dict(g)
            c.update(gtype='simple', fmt=fmt, route='subprocess', tool='cnfgen-domset', d=3, style=gi)
            yield c


# ---------------------------------------------------------------------------
# (a) round trip

def _roundtrip_routes(G, gtype, fmt, route, cls, results):
    from cnfgen.graphs import readGraph, writeGraph
    from cnfgen.clitools.graph_args import make_graph_from_spec
    if route == 'stringio':
        buf = io.StringIO()
        writeGraph(G, buf, gtype, fmt)
        text = buf.getvalue()
        results.append(('text', text))
        results.append(('readGraph(StringIO)', readGraph(io.StringIO(text), gtype, fmt)))
    else:
        with _tmpdir() as tmp:
            p = os.path.join(tmp, 'graph_a.' + fmt)
            q = os.path.join(tmp, 'graph_b.txt')
            if route == 'filename':
                writeGraph(G, p, gtype)
                results.append(('readGraph(name)', readGraph(p, gtype)))
                writeGraph(G, q, gtype, fmt)
                results.append(('readGraph(name, format)', readGraph(q, gtype, fmt)))
            elif route == 'filehandle':
                with open(p, 'w', encoding='utf-8') as f:
                    writeGraph(G, f, gtype)
                with open(p, 'r', encoding='utf-8') as f:
                    results.append(('readGraph(handle)', readGraph(f, gtype)))
            elif route == 'from_file':
                writeGraph(G, p, gtype, fmt)
                shutil.copy(p, q)
                results.append(('from_file(name)', cls.from_file(p)))
                results.append(('from_file(name, format)', cls.from_file(q, fmt)))
                with open(q, 'r', encoding='utf-8') as f:
                    results.append(('from_file(handle, format)', cls.from_file(f, fmt)))
            else:
                writeGraph(G, p, gtype, fmt)
                shutil.copy(p, q)
                p2 = os.path.join(tmp, 'saved_a.' + fmt)
                q2 = os.path.join(tmp, 'saved_b')
                results.append(('<file>', make_graph_from_spec(gtype, [p, 'save', p2])))
                results.append(('<file> after save <file>', make_graph_from_spec(gtype, [p2])))
                results.append(('<format> <file>', make_graph_from_spec(gtype, [fmt, q, 'save', fmt, q2])))
                results.append(('<format> <file> after save <format> <file>',
                                make_graph_from_spec(gtype, [fmt, q2])))
                with open(q2, 'r', encoding='utf-8') as f:
                    text = f.read()
                old_stdin = sys.stdin
                sys.stdin = io.StringIO(text)
                try:
                    results.append(('<format> - (standard input)', make_graph_from_spec(gtype, [fmt, '-'])))
                finally:
                    sys.stdin = old_stdin


def run_no_format(case):
    """a stream that does not tell its format (no name, or a name that is not a path: a file descriptor, None) and no
    format given: the documented answer is ValueError ("cannot guess a file format ... specify the format manually")"""
    import cnfgen.graphs as cg
    gtype, kind, api = case['gtype'], case['stream'], case['api']
    text = {'simple': '3\n1 : 0\n2 : 1 0\n3 : 1 2 0\n', 'dag': '3\n1 : 0\n2 : 1 0\n3 : 1 2 0\n',
            'digraph': '3\n1 : 0\n2 : 1 0\n3 : 1 2 0\n', 'bipartite': '2 2\n1 : 1 2 0\n2 : 2 0\n'}[gtype]
    fds = []
    try:
        if kind == 'stringio':
            src = io.StringIO(text)
        elif kind == 'named-none':
            src = io.StringIO(text)
            src.name = None
        elif kind == 'named-int':
            src = io.StringIO(text)
            src.name = 7
        else:                      # the read end of a pipe: its name is the file descriptor
            r, w = os.pipe()
            with os.fdopen(w, 'w') as wf:
                wf.write(text)
            src = os.fdopen(r)
            fds.append(src)
        what = "reading a {} graph from a stream of kind {} without telling the format ({})".format(gtype, kind, api)
        try:
            if api == 'readGraph':
                cg.readGraph(src, gtype)
            else:
                {'simple': cg.Graph, 'dag': cg.DirectedGraph, 'digraph': cg.DirectedGraph, 'bipartite': cg.BipartiteGraph}[gtype].from_file(src)
        except ValueError:
            return Outcome(labels=['route:no-format', 'nameless:' + kind], rejected=True, nontrivial=True)
        raise Violation("{}: accepted, although nothing names a format".format(what))
    finally:
        for f in fds:
            f.close()


# ---------------------------------------------------------------------------
# (e) characters that SOME line splitters (str.splitlines) treat as line ends, inside one line of the file:
# U+2028, U+2029, form feed, vertical tab, FS/GS/RS (\x1c-\x1e), NEL (\x85) and a bare carriage return.
# For a text file only '\n' ends a line ('\r\n' too; and a bare '\r' where the stream is opened with universal
# newlines, the default of open()): a comment line goes on until then, whatever it contains.
#
#   mode 'name'     the graph has a name  <words> SEP <tail> [SEP <tail> ...] ; the tree writes it and reads it back
#   mode 'comment'  the harness writes the file, with a comment line  'c note SEP <tail>' ('#' for matrix) at the
#                   head / after the size line / in the middle / at the end, and the tree reads it
#   tails           words, a number (another size), an adjacency-like text that would add a NEW legal edge if it
#                   were a line of its own, the literal list of the brief ('2 : 1 0', 'e 1 2', '0 1'), a comment
#   via             how the text reaches the reader (and, mode 'name', how the tree wrote it)

LS_SEPS = ['\u2028', '\u2029', '\x0c', '\x0b', '\x1c', '\x1d', '\x1e', '\x85', '\r']
_LS_SET = frozenset(LS_SEPS)
LS_TAILS = ['words', 'number', 'adj-new', 'adj-lit', 'comment']
LS_WHERE = ['head', 'after-size', 'middle', 'end', 'end-no-newline']
# via: (translating, i.e. the stream is opened with universal newlines so that a bare '\r' ends a line)
LS_VIA = {'stringio': False, 'filename': True, 'filename-format': True, 'filehandle': True, 'handle-newline-lf': False,
          'handle-newline-raw': True, 'from_file': True, 'spec': True}
LS_VIAS = sorted(LS_VIA)


def _ls_label(sep):
    return 'sep:U+{:04X}'.format(ord(sep))


def _ls_new_pair(gtype, want):
    """A pair the type allows and the graph does not have (None when the graph is complete)."""
    if gtype == 'bipartite':
        P = _pairs(gtype, L=want['L'], Rr=want['R'])
    else:
        P = _pairs(gtype, n=want['n'])
        if gtype == 'digraph':
            P = [p for p in P if p[0] != p[1]]
    have = set(tuple(e) for e in want['edges'])
    for p in reversed(P):
        if tuple(p) not in have:
            return tuple(p)
    return None


def _ls_tail(kind, fmt, gtype, want):
    order = R.desc_order(want)
    if kind == 'words':
        return 'page two of it'
    if kind == 'comment':
        return '# more' if fmt == 'matrix' else 'c more'
    if kind == 'number':
        return {'kthlist': str(order + 1), 'dimacs': 'p edge {} 0'.format(order + 1),
                'matrix': '{} {}'.format(want.get('L', 0), want.get('R', 0) + 1)}[fmt]
    if kind == 'adj-new':
        p = _ls_new_pair(gtype, want)
        if p is not None:
            u, v = p
            if fmt == 'kthlist':
                return '{} : {} 0'.format(u, v + want['L']) if gtype == 'bipartite' else '{} : {} 0'.format(v, u)
            if fmt == 'dimacs':
                return 'e {} {}'.format(u, v)
            return ' '.join(['1'] * max(1, want['R']))
    # the literal text of an adjacency line
    return {'kthlist': '2 : 1 0', 'dimacs': 'e 1 2', 'matrix': '0 1'}[fmt]


def _ls_reference_text(text, translating):
    """The text as a reader that ends lines at '\\n' only sees it: with universal newlines a bare '\\r' is a '\\n';
    the other characters (and a '\\r' that is not translated) are ordinary characters of their line."""
    if translating:
        text = text.replace('\r\n', '\n').replace('\r', '\n')
    return ''.join('_' if ch in _LS_SET else ch for ch in text)


def _ls_put(path, text):
    with open(path, 'wb') as f:
        f.write(text.encode('utf-8'))


def _ls_read(via, gtype, fmt, text, tmp):
    """The graph the tree reads from `text` (exactly these characters, in a file or in a StringIO)."""
    from cnfgen.graphs import readGraph
    from cnfgen.clitools.graph_args import make_graph_from_spec
    import cnfgen.clitools.msg as msg
    if via == 'stringio':
        return readGraph(io.StringIO(text), gtype, fmt)
    p = os.path.join(tmp, 'lines.' + fmt if via in ('filename', 'from_file') else 'lines.txt')
    _ls_put(p, text)
    if via == 'filename':
        return readGraph(p, gtype)
    if via == 'filename-format':
        return readGraph(p, gtype, fmt)
    if via == 'from_file':
        if gtype == 'dag':
            return readGraph(p, gtype, fmt)
        return _classes()[gtype].from_file(p)
    if via == 'spec':
        msg._prefix = ''
        try:
            return make_graph_from_spec(gtype, [fmt, p])
        finally:
            msg._prefix = ''
    nl = {'filehandle': None, 'handle-newline-lf': '\n', 'handle-newline-raw': ''}[via]
    with open(p, 'r', encoding='utf-8', newline=nl) as f:
        return readGraph(f, gtype, fmt)


def _ls_write(via, G, gtype, fmt, tmp):
    """The text the tree writes for G (through a StringIO, a file it opens, or a file the harness opened)."""
    from cnfgen.graphs import writeGraph
    if via == 'stringio':
        buf = io.StringIO()
        writeGraph(G, buf, gtype, fmt)
        return buf.getvalue()
    p = os.path.join(tmp, 'written.' + fmt)
    if via in ('filename', 'from_file'):
        writeGraph(G, p, gtype)
    elif via in ('filename-format', 'spec'):
        p = os.path.join(tmp, 'written.txt')
        writeGraph(G, p, gtype, fmt)
    else:
        with open(p, 'w', encoding='utf-8') as f:
            writeGraph(G, f, gtype, fmt)
    with open(p, 'rb') as f:
        return f.read().decode('utf-8')


def run_linesep(case):
    from cnfgen.graphs import supported_graph_formats
    gtype, fmt, mode, via = case['gtype'], case['fmt'], case['mode'], case['via']
    seps, tails = case['seps'], case['tails']
    if via not in LS_VIA or not seps or len(seps) != len(tails) or any(s not in _LS_SET for s in seps):
        raise ValueError("malformed linesep case: {}".format(case))
    if gtype == 'bipartite':
        want = R.make_desc(gtype, L=case['L'], R=case['R'], edges=case['edges'])
    else:
        want = R.make_desc(gtype, n=case['n'], edges=case['edges'])
    if fmt not in supported_graph_formats()[gtype]:
        raise Violation("format {} is not offered for {} graphs".format(fmt, gtype), signature='rt-formats')
    translating = LS_VIA[via]
    tfmt = fmt if fmt in R.INHOUSE[gtype] else 'kthlist'
    # a tail is one of the kinds of LS_TAILS (computed from the graph) or a literal text
    inline = ''.join(s + (_ls_tail(t, tfmt, gtype, want) if t in LS_TAILS else t) for s, t in zip(seps, tails))
    labels = ['route:linesep', 'linesep:' + mode, 'via:' + via, '{}/{}'.format(gtype, fmt)]
    labels += [_ls_label(s) for s in seps] + ['tail:' + (t if t in LS_TAILS else 'text') for t in tails]
    labels += _shape_labels(gtype, want)
    if len(seps) > 1:
        labels.append('several-separators')
    nontrivial = len(want['edges']) >= 1 and R.desc_order(want) >= 3
    cr_splits = translating and '\r' in seps
    with _tmpdir() as tmp:
        if mode == 'name':
            name = case.get('head', 'the graph') + inline
            G = _build(gtype, want, name)
            what = "{} graph {} named {!r} written in {} format ({})".format(gtype, want, name, fmt, via)
            try:
                with _quiet():
                    text = _ls_write(via, G, gtype, fmt, tmp)
            except ValueError as e:
                raise Violation("{}: refused with ValueError({})".format(what, e), signature='linesep-write-rejected')
            if fmt in R.INHOUSE[gtype]:
                # the text written: the name sits on ONE comment line (a reader that ends lines at '\n' only)
                ref = R.ref_read(fmt, gtype, _ls_reference_text(text, False))
                if ref.status == 'invalid' or ref.graph != want:
                    raise Violation("{}: the text written, {!r}, is not the graph for the reference reader ({} {})".format(
                        what, text, ref.status, ref.graph if ref.graph is not None else ref.why),
                        signature='linesep-written-text')
            try:
                with _quiet():
                    H = _ls_read(via, gtype, fmt, text, tmp)
            except ValueError as e:
                if cr_splits:
                    # a bare '\r' in the name and a stream with universal newlines: the rest of the name is a line
                    # of its own for every reader of that stream (left open, see ASSUMPTIONS); never another graph
                    return Outcome(labels=labels + ['cr-in-name-own-file-rejected'], rejected=True, nontrivial=nontrivial)
                raise Violation("{}: the file the tree wrote, {!r}, is rejected when read back: ValueError({})".format(
                    what, text, e), signature='linesep-own-file-rejected')
            _check_same(gtype, want, H, what + ', text {!r} read back'.format(text))
            return Outcome(labels=labels + ['own-file-read-back'], nontrivial=nontrivial)
        # ---- mode 'comment': a file written by the harness
        if fmt not in R.INHOUSE[gtype]:
            raise ValueError("comment mode is for the in-house formats: {}".format(case))
        base = R.write_inhouse(fmt, gtype, want, case.get('style', 0) & ~16)
        lines = base.split('\n')[:-1]
        size_at = 0
        while size_at < len(lines) and lines[size_at][:1] in ('c', '#'):
            size_at += 1
        where = case['where']
        at = {'head': 0, 'after-size': size_at + 1, 'middle': (size_at + 1 + len(lines) + 1) // 2,
              'end': len(lines), 'end-no-newline': len(lines)}[where]
        comment = ('# note' if fmt == 'matrix' else 'c note') + inline
        lines.insert(at, comment)
        text = '\n'.join(lines) + ('' if where == 'end-no-newline' else '\n')
        ref = R.ref_read(fmt, gtype, _ls_reference_text(text, translating))
        what = "{} text {!r} read as {} ({})".format(fmt, text, gtype, via)
        labels += ['where:' + where, 'ref:' + ref.status]
        try:
            with _quiet():
                H = _ls_read(via, gtype, fmt, text, tmp)
        except ValueError:
            # rejected: allowed, the graph is not changed silently
            return Outcome(labels=labels + ['comment-rejected'], rejected=True, nontrivial=nontrivial)
        got = R.describe(H, gtype)
        if ref.status == 'invalid':
            raise Violation("{}: accepted as {} although, with lines ending at '\\n'{} only, the text is invalid ({})".format(
                what, got, " (and at a bare '\\r', universal newlines)" if translating else '', ref.why),
                signature='linesep-accepted-invalid')
        if not ref.accepts(got):
            raise Violation("{}: read as {} but, with lines ending at '\\n'{} only, the text is the graph {}: a character "
                            "inside a comment line was taken for a line end".format(
                                what, got, " (and at a bare '\\r', universal newlines)" if translating else '', ref.graph),
                            signature='linesep-silent-change')
        if gtype in ('digraph', 'dag') and H.is_dag() != R.upward(got):
            raise Violation("{}: is_dag() is {} for {}".format(what, H.is_dag(), got), signature='rt-isdag')
        if ref.graph == want:
            labels.append('comment-ignored')
        else:
            labels.append('cr-ends-comment-line')
        return Outcome(labels=labels + ['comment-accepted'], nontrivial=nontrivial)


def run_roundtrip(case):
    from cnfgen.graphs import supported_graph_formats
    if case['route'] == 'no-format':
        return run_no_format(case)
    if case['route'] == 'stream':
        return run_stream(case)
    if case['route'] == 'subprocess':
        return run_stream_subprocess(case)
    if case['route'] == 'linesep':
        return run_linesep(case)
    gtype, fmt, route = case['gtype'], case['fmt'], case['route']
    name = case.get('name')
    if gtype == 'bipartite':
        want = R.make_desc(gtype, L=case['L'], R=case['R'], edges=case['edges'])
    else:
        want = R.make_desc(gtype, n=case['n'], edges=case['edges'])
    supported = supported_graph_formats()
    cls = _classes()[gtype]
    if supported[gtype] != cls.supported_file_formats():
        raise Violation("supported_graph_formats()[{!r}] = {} but {}.supported_file_formats() = {}".format(
            gtype, supported[gtype], cls.__name__, cls.supported_file_formats()), signature='rt-formats')
    if fmt not in supported[gtype]:
        if fmt == 'dot':
            return Outcome(labels=['dot-not-available'], nontrivial=False)
        raise Violation("format {} is not offered for {} graphs: {}".format(fmt, gtype, supported[gtype]),
                        signature='rt-formats')
    G = _build(gtype, want, name)
    what = "{} graph {} written as {} via {}".format(gtype, {k: want[k] for k in want if k != 'edges'}, fmt, route)
    results = []
    try:
        with _quiet():
            _roundtrip_routes(G, gtype, fmt, route, cls, results)
    except ValueError as e:
        raise Violation("{}: writing the graph and reading the file back raised ValueError({}) after {}".format(
            what, e, [h for h, _ in results if h != 'text'] or 'nothing'), signature='rt-rejected')
    labels = ['{}/{}'.format(gtype, fmt), 'route:' + route] + _shape_labels(gtype, want)
    for how, H in results:
        if how == 'text':
            # the file the tree wrote, read by the independent reference reader
            if fmt in R.INHOUSE[gtype]:
                ref = R.ref_read(fmt, gtype, H)
                if ref.status == 'invalid' or ref.graph != want:
                    raise Violation("{}: the text written, {!r}, does not describe the graph {} for the reference reader ({} {})".format(
                        what, H, want, ref.status, ref.graph if ref.graph is not None else ref.why),
                        signature='rt-written-text')
                labels.append('written-text-' + ref.status)
            continue
        _check_same(gtype, want, H, what + ' / ' + how)
    if name is not None:
        labels.append('named')
    return Outcome(labels=labels, nontrivial=len(want['edges']) >= 1 and R.desc_order(want) >= 3)


def _pairs(gtype, n=None, L=None, Rr=None):
    if gtype == 'simple':
        return [[u, v] for u in range(1, n + 1) for v in range(u + 1, n + 1)]
    if gtype == 'dag':
        return [[u, v] for u in range(1, n + 1) for v in range(u + 1, n + 1)]
    if gtype == 'digraph':
        return [[u, v] for u in range(1, n + 1) for v in range(1, n + 1)]
    return [[u, v] for u in range(1, L + 1) for v in range(1, Rr + 1)]


def _draw_subset(draw, pairs):
    """A subset of the pairs from few draws: the AND of k random bit masks (density 2^-k, k=1..4), k=0 -> empty."""
    if not pairs:
        return []
    k = draw(st.sampled_from([1, 2, 1, 2, 3, 0, 3, 4, 1, 2]))
    if k == 0:
        return []
    top = (1 << len(pairs)) - 1
    mask = top
    for _ in range(k):
        mask &= draw(st.integers(0, top))
    return [p for i, p in enumerate(pairs) if (mask >> i) & 1]


@st.composite
def strat_graph(draw, gtype):
    """Shape of a graph: a third of the cases have 10..14 vertices."""
    if draw(st.integers(0, 2)) == 0:
        n = draw(st.integers(10, 14))
    else:
        n = draw(st.integers(0, 9))
    c = {'gtype': gtype}
    if gtype == 'bipartite':
        L = draw(st.sampled_from([0, n, n // 2, min(1, n), max(n - 1, 0)]) | st.integers(0, n))
        c['L'], c['R'] = L, n - L
        pairs = _pairs(gtype, L=L, Rr=n - L)
    else:
        c['n'] = n
        pairs = _pairs(gtype, n=n)
    chosen = _draw_subset(draw, pairs)
    c['edges'] = sorted(chosen)
    return c


_ROUTE_ST = st.sampled_from(ROUTES + ['stream', 'stream', 'stream', 'linesep', 'linesep'])
_STREAM_X = st.integers(0, 10 ** 6)
_LS_X = st.integers(0, 10 ** 9)
_LS_TEXT = st.text(alphabet=NAME_ALPHABET, min_size=1, max_size=12)
_LS_TAIL = st.sampled_from(LS_TAILS) | _LS_TEXT.map(lambda t: 'x' + t) | st.sampled_from(LS_TAILS)
_LS_PARTS = st.lists(st.tuples(st.sampled_from(LS_SEPS), _LS_TAIL), min_size=1, max_size=3)


@st.composite
def strat_roundtrip(draw):
    gtype = draw(st.sampled_from(R.TYPES))
    c = draw(strat_graph(gtype))
    c['fmt'] = draw(st.sampled_from(FORMATS[gtype]))
    c['route'] = draw(_ROUTE_ST)
    c['name'] = draw(st.sampled_from(FIXED_NAMES) | st.text(alphabet=NAME_ALPHABET, max_size=20))
    if c['route'] == 'linesep':
        # a name / a comment line with 1..3 of the characters, each followed by a text
        x = draw(_LS_X)
        parts = draw(_LS_PARTS)
        del c['name']
        c['mode'] = 'name' if x % 2 else 'comment'
        x //= 2
        fmts = list(R.INHOUSE[gtype])
        if c['mode'] == 'name':
            fmts = [f for f in fmts if f != 'matrix'] + (['gml'] if gtype == 'bipartite' else [])
        c['fmt'] = fmts[x % len(fmts)]
        x //= 4
        c['via'] = LS_VIAS[x % len(LS_VIAS)]
        x //= len(LS_VIAS)
        c['seps'] = [p[0] for p in parts]
        c['tails'] = [p[1] for p in parts]
        if c['fmt'] == 'gml' and '\r' in c['seps']:
            c['fmt'] = 'kthlist'
        if c['mode'] == 'name':
            c['head'] = draw(_LS_TEXT)
        else:
            c['where'] = LS_WHERE[x % len(LS_WHERE)]
            c['style'] = (x // 8) % 64 & (1 | 2 | 8 | 32 | (64 if x % 3 else 4))
        return c
    if c['route'] == 'stream':
        x = draw(_STREAM_X)
        if c['fmt'] == 'dot' and x % 4:
            c['fmt'] = 'kthlist'                # reading DOT costs 50 ms: a quarter of the draws
        x //= 4
        c['rstream'] = RKINDS[x % len(RKINDS)]
        x //= len(RKINDS)
        c['wstream'] = WKINDS[x % len(WKINDS)]
        x //= len(WKINDS)
        apis = RAPIS if (gtype == 'dag' and c['fmt'] == 'kthlist') else RAPIS[:3]
        c['rapi'] = apis[x % len(apis)]
        x //= len(apis)
        c['chunk'] = 1 + x % 9
    return c


def enum_linesep(tier):
    """Quick: every (type, in-house format) x separator x tail, the position of the comment and the way the text
    reaches the reader in rotation, on one graph with more than ten vertices and one small graph; thorough: the
    full product on three graphs."""
    k = j = 0
    for gtype in R.TYPES:
        graphs = _STREAM_GRAPHS[gtype][:3] if tier == 'thorough' else _STREAM_GRAPHS[gtype][:2]
        for gi, g in enumerate(graphs):
            # mode 'name': the formats that store the name (no name in a matrix file; gml stores it for bipartite graphs)
            for fmt in [f for f in R.INHOUSE[gtype] if f != 'matrix'] + (['gml'] if gtype == 'bipartite' else []):
                for sep in LS_SEPS:
                    for tail in LS_TAILS:
                        j += 1
                        for vi, via in enumerate(LS_VIAS):
                            k += 1
                            if tier == 'quick' and (j + gi) % len(LS_VIAS) != vi:
                                continue
                            if fmt == 'gml' and (tier == 'quick' and k % 3 or sep == '\r'):
                                continue
                            c = dict(g)
                            c.update(gtype=gtype, fmt=fmt, route='linesep', mode='name', via=via, seps=[sep], tails=[tail])
                            if k % 5 == 0:      # two separators in the same name
                                c.update(seps=[sep, LS_SEPS[k % len(LS_SEPS)]], tails=[tail, LS_TAILS[k % len(LS_TAILS)]])
                            yield c
            for fmt in R.INHOUSE[gtype]:
                for sep in LS_SEPS:
                    for tail in LS_TAILS:
                        for wi, where in enumerate(LS_WHERE):
                            j += 1
                            for vi, via in enumerate(LS_VIAS):
                                k += 1
                                if tier == 'quick' and ((j + gi) % len(LS_VIAS) != vi or gi and (j + wi) % 2):
                                    continue
                                c = dict(g)
                                c.update(gtype=gtype, fmt=fmt, route='linesep', mode='comment', via=via, seps=[sep],
                                         tails=[tail], where=where, style=(0, 8, 32, 1, 2)[k % 5] if fmt != 'dimacs' else (0, 8, 1)[k % 3])
                                if k % 7 == 0:
                                    c.update(seps=[sep, LS_SEPS[k % len(LS_SEPS)]], tails=[tail, LS_TAILS[k % len(LS_TAILS)]])
                                yield c


def enum_roundtrip(tier):
    """Every simple graph / dag on <=4 vertices, every digraph on <=2 (with loops) and loop-free on 3,
    every bipartite graph with sides <=2, in every format, through StringIO."""
    def cases():
        for n in range(0, 5):
            P = _pairs('simple', n=n)
            for mask in range(1 << len(P)):
                edges = [p for i, p in enumerate(P) if (mask >> i) & 1]
                yield {'gtype': 'simple', 'n': n, 'edges': edges}
                yield {'gtype': 'dag', 'n': n, 'edges': edges}
        for n in range(0, 4):
            P = _pairs('digraph', n=n)
            if n == 3:
                P = [p for p in P if p[0] != p[1]]
            for mask in range(1 << len(P)):
                yield {'gtype': 'digraph', 'n': n, 'edges': [p for i, p in enumerate(P) if (mask >> i) & 1]}
        for L in range(0, 3):
            for Rr in range(0, 3):
                P = _pairs('bipartite', L=L, Rr=Rr)
                for mask in range(1 << len(P)):
                    yield {'gtype': 'bipartite', 'L': L, 'R': Rr,
                           'edges': [p for i, p in enumerate(P) if (mask >> i) & 1]}
    for c in enum_streams(tier):
        yield c
    for c in enum_linesep(tier):
        yield c
    for gtype in ('simple', 'dag', 'digraph', 'bipartite'):
        for kind in ('stringio', 'named-none', 'named-int', 'pipe'):
            for api in ('readGraph', 'from_file'):
                yield {'gtype': gtype, 'route': 'no-format', 'stream': kind, 'api': api}
    for c in cases():
        for fmt in FORMATS[c['gtype']]:
            d = dict(c)
            d.update(fmt=fmt, route='stringio', name=None)
            yield d


# ---------------------------------------------------------------------------
# (b1) in-house readers on arbitrary text

def run_text(case):
    if 'corpus' in case:                    # an atheris campaign (thorough tier)
        if os.environ.get('VERIF_OPT_PASS') == 'child':
            return Outcome(labels=['campaign-not-repeated-under-python-O'], nontrivial=False)
        return run_fuzz(case)
    fmt, gtype, text = case['fmt'], case['gtype'], case['text']
    if R.too_big(text):
        return Outcome(labels=['skipped-too-big'], nontrivial=False)
    ref = R.ref_read(fmt, gtype, text)
    reader = how = None
    stream = case.get('stream')
    if stream:
        # the text goes to the tree through a stream that cannot seek; the oracle stays the reference reader
        skind, sapi, chunk = stream
        if sapi == 'from_file' and gtype == 'dag':
            sapi = 'readGraph'                  # from_file has no 'dag' type
        how = "through {} from a source of kind '{}'{}".format(sapi, skind, ' (chunks of {})'.format(chunk)
                                                               if skind == 'chunks' else '')

        def reader(t):
            return _read_stream(skind, sapi, gtype, fmt, t, chunk)
    try:
        ref, kind = R.judge_inhouse(fmt, gtype, text, ref, reader=reader, how=how)
    except R.Mismatch as e:
        raise Violation(str(e), signature=e.signature)
    labels = ['{}/{}'.format(fmt, gtype), 'ref:' + ref.status, 'sut:' + kind]
    if stream:
        labels += ['rstream:' + skind, 'rapi:' + sapi]
        if ref.status == 'valid' and kind == 'graph':
            labels.append('valid-accepted-from-stream')
    labels.extend(sorted(ref.feats))
    labels.extend('why:' + w for w in ref.why)
    labels.extend('mut:' + m for m in case.get('mut', []))
    if kind == 'ValueError':
        labels.append('rejected')
        if 'dag-back-edge' in ref.why:
            labels.append('dag-rejected')
    elif ref.status == 'valid':
        labels.append('valid-accepted')
        if ref.graph is not None and R.desc_order(ref.graph) >= 10:
            labels.append('>=10-vertices')
    return Outcome(labels=labels, rejected=(kind == 'ValueError'),
                   nontrivial=('size-line' in ref.feats and 'edge-token' in ref.feats))


def _maybe_stream(draw, c):
    """A quarter of the texts reach the tree through a stream that cannot seek."""
    x = draw(_STREAM_X)
    if x % 4 == 0:
        x //= 4
        c['stream'] = [RKINDS[x % len(RKINDS)], RAPIS[(x // len(RKINDS)) % 3], 1 + (x // 64) % 9]
    return c


@st.composite
def strat_text(draw):
    gtype = draw(st.sampled_from(R.TYPES))
    fmt = draw(st.sampled_from(R.INHOUSE[gtype]))
    mode = draw(st.sampled_from(['grammar', 'grammar', 'grammar', 'grammar', 'noise']))
    if mode == 'noise':
        alphabet = {'kthlist': '0123456789 :\nc\t-+', 'dimacs': '0123456789 pe\ncdg\t-',
                    'matrix': '01 \n#2\t-'}[fmt]
        text = draw(st.text(alphabet=alphabet, max_size=30))
        return _maybe_stream(draw, {'fmt': fmt, 'gtype': gtype, 'text': text, 'mut': ['noise']})
    c = draw(strat_graph(gtype))
    if gtype == 'bipartite':
        d = R.make_desc(gtype, L=c['L'], R=c['R'], edges=c['edges'])
    else:
        d = R.make_desc(gtype, n=c['n'], edges=c['edges'])
    style = draw(st.sampled_from([0, 0, 1, 2, 4, 8, 16, 32, 64]) | st.integers(0, 127))
    flip = draw(st.lists(st.integers(0, 30), max_size=4)) if (fmt == 'dimacs' and gtype == 'simple') else []
    mut = []
    extra = []
    order = R.desc_order(d)
    # a slip in the content: one more edge (src, dst), possibly one that the graph type forbids
    if fmt != 'matrix' and order > 0 and draw(st.integers(0, 4)) == 0:
        u = draw(st.integers(1, order))
        v = draw(st.integers(1, order))
        kind = draw(st.sampled_from(['loop', 'back', 'range', 'any']))
        extra = [{'loop': [u, u], 'back': [max(u, v), min(u, v)], 'any': [u, v],
                  'range': [order + draw(st.integers(1, 2)), u]}[kind]]
        mut.append('slip-' + kind)
    text = R.write_inhouse(fmt, gtype, d, style, flip=flip, extra=extra)
    names = R.MUTATORS_FOR[fmt]
    nmut = draw(st.sampled_from([0, 1, 1, 1, 2, 3]))
    ops = []
    for _ in range(nmut):
        name = draw(st.sampled_from(names))
        ops.append([name, draw(st.integers(0, 400)), draw(st.integers(0, 60))])
        mut.append(name)
    text = R.mutate(text, ops)
    return _maybe_stream(draw, {'fmt': fmt, 'gtype': gtype, 'text': text, 'mut': mut})


TEXT_SNIPPETS = [
    # from tests/test_graph_io.py and the documentation
    ('kthlist', "\n5\n1: 2 3 0\n2: 3 0\n4: 5 0\n5: 3 4 0\n"),
    ('kthlist', "\n3\n1: 2 0\n2: 3 0\n3: 1 0\n"),
    ('kthlist', "\n3\n1: 0\n2: 1 0\n3: 2 0\n"),
    ('kthlist', "\n5\n1: 2 0\n2: 1 0\n3: 0\n4: 1 0\n"),
    ('kthlist', "\n5\n1: 3 0\n2: 4 0\n"),
    ('kthlist', "c\nc This is a DAG of 5 vertices\nc\n5\n1  : 0\n2  : 0\n3  : 1  0\n4  : 2  3  0\n5  : 2  4  0\n"),
    ('kthlist', "c listing only left side vertices (bipartite graph)\n11\n1 : 7  8  9 0\n2 : 6  7  9 0\n"
                "3 : 8  9 11 0\n4 : 8 10 11 0\n5 : 6 10 11 0\n"),
    ('kthlist', "3\n3: 1 2 0\n"),
    ('kthlist', "5\n1: 4 5 0\n2: 4 5 0\n3: 4 5 0\n"),
    ('kthlist', ""), ('kthlist', "c only a comment\n"), ('kthlist', "\n\n"), ('kthlist', "0\n"),
    ('kthlist', "4\n1 : 3 0\n1 : 4 0\n"), ('kthlist', "4\n2 : 3 0\n1 : 4 0\n"),
    ('dimacs', "p edge 3 2\ne 1 2\ne 2 3\n"), ('dimacs', "c a name\n\np edge 3 2\ne 1 2\n\ne 2 3\n"),
    ('dimacs', ""), ('dimacs', "\n"), ('dimacs', "p edge 0 0\n"), ('dimacs', "p edge 2 1\ne 2 1\n"),
    ('dimacs', "p edge 2 1\ne 1 1\n"), ('dimacs', "c x\np edge 12 2\ne 1 12\ne 10 11"),
    ('matrix', "5 6\n0 1 1 1 0 0\n1 1 0 1 0 0\n0 0 1 1 0 1\n0 0 1 0 1 1\n1 0 0 0 1 1\n"),
    ('matrix', ""), ('matrix', "0 0"), ('matrix', "2 2\n1 0\n\n0 1\n"), ('matrix', "2 2\n1 0\n# x\n0 1\n"),
    ('matrix', "2 2 1 0 0 2"), ('matrix', "2 2 1 0 0"), ('matrix', "2 2 1 0 0 1 1"), ('matrix', "0 3\n"),
]


def enum_text(tier):
    for c in enum_fuzz(tier):
        yield c
    k = 0
    for fmt, text in TEXT_SNIPPETS:
        for gtype in R.TYPES:
            if fmt in R.INHOUSE[gtype]:
                yield {'fmt': fmt, 'gtype': gtype, 'text': text, 'mut': ['snippet']}
                k += 1
                yield {'fmt': fmt, 'gtype': gtype, 'text': text, 'mut': ['snippet'],
                       'stream': [RKINDS[k % len(RKINDS)], RAPIS[(k // len(RKINDS)) % 3], 1 + k % 5]}


# ---------------------------------------------------------------------------
# (b2) gml / dot documents written by the harness

def _doc_of(case):
    return {'gtype': case['gtype'], 'ids': case['ids'], 'order': case['order'], 'edges': case['edges'],
            'side': case.get('side'), 'style': case['style']}


def _gml_open_string_trap(text):
    """True when the text has a line with exactly one double quote (not at either end of the line) that is followed,
    before a line that ends with a double quote, by an empty line: the shape on which networkx's GML tokenizer
    (a heuristic for strings that span lines) evaluates line[-1] of an empty line."""
    inside = False
    for line in text.split('\n'):
        if inside:
            if line == '':
                return True
            if line[-1] == '"':
                inside = False
        elif line.count('"') == 1:
            t = line.strip()
            if t[0] != '"' and t[-1] != '"':
                inside = True
    return False


def run_nxdoc(case):
    if case.get('kind') == 'secondgen':
        return run_secondgen(case)
    from cnfgen.graphs import readGraph, supported_graph_formats
    fmt, gtype = case['fmt'], case['gtype']
    if fmt not in supported_graph_formats()[gtype]:
        return Outcome(labels=['dot-not-available'], nontrivial=False)
    doc = _doc_of(case)
    text = R.write_doc(fmt, doc)
    ops = case.get('ops', [])
    mutated = R.mutate(text, ops)
    exact = (mutated == text)
    with _quiet():
        try:
            H = readGraph(io.StringIO(mutated), gtype, fmt)
            kind = 'graph'
        except ValueError as e:
            kind, err = 'ValueError', e
        except Exception as e:      # noqa
            raise Violation("{} read as {}: {}: {} instead of a graph or ValueError, for the document {!r}".format(
                fmt, gtype, type(e).__name__, e, mutated), signature='nx-exc:' + type(e).__name__)
    labels = ['{}/{}'.format(gtype, fmt), 'sut:' + kind, 'exact' if exact else 'mutated']
    labels.extend('mut:' + o[0] for o in ops)
    if kind == 'graph':
        got = R.describe(H, gtype)
        if gtype == 'dag' and not (R.upward(got) and H.is_dag()):
            raise Violation("{} read as dag: accepted a document with an edge that does not go upward: {} from {!r}".format(
                fmt, got, mutated), signature='nx-dag-accepted')
    n = len(doc['ids'])
    if n >= 10:
        labels.append('>=10-vertices')
    if exact:
        want = R.doc_expected(doc, 'sorted')
        cands = [want]
        if gtype == 'bipartite':
            alt = R.doc_expected(doc, 'appearance')
            if alt != want:
                cands.append(alt)
                labels.append('gray-bipartite-node-order')
        if doc['order'] != sorted(doc['order']):
            labels.append('shuffled-nodes')
        if gtype == 'dag' and not R.upward(want):
            labels.append('dag-back-edge')
            if kind != 'ValueError':
                raise Violation("{} read as dag: document with a back edge accepted: {!r}".format(fmt, text),
                                signature='nx-dag-accepted')
            labels.append('dag-rejected')
            return Outcome(labels=labels, rejected=True, nontrivial=len(doc['edges']) >= 1 and n >= 3)
        if kind == 'ValueError':
            raise Violation("{} read as {}: the document {!r} (describing {}) was rejected: {}".format(
                fmt, gtype, text, want, err), signature='nx-valid-rejected')
        if got not in cands:
            raise Violation("{} read as {}: the document {!r} describes {} but the reader returned {}".format(
                fmt, gtype, text, want, got), signature='nx-wrong-graph')
        if gtype in ('digraph', 'dag') and H.is_dag() != R.upward(got):
            raise Violation("is_dag()={} for {}".format(H.is_dag(), got), signature='nx-isdag')
    if kind == 'ValueError':
        labels.append('rejected')
    return Outcome(labels=labels, rejected=(kind == 'ValueError'),
                   nontrivial=len(doc['edges']) >= 1 and n >= 3)


@st.composite
def strat_nxdoc(draw):
    if draw(_SG_SHARE) == 0:
        return draw(_SG_STRAT)           # one case in six: a second-generation round trip
    gtype = draw(st.sampled_from(R.TYPES))
    fmt = draw(st.sampled_from(['gml', 'gml', 'dot']))
    if draw(st.integers(0, 2)) == 0:
        n = draw(st.integers(10, 14))
    else:
        n = draw(st.integers(0, 9))
    idmode = draw(st.sampled_from(['1..n', '0..n-1', 'gaps', 'alpha' if fmt == 'dot' else 'gaps']))
    if idmode == '1..n':
        ids = list(range(1, n + 1))
    elif idmode == '0..n-1':
        ids = list(range(n))
    elif idmode == 'gaps':
        ids = sorted(draw(st.lists(st.integers(0, 120), min_size=n, max_size=n, unique=True)))
    else:
        ids = ['v{:02d}'.format(i) for i in sorted(draw(st.lists(st.integers(0, 99), min_size=n, max_size=n,
                                                                  unique=True)))]
    # node k is the k-th in identifier order, so vertex number k+1 is expected for non bipartite graphs
    if draw(st.booleans()):
        order = list(range(n))
    else:
        order = list(draw(st.permutations(list(range(n)))))
    side = None
    if gtype == 'bipartite':
        side = draw(st.lists(st.integers(0, 1), min_size=n, max_size=n))
        pairs = [[a, b] for a in range(n) for b in range(n) if side[a] == 0 and side[b] == 1]
    elif gtype == 'simple':
        pairs = [[a, b] for a in range(n) for b in range(a + 1, n)]
    elif gtype == 'dag':
        pairs = [[a, b] for a in range(n) for b in range(a + 1, n)]
        if draw(st.integers(0, 3)) == 0:
            pairs = [[a, b] for a in range(n) for b in range(n)]
    else:
        pairs = [[a, b] for a in range(n) for b in range(n)]
    edges = _draw_subset(draw, pairs)
    if gtype in ('simple', 'bipartite'):
        # undirected: either endpoint may be written first
        flips = draw(st.lists(st.booleans(), min_size=len(edges), max_size=len(edges)))
        edges = [[b, a] if f else [a, b] for (a, b), f in zip(edges, flips)]
    style = draw(st.sampled_from([0, 1, 2, 4, 8, 16, 32]) | st.integers(0, 63))
    ops = []
    if draw(st.integers(0, 3)) == 0:
        for _ in range(draw(st.integers(1, 3))):
            ops.append([draw(st.sampled_from(R.MUTATORS_FOR[fmt])), draw(st.integers(0, 2000)),
                        draw(st.integers(0, 60))])
    return {'fmt': fmt, 'gtype': gtype, 'ids': ids, 'order': order, 'edges': edges, 'side': side,
            'style': style, 'ops': ops}


# ---------------------------------------------------------------------------
# (b3) coverage-guided campaigns (thorough tier only)

FUZZ_RUNS = int(os.environ.get('VERIF_C14_FUZZ_RUNS', '1500000'))
_DICT = {
    'kthlist': ['" : "', '" 0\\x0a"', '"c "', '"\\x0a"', '"1"', '"2"', '"3"', '"10"', '":"', '"0"', '" "'],
    'dimacs': ['"p edge "', '"e "', '"c "', '"\\x0a"', '"1"', '"2"', '"3"', '"10"', '" "', '"edge"'],
    'matrix': ['"0 "', '"1 "', '"\\x0a"', '"#"', '"2"', '"3"', '" "'],
}


def enum_fuzz(tier):
    if tier != 'thorough':
        return
    for gtype in R.TYPES:
        for fmt in R.INHOUSE[gtype]:
            for corpus in ('empty', 'seeded'):
                yield {'fmt': fmt, 'gtype': gtype, 'corpus': corpus, 'runs': FUZZ_RUNS, 'seed': 14}


def _seed_corpus(fmt, gtype, directory):
    texts = [t for f, t in TEXT_SNIPPETS if f == fmt]
    shapes = [
        ({'n': 3, 'edges': [[1, 2], [2, 3]]}, {'L': 2, 'R': 3, 'edges': [[1, 1], [2, 3]]}),
        ({'n': 12, 'edges': [[1, 12], [2, 10], [10, 11]]}, {'L': 7, 'R': 5, 'edges': [[1, 5], [7, 1]]}),
        ({'n': 4, 'edges': []}, {'L': 0, 'R': 3, 'edges': []}),
    ]
    for nb, bip in shapes:
        d = bip if gtype == 'bipartite' else nb
        for style in (0, 1, 2):
            texts.append(R.write_inhouse(fmt, gtype, d, style))
    for i, t in enumerate(texts):
        with open(os.path.join(directory, 'seed{:03d}'.format(i)), 'w', encoding='utf-8') as f:
            f.write(t)


def run_fuzz(case):
    fmt, gtype = case['fmt'], case['gtype']
    base = os.path.join(VERIF_DIR, 'out', 'fuzz')
    os.makedirs(base, exist_ok=True)
    work = tempfile.mkdtemp(prefix='c14-{}-{}-{}-'.format(fmt, gtype, case['corpus']), dir=base)
    corpus = os.path.join(work, 'corpus')
    os.makedirs(corpus)
    if case['corpus'] == 'seeded':
        _seed_corpus(fmt, gtype, corpus)
    with open(os.path.join(work, 'dict'), 'w') as f:
        f.write('\n'.join(_DICT[fmt]) + '\n')
    failfile = os.path.join(work, 'failures.json')
    cmd = [sys.executable, '-m', 'vlib.rd_graphs', fmt, gtype, failfile, corpus,
           '-runs={}'.format(case['runs']), '-seed={}'.format(case['seed']), '-max_len=160',
           '-dict=' + os.path.join(work, 'dict'), '-artifact_prefix=' + work + os.sep,
           '-print_final_stats=1', '-verbosity=0']
    env = dict(os.environ)
    proc = subprocess.run(cmd, cwd=VERIF_DIR, env=env, stdout=subprocess.PIPE, stderr=subprocess.STDOUT,
                          universal_newlines=True, errors='replace')
    log = proc.stdout or ''
    with open(os.path.join(work, 'log.txt'), 'w') as f:
        f.write(log)
    if not os.path.exists(failfile):
        raise RuntimeError("atheris campaign produced no report (exit {}): {}".format(proc.returncode, log[-1500:]))
    with open(failfile) as f:
        rep = json.load(f)
    stats = rep['stats']
    if proc.returncode != 0 or stats['execs'] < case['runs'] // 2:
        raise RuntimeError("atheris campaign ended early (exit {}, {} executions): {}".format(
            proc.returncode, stats['execs'], log[-1500:]))
    ncorpus = len(os.listdir(corpus))
    if rep['failures']:
        worst = min(rep['failures'], key=lambda r: len(r['text']))
        paths = []
        for r in rep['failures']:
            paths.append(write_replay(PROPERTY, 'readers_text',
                                      {'fmt': fmt, 'gtype': gtype, 'text': r['text'], 'mut': ['atheris']},
                                      r['message']))
        raise Violation("atheris campaign ({} executions, corpus {}): {} [text replays: {}]".format(
            stats['execs'], ncorpus, worst['message'], ', '.join(paths)), signature='fuzz:' + worst['signature'])
    shutil.rmtree(work, ignore_errors=True)
    if case['corpus'] == 'seeded' and not (stats['graphs'] and stats['rejected'] and stats['valid']):
        raise RuntimeError("atheris campaign from a seed corpus never reached an accepted / rejected text: {}".format(stats))
    labels = ['fuzz:{}/{}'.format(fmt, gtype), 'fuzz-corpus:' + case['corpus']]
    if stats['graphs']:
        labels.append('reached-accepted-graph')
    if stats['rejected']:
        labels.append('reached-rejection')
    if stats['valid']:
        labels.append('reached-valid-text')
    return Outcome(labels=labels + ['fuzz-execs:{}:{}/{}/{}'.format(stats['execs'], fmt, gtype, case['corpus']),
                                    'fuzz-accepted:{}:{}/{}/{}'.format(stats['graphs'], fmt, gtype, case['corpus']),
                                    'fuzz-corpus-size:{}:{}/{}/{}'.format(ncorpus, fmt, gtype, case['corpus'])],
                   nontrivial=stats['graphs'] > 0)


# ---------------------------------------------------------------------------
# (b4) second and third generation: a file that the tree did NOT write (a third-party file: several header comment
# lines, comments inside the body, unusual but legal layout) is read by the tree, the object is written again by the
# tree in every format of its type, and every re-written text is read back (by the harness and by the tree); then
# once more: read, written in another format, read.  The expected graph is the one of the case, from which the
# harness rendered the first file.
#
# A case is  {'kind': 'secondgen', 'gtype', 'n' | 'L','R', 'edges', 'fmt': format of the first file,
#             'header': [payload, ...]      comment lines before the size line (see _sg_comment)
#             'body':   [[where, payload]]  comment lines after it: 'after-size' | 'middle' | 'end' | 'every'
#             'layout': [flag, ...]         see SG_FLAGS
#             'ids': '1..n' | '0..n-1' | 'gaps' , 'docstyle': int      gml / dot first files (R.write_doc)
#             'via': how the first file reaches the tree (the eight ways of LS_VIA)
#             'wvia': 'stringio' | 'filename' | 'filehandle'   how the tree re-writes,  'rvia': how it reads back
#             'chain': 0 (no third generation) | 1..3 (format A -> the format k places after A) | 'all'
#             'dot_reader': 'tree' | 'harness'}
#
# Layouts: only those that the readers of the unchanged tree accept (comment lines of a kthlist file start in
# column 0; a matrix file has '#' comments, no 'c' comments; no comment at the end of a data line).

SG_COMMENT = {'kthlist': 'c', 'dimacs': 'c', 'matrix': '#', 'gml': '#', 'dot': '//'}
SG_FIRST = {t: list(R.INHOUSE[t]) + ['gml', 'dot'] for t in R.TYPES}
SG_FLAGS = {
    'kthlist': ['double-blank', 'tab', 'crlf', 'no-final-newline', 'blank-lines', 'ws-lines', 'trailing-blank',
                'indent', 'tight-colon', 'wide-colon', 'omit-empty', 'half'],
    'dimacs': ['double-blank', 'tab', 'crlf', 'no-final-newline', 'blank-lines', 'ws-lines', 'trailing-blank',
               'indent', 'indent-comments', 'reversed'],
    'matrix': ['double-blank', 'tab', 'crlf', 'no-final-newline', 'blank-lines', 'ws-lines', 'trailing-blank',
               'indent', 'indent-comments', 'one-line', 'one-per-line'],
    'gml': ['tab', 'crlf', 'no-final-newline', 'blank-lines', 'shuffled'],
    'dot': ['tab', 'crlf', 'no-final-newline', 'blank-lines', 'shuffled'],
}
# texts that look like data of the format, for comment lines
SG_LIKE = {'kthlist': ['3', '1 : 2 0', 'p edge 3 2'], 'dimacs': ['p edge 3 2', 'e 1 2', '3'],
           'matrix': ['3 2', '1 0 1', '|2 2'], 'gml': ['node [ id 99 ]', 'graph [', ']'],
           'dot': ['3 -- 4;', '}', 'graph G {']}
SG_LAYOUTS = [[], ['double-blank'], ['tab'], ['crlf'], ['no-final-newline'], ['blank-lines'], ['tight-colon', 'one-line'],
              ['trailing-blank', 'ws-lines'], ['indent', 'indent-comments'], ['omit-empty', 'half', 'reversed', 'one-per-line', 'shuffled'],
              ['crlf', 'no-final-newline', 'tab'], ['blank-lines', 'double-blank', 'wide-colon', 'crlf', 'shuffled']]
SG_WVIAS = ['stringio', 'filename', 'filehandle']
SG_IDS = ['1..n', '0..n-1', 'gaps']


def _sg_headers(fmt):
    """Header comment lines: 0, 1, 2 or 5 of them; None is the bare comment mark, '   ' a comment of blanks, a
    payload that starts with '|' is glued to the mark ('c3', '#2 2')."""
    like = SG_LIKE[fmt]
    return [
        [],
        ['graph from a third party'],
        [None],
        ['   '],
        [like[0]],
        ['first line of the header', 'second line'],
        [like[0], like[1]],
        [None, 'name after an empty comment'],
        ['name before a comment of blanks', '  '],
        ['made by tool X', 'on some day', like[1], None, like[0]],
        [None, '   ', None, 'only the fourth line has a text', None],
        ['|glued to the mark', like[2], 'x', 'y', 'z'],
    ]


def _sg_bodies(fmt):
    like = SG_LIKE[fmt]
    return [
        [],
        [['after-size', 'comment after the size line']],
        [['middle', like[1]]],
        [['end', 'the end']],
        [['after-size', None], ['middle', 'x'], ['middle', like[0]], ['end', '   ']],
        [['every', 'again']],
    ]


def _sg_comment(fmt, payload):
    mark = SG_COMMENT[fmt]
    if payload is None:
        return mark
    line = mark + payload[1:] if payload[:1] == '|' else mark + ' ' + payload
    if fmt == 'dot' and line.endswith('\\'):
        line += ' .'            # a '//' comment that ends with a backslash goes on in the next line for some readers
    if fmt == 'gml':
        # networkx takes a line with ONE double quote for the start of a string that spans lines (the lines that
        # follow are swallowed; an empty line among them is an IndexError of its tokenizer): no double quotes
        line = line.replace('"', "'")
    return line


def _sg_doc(gtype, want, ids, shuffled, style):
    """The gml / dot document (see R.write_doc) of the graph: node k (in identifier order) is vertex k+1."""
    N = R.desc_order(want)
    idl = {'1..n': list(range(1, N + 1)), '0..n-1': list(range(N)), 'gaps': [3 * k + 2 for k in range(N)]}[ids]
    order = list(range(N))
    if gtype == 'bipartite':
        L = want['L']
        edges = [[u - 1, L + v - 1] for u, v in want['edges']]
        side = [0] * L + [1] * want['R']
    else:
        edges = [[u - 1, v - 1] for u, v in want['edges']]
        side = None
        if shuffled:
            order.reverse()
    if gtype in ('simple', 'bipartite'):
        edges = [[b, a] if i % 2 else [a, b] for i, (a, b) in enumerate(edges)]
    return {'gtype': gtype, 'ids': idl, 'order': order, 'edges': edges, 'side': side, 'style': style}


def _sg_render(case, want):
    """(text of the first file, layout flags that apply)."""
    gtype, fmt = case['gtype'], case['fmt']
    flags = [f for f in case.get('layout', []) if f in SG_FLAGS[fmt]]
    has = lambda f: f in flags
    gap = '\t' if has('tab') else ('  ' if has('double-blank') else ' ')
    head = [_sg_comment(fmt, p) for p in case.get('header', [])]
    if fmt in ('gml', 'dot'):
        doc = _sg_doc(gtype, want, case.get('ids', '1..n'), has('shuffled'), case.get('docstyle', 0))
        if R.doc_expected(doc, 'sorted') != want:
            raise RuntimeError("the harness built a document of another graph: {}".format(case))
        data = R.write_doc(fmt, doc).split('\n')[:-1]
        if has('tab'):
            data = [l.replace('  ', '\t') for l in data]
        body = data
    elif fmt == 'kthlist':
        nb = {}
        if gtype == 'bipartite':
            for u, v in want['edges']:
                nb.setdefault(u, []).append(v + want['L'])
            heads = list(range(1, want['L'] + 1))
        else:
            for u, v in want['edges']:
                nb.setdefault(v, []).append(u)
                if gtype == 'simple' and not has('half'):
                    nb.setdefault(u, []).append(v)
            heads = list(range(1, want['n'] + 1))
            if has('omit-empty'):
                heads = [h for h in heads if h in nb]
        colon = ':' if has('tight-colon') else (gap + ' :' + gap + ' ' if has('wide-colon') else gap + ':' + gap)
        body = [str(R.desc_order(want))]
        for h in heads:
            body.append(str(h) + colon + gap.join([str(x) for x in sorted(nb.get(h, []))] + ['0']))
    elif fmt == 'dimacs':
        edges = [tuple(e) for e in want['edges']]
        if has('reversed'):
            edges.reverse()
            if gtype == 'simple':
                edges = [(v, u) if i % 2 else (u, v) for i, (u, v) in enumerate(edges)]
        body = [gap.join(['p', 'edge', str(want['n']), str(len(edges))])]
        body += [gap.join(['e', str(u), str(v)]) for u, v in edges]
    else:
        L, Rr = want['L'], want['R']
        E = set(tuple(e) for e in want['edges'])
        rows = [[('1' if (i, j) in E else '0') for j in range(1, Rr + 1)] for i in range(1, L + 1)]
        if has('one-line'):
            body = [gap.join([str(L), str(Rr)] + [x for r in rows for x in r])]
        elif has('one-per-line'):
            body = [str(L), str(Rr)] + [x for r in rows for x in r]
        else:
            body = [str(L) + gap + str(Rr)] + [gap.join(r) for r in rows if r]
    if fmt not in ('gml', 'dot'):
        if has('indent'):
            body = ['  ' + l for l in body]
        if has('trailing-blank'):
            body = [l + ' ' for l in body]
        # comment lines inside the body
        ind = ' ' if has('indent-comments') else ''
        head = [ind + l for l in head]
        for where, payload in case.get('body', []):
            c = ind + _sg_comment(fmt, payload)
            if where == 'after-size':
                body.insert(1, c)
            elif where == 'middle':
                body.insert(1 + len(body) // 2, c)
            elif where == 'end':
                body.append(c)
            elif where == 'every':
                out = []
                for l in body:
                    out += [l, c]
                body = out
            else:
                raise ValueError("unknown position of a comment in case: {}".format(where))
    lines = head + body
    if has('blank-lines') or has('ws-lines'):
        out = []
        for i, l in enumerate(lines):
            out.append(l)
            if i % 2 == 0:
                out.append('   ' if (has('ws-lines') and i % 4 == 0) else '')
        lines = out
    eol = '\r\n' if has('crlf') else '\n'
    text = eol.join(lines) + ('' if has('no-final-newline') else eol)
    return text, flags


_DOT_HEAD = None


def _sg_plain_dot(text, gtype):
    """_plain_dot, for a text whose graph name may be any quoted string (several lines, escaped quotes)."""
    global _DOT_HEAD
    import re
    if _DOT_HEAD is None:
        _DOT_HEAD = re.compile(r'\A(?:strict\s+)?(di)?graph\b\s*(?:"(?:[^"\\]|\\.)*"|[^\s{"]+)?\s*\{[ \t\r]*\n', re.S)
    m = _DOT_HEAD.match(text)
    if not m:
        return None
    directed = gtype in ('digraph', 'dag')
    if bool(m.group(1)) != directed:
        return None
    return _plain_dot(('strict digraph {\n' if directed else 'strict graph {\n') + text[m.end():], gtype)


def _sg_plain_gml(text, gtype):
    """Harness-side reader for the plain GML dialect networkx writes for these graphs: 'graph [', optional
    'directed 1' and 'name "..."', then 'node [' id / label / bipartite ']' and 'edge [' source / target ']' with one
    key per line.  Vertices are numbered by increasing id (each side on its own for a bipartite graph); the labels
    must be numbers in the same order.  Returns the description, or None when the text is not in this dialect."""
    lines = [l.strip() for l in text.split('\n') if l.strip()]
    if len(lines) < 2 or lines[0] != 'graph [' or lines[-1] != ']':
        return None
    directed, nodes, edges, cur, kind = False, [], [], None, None
    for l in lines[1:-1]:
        if cur is None:
            if l == 'directed 1' and not nodes and not edges:
                directed = True
            elif l.startswith('name "') and l.endswith('"') and l.count('"') == 2 and not nodes and not edges:
                pass
            elif l in ('node [', 'edge ['):
                kind, cur = l[:4], {}
            else:
                return None
            continue
        if l == ']':
            (nodes if kind == 'node' else edges).append(cur)
            cur = None
            continue
        key, _, val = l.partition(' ')
        if key in cur:
            return None
        cur[key] = val
    if cur is not None or directed != (gtype in ('digraph', 'dag')):
        return None
    ident = {}
    for nd in nodes:
        keys = set(nd)
        if keys != ({'id', 'label', 'bipartite'} if gtype == 'bipartite' else {'id', 'label'}):
            return None
        lab = nd['label']
        if not (nd['id'].isdigit() and len(lab) > 2 and lab[0] == lab[-1] == '"' and lab[1:-1].isdigit()):
            return None
        if gtype == 'bipartite' and nd['bipartite'] not in ('0', '1'):
            return None
        if int(nd['id']) in ident:
            return None
        ident[int(nd['id'])] = (int(lab[1:-1]), nd.get('bipartite'))
    seq = sorted(ident)
    if [ident[x][0] for x in seq] != sorted(ident[x][0] for x in seq):
        return None                         # the labels are not in the order of the identifiers
    raw = []
    for e in edges:
        if set(e) != {'source', 'target'} or not (e['source'].isdigit() and e['target'].isdigit()):
            return None
        a, b = int(e['source']), int(e['target'])
        if a not in ident or b not in ident:
            return None
        raw.append((a, b))
    if gtype == 'bipartite':
        left = [x for x in seq if ident[x][1] == '0']
        right = [x for x in seq if ident[x][1] == '1']
        li = {x: i + 1 for i, x in enumerate(left)}
        ri = {x: i + 1 for i, x in enumerate(right)}
        out = []
        for a, b in raw:
            if a in ri:
                a, b = b, a
            if a not in li or b not in ri:
                return None
            out.append((li[a], ri[b]))
        if len(set(out)) != len(out):
            return None
        return R.make_desc(gtype, L=len(left), R=len(right), edges=out)
    num = {x: i + 1 for i, x in enumerate(seq)}
    out = [(num[a], num[b]) for a, b in raw]
    if len(R.canon_edges(gtype, out)) != len(out):
        return None
    return R.make_desc(gtype, n=len(seq), edges=out)


def _sg_judge(gtype, fmt, text, want, what, rvia, tmp, dot_reader, labels):
    """A text the tree wrote: (1) it is the expected graph for a reader of the harness, (2) the tree reads it back as
    the expected graph.  Returns the object read by the tree (None when a DOT text was left to the harness)."""
    shown = text if len(text) < 500 else text[:500] + '...'
    mine = None
    if fmt in R.INHOUSE[gtype]:
        ref = R.ref_read(fmt, gtype, text)
        if ref.status == 'invalid' or ref.graph != want:
            raise Violation("{}: the text written, {!r}, is not the graph {} for the reference reader ({} {})".format(
                what, shown, want, ref.status, ref.graph if ref.graph is not None else ref.why),
                signature='sg-rewritten-text')
        mine = 'reference'
    else:
        got = _sg_plain_dot(text, gtype) if fmt == 'dot' else _sg_plain_gml(text, gtype)
        if got is not None:
            if got != want:
                raise Violation("{}: the {} text written, {!r}, is the graph {} instead of {}".format(
                    what, fmt, shown, got, want), signature='sg-rewritten-text')
            mine = 'plain-' + fmt
    if mine is not None:
        labels.add('sg-harness-reader:' + mine)
    if fmt == 'dot' and dot_reader == 'harness' and mine is not None:
        return None
    try:
        with _quiet():
            H = _ls_read(rvia, gtype, fmt, text, tmp)
    except ValueError as e:
        raise Violation("{}: the file the tree wrote, {!r}, is rejected when the tree reads it back ({}): ValueError({})".format(
            what, shown, rvia, e), signature='sg-own-file-rejected')
    _check_same(gtype, want, H, "{}, text {!r} read back ({})".format(what, shown, rvia))
    if fmt == 'dot':
        labels.add('sg-dot-read-by-tree')
    return H


def run_secondgen(case):
    from cnfgen.graphs import supported_graph_formats
    gtype, fmt, via = case['gtype'], case['fmt'], case['via']
    wvia, rvia = case.get('wvia', 'stringio'), case.get('rvia', 'stringio')
    dot_reader, chain = case.get('dot_reader', 'harness'), case.get('chain', 0)
    if fmt not in SG_FIRST[gtype] or via not in LS_VIA or rvia not in LS_VIA or wvia not in SG_WVIAS:
        raise ValueError("malformed second-generation case: {}".format(case))
    if gtype == 'bipartite':
        want = R.make_desc(gtype, L=case['L'], R=case['R'], edges=case['edges'])
    else:
        want = R.make_desc(gtype, n=case['n'], edges=case['edges'])
    fmts = [f for f in FORMATS[gtype] if f in supported_graph_formats()[gtype]]
    if fmt not in fmts:
        return Outcome(labels=['dot-not-available'], nontrivial=False)
    text, flags = _sg_render(case, want)
    header = case.get('header', [])
    named = [p for p in header if p is not None and p.lstrip('|').strip()]
    labels = set(['secondgen', 'sg-first:{}/{}'.format(gtype, fmt), 'sg-header-lines:{}'.format(len(header)),
                  'sg-via:' + via, 'sg-wvia:' + wvia, 'sg-rvia:' + rvia])
    labels.update('sg-layout:' + f for f in flags)
    labels.update('sg-body-comment:' + w for w, _ in case.get('body', []) if fmt not in ('gml', 'dot'))
    if len(named) >= 2:
        labels.add('sg-header-texts>=2')
    if any(p in SG_LIKE[fmt] for p in header if p is not None):
        labels.add('sg-header-like-data')
    if any(p is None or not p.strip() for p in header):
        labels.add('sg-empty-comment')
    labels.update(_shape_labels(gtype, want))
    nontrivial = len(want['edges']) >= 1 and R.desc_order(want) >= 3
    shown = text if len(text) < 500 else text[:500] + '...'
    what = "{} file {!r} written by the harness for the {} graph {}".format(fmt, shown, gtype, want)
    gray = False
    if fmt in R.INHOUSE[gtype]:
        ref = R.ref_read(fmt, gtype, text)
        if ref.status == 'invalid' or ref.graph != want:
            raise RuntimeError("the harness rendered a file that is not the graph of the case: {} {} {!r}".format(
                ref.status, ref.why, text))
        gray = ref.status == 'gray'
        labels.add('sg-first-file-' + ref.status)
    else:
        gray = 'crlf' in flags or 'tab' in flags
    with _tmpdir() as tmp:
        # ---- first generation: the tree reads the third-party file
        try:
            with _quiet():
                G1 = _ls_read(via, gtype, fmt, text, tmp)
        except ValueError as e:
            if gray:
                # a layout the descriptions of the format leave open: refusing it is allowed
                return Outcome(labels=sorted(labels) + ['sg-first-file-rejected'], rejected=True, nontrivial=nontrivial)
            raise Violation("{}: rejected ({}): ValueError({})".format(what, via, e), signature='sg-first-rejected')
        _check_same(gtype, want, G1, what + " read by the tree ({})".format(via))
        # the layouts that were accepted (a gray one may be refused: then these labels are never produced)
        labels.update('sg-read:{}:{}'.format(fmt, f) for f in flags)
        labels.update('sg-read:{}:comment:{}'.format(fmt, w) for w, _ in case.get('body', []) if fmt not in ('gml', 'dot'))
        if header:
            labels.add('sg-read:{}:header-comments'.format(fmt))
        # ---- second generation: written again in every format of the type, each text read back
        second = {}
        for B in fmts:
            w = "{}, read ({}), then written in {} format ({})".format(what, via, B, wvia)
            try:
                with _quiet():
                    tB = _ls_write(wvia, G1, gtype, B, tmp)
            except ValueError as e:
                raise Violation("{}: ValueError({})".format(w, e), signature='sg-write-rejected')
            second[B] = _sg_judge(gtype, B, tB, want, w, rvia, tmp, dot_reader, labels)
            labels.add('sg-rewritten:{}/{}'.format(gtype, B))
        # ---- third generation: the object read from the text in format A, written in format B, read
        if chain:
            for i, A in enumerate(fmts):
                G2 = second[A]
                if G2 is None:
                    continue
                targets = [B for B in fmts if B != A] if chain == 'all' else [fmts[(i + chain) % len(fmts)]]
                for B in targets:
                    if B == A:
                        continue
                    w = "{}, read ({}), written in {} format, read ({}), then written in {} format ({})".format(
                        what, via, A, rvia, B, wvia)
                    try:
                        with _quiet():
                            tB = _ls_write(wvia, G2, gtype, B, tmp)
                    except ValueError as e:
                        raise Violation("{}: ValueError({})".format(w, e), signature='sg-write-rejected')
                    _sg_judge(gtype, B, tB, want, w, rvia, tmp, dot_reader, labels)
                    labels.add('sg-third:{}>{}'.format(A, B))
                    labels.add('sg-third-generation')
    return Outcome(labels=sorted(labels), nontrivial=nontrivial)


def enum_secondgen(tier):
    """Every graph type x format of the first file x header (0, 1, 2, 5 lines; empty, blank, data look-alikes) with
    the layouts, the comments inside the body, the graphs and the ways of reading / writing in rotation (quick) or
    every header x layout on three graphs (thorough)."""
    k = 0
    nV, nW = len(LS_VIAS), len(SG_WVIAS)
    for gtype in R.TYPES:
        graphs = _STREAM_GRAPHS[gtype]
        for fmt in SG_FIRST[gtype]:
            H, B, Y = _sg_headers(fmt), _sg_bodies(fmt), SG_LAYOUTS
            if tier == 'thorough':
                combos = [(hi, yi, gi) for gi in range(3) for yi in range(len(Y)) for hi in range(len(H))]
                if fmt == 'dot':
                    combos = [c for j, c in enumerate(combos) if j % 9 == 0]
            elif fmt == 'dot':
                combos = [(j * 5 % len(H), (j * 7 + 2) % len(Y), j % 3) for j in range(5)]
            else:
                combos = [(j % len(H), (j * 5 + j // len(H)) % len(Y), (j + j // len(H)) % len(graphs))
                          for j in range(3 * len(H))]
            for j, (hi, yi, gi) in enumerate(combos):
                k += 1
                c = dict(graphs[gi])
                c.update(kind='secondgen', gtype=gtype, fmt=fmt, header=H[hi], body=B[(j * 7 + j // len(H)) % len(B)],
                         layout=Y[yi], via=LS_VIAS[(k + hi) % nV], wvia=SG_WVIAS[(k // 2) % nW],
                         rvia=LS_VIAS[(k * 3 + 1) % nV], ids=SG_IDS[k % 3], docstyle=(0, 4, 1, 2, 6)[k % 5],
                         chain='all' if tier == 'thorough' else 1 + k % 3,
                         dot_reader='tree' if (k % 4 == 0 if tier == 'thorough' else k % 16 == 0) else 'harness')
                yield c


_SG_SHARE = st.sampled_from(range(6))
_SG_TYPE = st.sampled_from(R.TYPES)
_SG_X = st.integers(0, 10 ** 9)
_SG_PAYLOAD = st.sampled_from([None, None, '   ', 'like0', 'like1', 'like2']) | st.text(alphabet=NAME_ALPHABET, min_size=1, max_size=16)
_SG_HEADER = st.lists(_SG_PAYLOAD, max_size=5)
_SG_BODY = st.lists(st.tuples(st.sampled_from(['after-size', 'middle', 'end', 'middle', 'every']), _SG_PAYLOAD), max_size=3)
_SG_GRAPH = {t: strat_graph(t) for t in R.TYPES}


@st.composite
def strat_secondgen(draw):
    gtype = draw(_SG_TYPE)
    c = draw(_SG_GRAPH[gtype])
    x = draw(_SG_X)
    firsts = SG_FIRST[gtype]
    fmt = firsts[x % 3]                 # the two in-house formats and gml; a dot document in one case of sixteen
    x //= 3
    if x % 16 == 0:
        fmt = 'dot'
    x //= 16
    like = SG_LIKE[fmt]

    def payload(p):
        if p is not None and p[:4] == 'like':
            return like[int(p[4])]
        return p
    c.update(kind='secondgen', fmt=fmt, header=[payload(p) for p in draw(_SG_HEADER)],
             body=[[w, payload(p)] for w, p in draw(_SG_BODY)])
    mask = draw(_SG_X)
    flags = SG_FLAGS[fmt]
    # every flag with probability 1/4; half of the cases have at most one flag
    c['layout'] = [f for i, f in enumerate(flags) if (mask >> (2 * i)) & 3 == 0]
    if x % 2:
        c['layout'] = c['layout'][:1]
    x //= 2
    c['via'] = LS_VIAS[x % len(LS_VIAS)]
    x //= len(LS_VIAS)
    c['rvia'] = LS_VIAS[x % len(LS_VIAS)]
    x //= len(LS_VIAS)
    c['wvia'] = SG_WVIAS[x % 3]
    x //= 3
    c['chain'] = x % 4
    x //= 4
    c['ids'] = SG_IDS[x % 3]
    x //= 3
    c['docstyle'] = x % 8
    x //= 8
    c['dot_reader'] = 'tree' if x % 16 == 0 else 'harness'
    return c


_SG_STRAT = strat_secondgen()


# ---------------------------------------------------------------------------

_PAIRS = ['{}/{}'.format(t, f) for t in R.TYPES for f in FORMATS[t]]

SUBCHECKS = [
    SubCheck('roundtrip', run_roundtrip, strategy=strat_roundtrip, enumerate_cases=enum_roundtrip,
             quick=2500, thorough=50000,
             rule="graphs of the four types with 0..14 vertices (10..14 in a third of the cases), random edge subsets of density 0, 1/2 .. 1/16 (isolated vertices, empty sides, loops and back edges for digraphs), default or generated one-line name, every format of supported_graph_formats() for the type, five routes: StringIO with explicit format / file name with the format taken from the extension and with explicit format / open file handle / Graph.from_file (name, name+format, handle+format) / command-line graph argument '<file>', '<format> <file>', '<format> -' (standard input) and 'save <file>' / 'save <format> <file>'; plus every simple graph and dag on <=4 vertices, digraph on <=3, bipartite graph with sides <=2 in every format through StringIO; oracle: class, vertex count, left/right split, list(edges()), number_of_edges(), is_dag() all as in the original, and (StringIO route, in-house formats) the written text means the same graph to the independent reference reader; non-trivial: >=1 edge and >=3 vertices. "
                  "NO FORMAT NAMED: every graph type read with readGraph / from_file from a StringIO, from streams whose name is None or an integer and from the read end of a pipe (its name is a file descriptor) without a format: ValueError. "
                  "KIND OF STREAM (route 'stream', 3 of 8 generated cases + an enumerated sweep of every type x format x kind of source x entry point "
                  "on fixed graphs with 0..12 vertices): the graph is written by the tree into a destination that cannot seek (io.TextIOBase object "
                  "with write() only / write end of os.pipe() block or line buffered / a named pipe given by name to writeGraph / to the graph "
                  "argument `save <format> <fifo>`; StringIO as control) and the text is read by the tree from a source that cannot seek or tell "
                  "(io.TextIOBase object with read/readline only, the same handing out at most 1..9 characters per sized read, read end of "
                  "os.pipe() with the default or a 16 byte buffer, a named pipe opened by the harness or given by name) at readGraph / "
                  "<class>.from_file / the graph argument `<format> -` with sys.stdin replaced (`<format> <fifo>`) / kthlist2pebbling's cli() with "
                  "sys.stdin replaced (`-i <fifo>`); oracle: the written text is the original graph for the tree's reader on StringIO and (in-house "
                  "formats) for the reference reader, the graph read from the stream is the original graph (kthlist2pebbling: the formula is the "
                  "pebbling formula of the graph, computed by the harness). Route 'subprocess' (7 enumerated cases in the quick tier, 47 in the "
                  "thorough one): a real child process with pipes as standard input and output: readGraph(sys.stdin) + writeGraph(sys.stdout) "
                  "for every graph type, `cnfgen -q peb kthlist -`, `kthlist2pebbling -q`, `cnfgen -q domset 3 <format> -`; oracle: the text that comes "
                  "back is the graph for the reference reader / the formula is the harness-computed pebbling formula / equals the formula the "
                  "tool builds in-process from the same text in a regular file. "
                  "LINE-END LOOK-ALIKES (route 'linesep', 2 of 10 generated cases + an enumerated sweep: every graph type x in-house format x "
                  "character x kind of tail, positions and ways of reading in rotation in the quick tier, the full product in the thorough one): "
                  "one of U+2028, U+2029, form feed, vertical tab, \\x1c, \\x1d, \\x1e, NEL \\x85, bare \\r (1..3 of them) inside ONE line, each followed "
                  "by a text (words / a number or header that states another size / an adjacency-like text that would add a new legal edge if "
                  "it were a line, e.g. '12 : 11 0', 'e 3 4', a matrix row / the literal '2 : 1 0', 'e 1 2', '0 1' / a comment start / generated text). "
                  "Mode 'name': the graph (fixed graphs with 0..12 vertices or generated ones with 0..14) gets such a name and is written by the tree "
                  "in kthlist, dimacs (and gml for bipartite graphs, whose name is stored) through StringIO / a file name (format from the extension "
                  "or named) / a handle the harness opened, and read back through StringIO / file name / file name + format / handle with default, "
                  "'\\n' or '' newline mode / <class>.from_file / the graph argument `<format> <file>`: the written text is the graph for the reference "
                  "reader (lines end at \\n only) and the graph read back is the original one (a rejection is a violation, except a bare \\r "
                  "in the name read through universal newlines). Mode 'comment': a kthlist / dimacs / matrix file written by the harness's writers "
                  "(several layouts) with a comment line 'c note<char><tail>' ('#' in a matrix) at the head, after the size line, in the middle, at the "
                  "end with or without final newline, read through the same eight ways: the graph returned must be the one the reference reader "
                  "gets when lines end at \\n (and at a bare \\r exactly when the stream has universal newlines) only, or the text is rejected with "
                  "ValueError; a text invalid under that reading must be rejected",
             required_labels=_PAIRS + ['route:' + r for r in ROUTES] + ['>=10-vertices', 'isolated', 'empty-side',
                                                                       'null-graph', 'has-back-edge', 'self-loop',
                                                                       'named', 'last-vertex-isolated', 'written-text-valid',
                                                                       'route:stream', 'route:subprocess', 'route:no-format', 'nameless:pipe', 'tool:readwrite',
                                                                       'tool:cnfgen-peb', 'tool:kthlist2pebbling', 'tool:cnfgen-domset'] +
             ['rstream:' + k for k in RKINDS] + ['wstream:' + k for k in WKINDS] + ['rapi:' + a for a in RAPIS] +
             ['route:linesep', 'linesep:name', 'linesep:comment', 'own-file-read-back', 'comment-accepted', 'comment-ignored',
              'cr-ends-comment-line', 'several-separators'] + [_ls_label(s) for s in LS_SEPS] + ['via:' + v for v in LS_VIAS] +
             ['tail:' + t for t in LS_TAILS] + ['where:' + w for w in LS_WHERE]),
    SubCheck('readers_text', run_text, strategy=strat_text, enumerate_cases=enum_text,
             quick=20000, thorough=400000,
             rule="texts for kthlist (simple, digraph, dag, bipartite), dimacs (simple, digraph, dag) and matrix: written by the reference writers in several layouts from random graphs (0..14 vertices), optionally with an edge the type forbids, then 0..3 mutations (blank / whitespace / comment lines anywhere, truncation, deleted / duplicated / swapped lines, changed / deleted / inserted numbers, deleted / inserted characters, CR LF, int() spellings, indentation, continuation lines, unknown line types) or short random texts over the format's alphabet, plus the snippets of tests/ and of the documentation; oracle: independent reference reader (valid -> exactly that graph, invalid -> ValueError, gray -> either), never an exception other than ValueError, a text read as 'dag' is accepted only if all edges go upward; a quarter of the texts (and every snippet once more) reach the tree through a stream that cannot seek (the six kinds of source of the roundtrip sub-check) at readGraph / from_file / the graph argument `<format> -`, same oracle; non-trivial: the text has a size line and at least one edge token. Thorough tier only: one atheris (libFuzzer, coverage of cnfgen.graphs) campaign per in-house reader and graph type, from an empty corpus and from a seed corpus (snippets of tests/ + reference-writer output), -runs={} each, max_len 160, in a sub-process with a fresh corpus directory under out/fuzz, the same oracle applied to every input inside the target".format(FUZZ_RUNS),
             required_labels=['{}/{}'.format(f, t) for t in R.TYPES for f in R.INHOUSE[t]] +
             ['blank-line', 'comment-line', 'rejected', 'dag-rejected', 'valid-accepted', 'ref:valid', 'ref:invalid',
              'ref:gray', '>=10-vertices', 'why:vertex-out-of-range', 'why:missing-terminator', 'why:self-loop',
              'why:edge-against-bipartition', 'why:dag-back-edge', 'why:wrong-edge-count',
              'why:vertex-lines-not-increasing', 'why:too-few-entries', 'why:too-many-entries',
              'why:no-size-line', 'mut:truncate', 'valid-accepted-from-stream'] + ['rstream:' + k for k in RKINDS] +
             ['rapi:' + a for a in RAPIS[:3]]),
    SubCheck('nx_docs', run_nxdoc, strategy=strat_nxdoc, enumerate_cases=enum_secondgen,
             quick=2400, thorough=48000,
             rule="FILES NOT WRITTEN BY THE TREE. (five generated cases in six) GML and DOT documents written by the harness's own writers (0..14 nodes, identifiers 1..n / 0..n-1 / with gaps / alphabetic, node statements in order or shuffled, quoted identifiers, labels, extra attributes, comments, one-line layout, undeclared nodes, either endpoint first for undirected edges, bipartite attribute); unmutated documents must be read exactly (numbering by increasing identifier; a dag document with a back edge must be rejected); a quarter of the documents get 1..3 text mutations and must give a graph or ValueError (open finding, marked and not counted as a violation: IndexError on a mutated GML text with an empty line after a line that has exactly one double quote, see ASSUMPTIONS); non-trivial: >=1 edge and >=3 nodes. "
                  "SECOND AND THIRD GENERATION (kind 'secondgen': one generated case in six + an enumerated sweep): the harness renders a graph "
                  "(fixed graphs with 0..12 vertices, generated ones with 0..14) as a third-party file in every format valid for its type "
                  "(kthlist for the four types, dimacs for simple / digraph / dag, matrix for bipartite, and gml / dot documents with identifiers "
                  "1..n, 0..n-1 or with gaps) with 0, 1, 2 or 5 (generated: 0..5) header comment lines before the size line ('c' lines in kthlist "
                  "and dimacs, '#' lines in matrix and gml, '//' lines in dot): texts, the bare mark ('c'), a comment of blanks ('c    '), a text "
                  "glued to the mark ('cglued'), texts that look like data of the format ('c 3', 'c 1 : 2 0', 'c p edge 3 2', 'c e 1 2', '# 3 2', "
                  "'#2 2', '# node [ id 99 ]', '// 3 -- 4;'); comment lines after the size line, between the adjacency lines / edge lines / matrix "
                  "rows (one, several, after every line) and at the end; layouts restricted to those the readers of the unchanged tree accept: "
                  "two blanks or a tab between the tokens, blanks and tabs around the colon or none ('1:2 0'), CR LF line ends, no final newline, "
                  "empty and whitespace-only lines, trailing blanks, indented data lines (comment lines of a kthlist file always start in column 0; "
                  "indented comment lines in dimacs and matrix only), a kthlist file without the empty lists / with each edge of a simple graph "
                  "in one list only, dimacs edges in reverse order and either orientation, a matrix on one line or with one entry per line, "
                  "gml / dot documents with tabs, CR LF, empty lines, node statements in reverse order; no double quote in a '#' comment of a "
                  "gml document and no backslash at the end of a '//' comment of a dot document (see ASSUMPTIONS). The file is read by the tree through "
                  "StringIO + format / a file name with the format taken from the extension / file name + format / a handle opened with the "
                  "default, '\\n' or '' newline mode / <class>.from_file / the graph argument `<format> <file>`. Oracle: the object is the graph the "
                  "harness encoded (class, vertex count, left/right split, list(edges()), number_of_edges(), is_dag()); a first file that the "
                  "reference reader calls gray (tabs, CR LF, outer whitespace, blank lines in dimacs, '#' comments in a matrix) may be rejected "
                  "with ValueError instead (every layout and comment position has a label 'sg-read:<format>:<layout>' that is required to "
                  "occur, i.e. each must be accepted at least once). The object is then written by the tree in EVERY format of supported_graph_formats() for its type "
                  "(StringIO / file name with the extension of the format / a handle of the harness) and each re-written text (1) is the encoded "
                  "graph for a reader of the harness (reference readers for kthlist, dimacs, matrix; line readers of the plain dialects that "
                  "networkx / pydot write for gml and dot, skipped when the text is not in the dialect) and (2) is read back by the tree (one of the "
                  "eight ways again; a dot text by the tree in 1 case of 16, quick tier, else by the harness) as the encoded graph; a rejection "
                  "of a re-written text is a violation. Third generation: the object read from the text in format A is written in another format B "
                  "(quick: one B per A in rotation; thorough: every B) and that text is judged in the same two ways. Enumerated: every graph type "
                  "x first format x 12 headers with layouts, body comments, graphs and routes in rotation (quick, 36 cases per pair, 5 for a "
                  "dot first file) or every header x layout x 3 graphs (thorough). Non-trivial: >=1 edge and >=3 vertices",
             required_labels=['{}/{}'.format(t, f) for t in R.TYPES for f in ('gml', 'dot')] +
             ['exact', 'mutated', 'rejected', 'shuffled-nodes', '>=10-vertices', 'dag-rejected', 'secondgen',
              'sg-third-generation', 'sg-header-texts>=2', 'sg-header-like-data', 'sg-empty-comment', 'sg-dot-read-by-tree',
              'sg-harness-reader:reference', 'sg-harness-reader:plain-gml', 'sg-harness-reader:plain-dot',
              'sg-first-file-valid', 'sg-first-file-gray'] +
             ['sg-first:{}/{}'.format(t, f) for t in R.TYPES for f in SG_FIRST[t]] +
             ['sg-rewritten:{}/{}'.format(t, f) for t in R.TYPES for f in FORMATS[t]] +
             ['sg-header-lines:{}'.format(i) for i in (0, 1, 2, 5)] +
             ['sg-layout:' + f for f in sorted(set(x for v in SG_FLAGS.values() for x in v))] +
             ['sg-body-comment:' + w for w in ('after-size', 'middle', 'end', 'every')] +
             ['sg-read:{}:{}'.format(f, x) for f in sorted(SG_FLAGS) for x in SG_FLAGS[f] + ['header-comments']] +
             ['sg-read:{}:comment:{}'.format(f, w) for f in ('kthlist', 'dimacs', 'matrix') for w in ('after-size', 'middle', 'end', 'every')] +
             ['sg-via:' + v for v in LS_VIAS] + ['sg-rvia:' + v for v in LS_VIAS] + ['sg-wvia:' + v for v in SG_WVIAS]),
]


# ---------------------------------------------------------------------------
# large graphs (size thresholds of buffers / block writers and readers); added after a seeded DIMACS
# formula writer change that only misbehaved above 4096 lines

def run_roundtrip_large(case):
    from cnfgen.graphs import Graph, DirectedGraph, BipartiteGraph, readGraph, writeGraph
    gtype, fmt, n, m = case['gtype'], case['fmt'], case['n'], case['m']
    x = case['salt']
    edges = set()
    if gtype == 'bipartite':
        L, Rr = n, n + 7
        G = BipartiteGraph(L, Rr)
        while len(edges) < min(m, L * Rr):
            x = (x * 1103515245 + 12345) & 0x7FFFFFFF
            u = x % L + 1
            v = (x >> 11) % Rr + 1
            if (u, v) not in edges:
                edges.add((u, v))
                G.add_edge(u, v)
    else:
        G = Graph(n) if gtype == 'simple' else DirectedGraph(n)
        while len(edges) < m:
            x = (x * 1103515245 + 12345) & 0x7FFFFFFF
            u = x % n + 1
            v = (x >> 11) % n + 1
            if u == v:
                continue
            if gtype != 'digraph':
                u, v = min(u, v), max(u, v)
            if (u, v) not in edges:
                edges.add((u, v))
                G.add_edge(u, v)
    want = sorted(edges)
    what = "{} graph with {} vertices and {} edges in {} format".format(gtype, G.number_of_vertices(), len(want), fmt)
    buf = io.StringIO()
    writeGraph(G, buf, gtype, fmt)
    text = buf.getvalue()
    H = readGraph(io.StringIO(text), gtype, fmt)
    if H.number_of_vertices() != G.number_of_vertices() or sorted(H.edges()) != want:
        raise Violation("{}: the round trip changes the graph ({} vertices, {} edges read back)".format(what, H.number_of_vertices(), H.number_of_edges()))
    if gtype == 'bipartite' and (H.left_order(), H.right_order()) != (G.left_order(), G.right_order()):
        raise Violation("{}: the sides change to ({},{})".format(what, H.left_order(), H.right_order()))
    if fmt in ('kthlist', 'dimacs', 'matrix'):
        # the written text, read by the reference reader, is the graph
        if fmt == 'matrix':
            rows = [l.split() for l in text.splitlines() if l.strip() and not l.startswith('#')]
            got = sorted((i, j + 1) for i, r in enumerate(rows[1:], start=1) for j, b in enumerate(r) if b == '1')
            if got != want or rows[0] != [str(G.left_order()), str(G.right_order())]:
                raise Violation("{}: the matrix text does not describe the graph".format(what))
        elif fmt == 'dimacs':
            es = sorted(tuple(int(t) for t in l.split()[1:3]) for l in text.splitlines() if l.startswith('e'))
            if gtype != 'digraph':
                es = sorted((min(a, b), max(a, b)) for a, b in es)
            if es != want:
                raise Violation("{}: the DIMACS text does not describe the graph ({} edge lines)".format(what, len(es)))
    d = tempfile.mkdtemp(prefix='c14L_')
    try:
        path = os.path.join(d, 'g.' + fmt)
        writeGraph(G, path, gtype, fmt)
        K = readGraph(path, gtype, fmt)
        if K.number_of_vertices() != G.number_of_vertices() or sorted(K.edges()) != want:
            raise Violation("{}: the round trip through a file changes the graph".format(what))
    finally:
        shutil.rmtree(d, ignore_errors=True)
    labels = [gtype, fmt, 'edges>=4096' if len(want) >= 4096 else 'edges<4096']
    if case.get('stream'):
        # the same through streams that cannot seek: a text longer than the buffers of a pipe
        rk, wk, api = case['stream']
        try:
            text2 = _write_stream(wk, G, gtype, fmt)
            K = readGraph(io.StringIO(text2), gtype, fmt)
            if K.number_of_vertices() != G.number_of_vertices() or sorted(K.edges()) != want:
                raise Violation("{}: written into a destination of kind '{}' ({} characters) the text is another graph "
                                "({} vertices, {} edges)".format(what, wk, len(text2), K.number_of_vertices(),
                                                                 K.number_of_edges()), signature='stream-large-write')
            K = _read_stream(rk, api, gtype, fmt, text2, 5)
        except ValueError as e:
            raise Violation("{}: written to a destination of kind '{}' and read from a source of kind '{}' through {}: "
                            "{}({})".format(what, wk, rk, api, type(e).__name__, e), signature='stream-large-rejected')
        if K.number_of_vertices() != G.number_of_vertices() or sorted(K.edges()) != want:
            raise Violation("{}: read from a source of kind '{}' through {} ({} characters) it is another graph "
                            "({} vertices, {} edges)".format(what, rk, api, len(text2), K.number_of_vertices(),
                                                             K.number_of_edges()), signature='stream-large-read')
        labels += ['rstream:' + rk, 'wstream:' + wk, 'stream-text>64KiB' if len(text2) > 65536 else 'stream-text<=64KiB']
    return Outcome(labels=labels, nontrivial=True)


def enum_roundtrip_large(tier):
    i = 0
    sizes = [(150, 4097), (300, 4096)] if tier == 'quick' else [(150, 4095), (150, 4096), (150, 4097), (300, 8193), (400, 20000)]
    for gtype, fmts in (('simple', ['kthlist', 'dimacs', 'gml']), ('digraph', ['kthlist', 'dimacs', 'gml']),
                        ('dag', ['kthlist', 'dimacs']), ('bipartite', ['kthlist', 'matrix', 'gml'])):
        for fmt in fmts:
            for n, m in sizes:
                i += 1
                if fmt == 'gml' and m > 9000:
                    continue
                yield {'gtype': gtype, 'fmt': fmt, 'n': n if gtype != 'bipartite' else max(70, n // 2), 'm': m, 'salt': i}
    # streams that cannot seek, with texts longer than 64 KiB (the capacity of a pipe)
    combos = [(rk, wk) for rk in RKINDS for wk in WKINDS[1:]]
    shapes = [('simple', 'dimacs', 300, 12000), ('digraph', 'kthlist', 300, 20000), ('bipartite', 'matrix', 200, 9000),
              ('dag', 'dimacs', 400, 12000), ('simple', 'kthlist', 350, 9000), ('bipartite', 'kthlist', 220, 16000),
              ('digraph', 'gml', 200, 3000)]
    for j, (rk, wk) in enumerate(combos):
        if tier == 'quick' and j % 4 != 1:
            continue
        gtype, fmt, n, m = shapes[j % len(shapes)]
        yield {'gtype': gtype, 'fmt': fmt, 'n': n, 'm': m, 'salt': 100 + j,
               'stream': [rk, wk, RAPIS[j % 3] if gtype != 'dag' else 'readGraph']}


SUBCHECKS.append(
    SubCheck('roundtrip_large', run_roundtrip_large, enumerate_cases=enum_roundtrip_large,
             rule="pseudo-random simple/directed/acyclic/bipartite graphs with 150-400 vertices and 4095..20000 edges written and read back (StringIO and file) in kthlist, dimacs, matrix and gml; oracle: same vertices, sides and edges; in-house formats also parsed by the harness; plus 8 (quick) / 30 (thorough) graphs with 200-400 vertices and 3000..20000 edges written into each kind of destination that cannot seek and read from each kind of source that cannot seek (texts longer than the 64 KiB a pipe holds), same oracle; non-trivial: all",
             required_labels=['edges>=4096', 'simple', 'bipartite', 'dag', 'stream-text>64KiB']))


# ---------------------------------------------------------------------------
# (c) the file describes the object as it is when it is written: objects with a history (inspected,
# written, then edited, then written again) and objects that represent their graph in another way
# (subclasses, special constructors, conversions from networkx, command line constructions).
#
# A case is   {'gtype', 'ctor': [how, args...], 'n' | 'L','R', 'edges', 'steps': [...], 'route', 'rseed'}
# The steps are symbolic (indices into the sorted list of present edges / absent legal pairs of the
# harness-side model at that moment), so that a case is legal by construction whatever graph a random
# construction delivers:
#   ['look', kind]            inspection (edges() iterated, to_networkx, neighbour lists, has_edge ...)
#   ['write', fmt, route]     write + read back now; the file must be the model as it is now
#   ['add', j]                add_edge of the j-th absent legal pair
#   ['add-present', i]        add_edge of the i-th present edge again (odd i, simple graph: other orientation)
#   ['remove', i, flip]       remove_edge of the i-th present edge              (simple graphs only)
#   ['rewire', i, j, flip]    remove_edge of the i-th edge, add_edge of the j-th absent pair: same count
#   ['grow', k]               update_vertex_number(n + k)                         (simple graphs only)
#   ['grow-attach', k, j]     grow by k, then join the last new vertex with the j-th old vertex
#   ['batch', j, cnt]         add_edges_from of cnt absent pairs from the j-th on
#   ['split', k, seed]        split_random_edges(G, k, seed)                      (simple graphs only)
#   ['addrandom', k, seed]    add_random_missing_edges(G, k, seed)                (simple, bipartite)
# After split / addrandom (random edits made by the library) the model is read again from the object,
# through has_edge on every pair of vertices.

OBJ_MAXN = 20
OBJ_LOOKS = {
    'simple': ['edges', 'edges-twice', 'edges-len', 'nx', 'nx-mutate', 'nbrs', 'has', 'deg', 'count'],
    'digraph': ['edges', 'edges-twice', 'edges-len', 'nx', 'nx-mutate', 'nbrs', 'has', 'deg', 'count',
                'succ-order', 'isdag'],
    'bipartite': ['edges', 'edges-twice', 'edges-len', 'nx', 'nx-mutate', 'nbrs', 'nbrs-mutate', 'has', 'deg',
                  'count'],
}
OBJ_LOOKS['dag'] = OBJ_LOOKS['digraph']
OBJ_ROUTES = ['stringio', 'filename', 'filehandle']


class _ObjModel(object):
    """Harness-side model of one graph object: the vertex count(s) and a Python set of edges."""

    def __init__(self, gtype, n=None, L=None, Rr=None, edges=()):
        self.gtype = gtype
        self.n, self.L, self.R = n, L, Rr
        self.E = set()
        for u, v in edges:
            if not self.legal(u, v):
                raise ValueError("case lists the pair {} that is not legal for {}".format((u, v), self.sizes()))
            self.E.add(self.norm(u, v))

    def sizes(self):
        return "{} graph ({},{})".format(self.gtype, self.L, self.R) if self.gtype == 'bipartite' \
            else "{} graph ({})".format(self.gtype, self.n)

    def norm(self, u, v):
        return (min(u, v), max(u, v)) if self.gtype == 'simple' else (u, v)

    def legal(self, u, v):
        if self.gtype == 'bipartite':
            return 1 <= u <= self.L and 1 <= v <= self.R
        if not (1 <= u <= self.n and 1 <= v <= self.n):
            return False
        if self.gtype == 'simple':
            return u != v
        if self.gtype == 'dag':
            return u < v
        return True

    def order(self):
        return self.L + self.R if self.gtype == 'bipartite' else self.n

    def pairs(self):
        return [tuple(p) for p in _pairs(self.gtype, n=self.n, L=self.L, Rr=self.R)]

    def present(self):
        return sorted(self.E)

    def absent(self):
        return [p for p in self.pairs() if p not in self.E]

    def desc(self):
        if self.gtype == 'bipartite':
            return R.make_desc(self.gtype, L=self.L, R=self.R, edges=sorted(self.E))
        return R.make_desc(self.gtype, n=self.n, edges=sorted(self.E))

    def resync(self, G):
        """After an edit made by the library itself: the vertex counts and has_edge on every pair."""
        if self.gtype == 'bipartite':
            self.L, self.R = G.left_order(), G.right_order()
        else:
            self.n = G.number_of_vertices()
        self.E = set(p for p in self.pairs() if G.has_edge(p[0], p[1]))


def _gm_model(M):
    from vlib import graphmodel as gm
    clsname = {'simple': 'Graph', 'digraph': 'DirectedGraph', 'dag': 'DirectedGraph',
               'bipartite': 'BipartiteGraph'}[M.gtype]
    X = gm.Model(clsname, n=M.n, L=M.L, R=M.R)
    X.E = set(M.E)
    return gm, X


def _nx_generated(gtype, name, args):
    """A graph made by a networkx generator and the graph it is under the relabelling 'sorted labels -> 1..n'
    (for the bipartite generator: each side in increasing order)."""
    import networkx
    if name == 'complete_bipartite_graph':
        a, b = args
        return (networkx.complete_bipartite_graph(a, b),
                _ObjModel(gtype, L=a, Rr=b, edges=[(u, v) for u in range(1, a + 1) for v in range(1, b + 1)]))
    n = args[0]
    directed = gtype in ('digraph', 'dag')
    using = networkx.DiGraph if directed else networkx.Graph
    if name == 'complete_graph':
        X = networkx.complete_graph(n, create_using=using)
        if directed:
            edges = [(u, v) for u in range(1, n + 1) for v in range(1, n + 1) if u != v]
        else:
            edges = [(u, v) for u in range(1, n + 1) for v in range(u + 1, n + 1)]
    elif name == 'path_graph':
        X = networkx.path_graph(n, create_using=using)
        edges = [(u, u + 1) for u in range(1, n)]
    elif name == 'cycle_graph':
        X = networkx.cycle_graph(n, create_using=using)
        edges = [(u, u + 1) for u in range(1, n)] + ([(n, 1)] if directed else [(1, n)])
        if n < 3:
            raise ValueError("cycle_graph needs n >= 3 in a case")
    elif name == 'star_graph':
        X = networkx.star_graph(n - 1)          # centre 0, leaves 1..n-1
        edges = [(1, v) for v in range(2, n + 1)]
    elif name == 'grid_2d_graph':
        a, b = args
        X = networkx.grid_2d_graph(a, b)        # labels (i, j), sorted lexicographically
        num = lambda i, j: i * b + j + 1
        edges = [(num(i, j), num(i + 1, j)) for i in range(a - 1) for j in range(b)]
        edges += [(num(i, j), num(i, j + 1)) for i in range(a) for j in range(b - 1)]
        n = a * b
    elif name == 'string_labels':
        # labels that are strings of digits: numbered as numbers ('2' before '10')
        X = networkx.DiGraph() if directed else networkx.Graph()
        X.add_nodes_from(str(3 * i) for i in range(n, 0, -1))
        edges = [(u, u + 1) for u in range(1, n)]
        X.add_edges_from((str(3 * u), str(3 * v)) for u, v in edges)
    else:
        raise ValueError("unknown networkx generator in case: {}".format(name))
    return X, _ObjModel(gtype, n=n, edges=edges)


def _obj_construct(case, tmp):
    """Returns (G, M, independent, notes): the object built as case['ctor'] says and the model of the graph
    it has to be; independent=False when the construction is random (or left to C15) and the model was read
    from the object.  notes: list of (label)."""
    import random
    import cnfgen.graphs as CG
    from cnfgen.graphs import readGraph
    gtype = case['gtype']
    cls = _classes()[gtype]
    ctor = case['ctor']
    how = ctor[0]
    notes = []

    def declared():
        if gtype == 'bipartite':
            return _ObjModel(gtype, L=case['L'], Rr=case['R'], edges=case['edges'])
        return _ObjModel(gtype, n=case['n'], edges=case['edges'])

    def fresh():
        return cls(case['L'], case['R']) if gtype == 'bipartite' else cls(case['n'])

    def from_object(G):
        M = _ObjModel(gtype, n=0, L=0, Rr=0)
        M.resync(G)
        notes.append('model-read-from-object')
        return M

    if how == 'add_edge':
        M = declared()
        G = fresh()
        for u, v in case['edges']:              # in the order of the case
            G.add_edge(u, v)
        return G, M, True, notes
    if how == 'add_edges_from':
        M = declared()
        G = fresh()
        G.add_edges_from([tuple(e) for e in case['edges']])
        return G, M, True, notes
    if how in ('from_networkx', 'normalize'):
        M = declared()
        gm, X = _gm_model(M)
        Y = gm.foreign_networkx(X, mul=ctor[1], add=ctor[2], rev=bool(ctor[3]))
        G = cls.from_networkx(Y) if how == 'from_networkx' else cls.normalize(Y)
        return G, M, True, notes
    if how == 'read':
        M = declared()
        fmt, style = ctor[1], ctor[2]
        d = M.desc()
        if fmt not in CG.supported_graph_formats()[gtype]:
            fmt = 'kthlist'
        if fmt in R.INHOUSE[gtype]:
            text = R.write_inhouse(fmt, gtype, d, style & 41)
            if R.ref_read(fmt, gtype, text).status != 'valid':
                text = R.write_inhouse(fmt, gtype, d, 0)
            if R.ref_read(fmt, gtype, text).status != 'valid':
                # a graph the description of the format leaves open (a loop ...): built directly
                notes.append('read-fallback')
                G = fresh()
                for u, v in d['edges']:
                    G.add_edge(u, v)
                return G, M, True, notes
        else:
            N = M.order()
            off = M.L if gtype == 'bipartite' else 0
            doc = {'gtype': gtype, 'ids': list(range(1, N + 1)), 'order': list(range(N)),
                   'edges': [[u - 1, v + off - 1] for u, v in d['edges']],
                   'side': ([0] * M.L + [1] * M.R) if gtype == 'bipartite' else None, 'style': style & 3}
            text = R.write_doc(fmt, doc)
        with _quiet():
            G = readGraph(io.StringIO(text), gtype, fmt)
        return G, M, True, notes
    if how == 'nxgen':
        Y, M = _nx_generated(gtype, ctor[1], ctor[2:])
        G = cls.normalize(Y) if case.get('rseed', 0) % 2 else cls.from_networkx(Y)
        return G, M, True, notes
    if how == 'special':
        name, args = ctor[1], ctor[2:]
        if name == 'complete_graph':
            n = args[0]
            return (CG.Graph.complete_graph(n),
                    _ObjModel(gtype, n=n, edges=[(u, v) for u in range(1, n + 1) for v in range(u + 1, n + 1)]),
                    True, notes)
        if name == 'empty_graph':
            return CG.Graph.empty_graph(args[0]), _ObjModel(gtype, n=args[0]), True, notes
        if name == 'null_graph':
            return CG.Graph.null_graph(), _ObjModel(gtype, n=0), True, notes
        if name == 'star_graph':
            k = args[0]
            return (CG.Graph.star_graph(k), _ObjModel(gtype, n=k + 1, edges=[(u, k + 1) for u in range(1, k + 1)]),
                    True, notes)
        if name == 'CompleteBipartiteGraph':
            a, b = args
            return (CG.CompleteBipartiteGraph(a, b),
                    _ObjModel(gtype, L=a, Rr=b, edges=[(u, v) for u in range(1, a + 1) for v in range(1, b + 1)]),
                    True, notes)
        if name == 'BipartiteGraph':
            a, b = args
            return CG.BipartiteGraph(a, b), _ObjModel(gtype, L=a, Rr=b), True, notes
        if name == 'dag_path':
            k = args[0]
            return CG.dag_path(k), _ObjModel(gtype, n=k + 1, edges=[(u, u + 1) for u in range(1, k + 1)]), True, notes
        if name == 'bipartite_shift':
            a, b, pattern = args[0], args[1], list(args[2:])
            edges = set((u, 1 + (u - 1 + o) % b) for u in range(1, a + 1) for o in pattern)
            return CG.bipartite_shift(a, b, pattern), _ObjModel(gtype, L=a, Rr=b, edges=sorted(edges)), True, notes
        if name in ('dag_pyramid', 'dag_complete_binary_tree'):
            G = getattr(CG, name)(args[0])
            return G, from_object(G), False, notes
        if name in ('bipartite_random_left_regular', 'bipartite_random_m_edges', 'bipartite_random_regular',
                    'bipartite_random'):
            a, b, c = args
            if name == 'bipartite_random':
                c = c / 100.0
            G = getattr(CG, name)(a, b, c, seed=case.get('rseed', 0))
            return G, from_object(G), False, notes
        raise ValueError("unknown special constructor in case: {}".format(name))
    if how == 'cli':
        from cnfgen.clitools.graph_args import make_graph_from_spec
        spec = [str(t) for t in ctor[1:]]
        saved = None
        if case.get('cli_save'):
            sfmt, explicit = case['cli_save']
            if explicit:
                saved = os.path.join(tmp, 'saved_by_cli')
                spec += ['save', sfmt, saved]
            else:
                saved = os.path.join(tmp, 'saved_by_cli.' + sfmt)
                spec += ['save', saved]
            notes.append('cli-save:' + sfmt)
        random.seed(case.get('rseed', 0))
        with _quiet():
            G = make_graph_from_spec(gtype, spec)
        independent = False
        cname, nums = spec[0], []
        for t in spec[1:]:
            try:
                nums.append(int(t))
            except ValueError:
                break
        plain = (len(nums) == len(ctor) - 2)         # no option after the construction
        if plain and gtype == 'simple' and cname == 'complete' and len(nums) == 1:
            n = nums[0]
            M = _ObjModel(gtype, n=n, edges=[(u, v) for u in range(1, n + 1) for v in range(u + 1, n + 1)])
            independent = True
        elif plain and gtype == 'simple' and cname == 'empty':
            M = _ObjModel(gtype, n=nums[0])
            independent = True
        elif plain and gtype == 'bipartite' and cname in ('complete', 'empty'):
            a, b = nums
            M = _ObjModel(gtype, L=a, Rr=b, edges=[(u, v) for u in range(1, a + 1) for v in range(1, b + 1)]
                          if cname == 'complete' else [])
            independent = True
        elif plain and cname == 'path':
            k = nums[0]
            M = _ObjModel(gtype, n=k + 1, edges=[(u, u + 1) for u in range(1, k + 1)])
            independent = True
        else:
            M = from_object(G)
        if saved is not None:
            notes.append(('saved-file', saved, sfmt))
        return G, M, independent, notes
    raise ValueError("unknown constructor in case: {}".format(how))


def _obj_look(G, gtype, kind, M, keep):
    N = M.order()
    if kind == 'edges':
        keep.append(list(G.edges()))
    elif kind == 'edges-twice':
        view = G.edges()
        keep.append(view)
        for _ in view:
            pass
        keep.append([e for e in view])
    elif kind == 'edges-len':
        keep.append(len(G.edges()))
    elif kind == 'nx':
        keep.append(G.to_networkx())
    elif kind == 'nx-mutate':
        # the caller owns the networkx graph it gets: changing it must not change G
        X = G.to_networkx()
        X.add_node(N + 7)
        if N >= 1:
            X.add_edge(1, N + 7)
        if X.number_of_edges() > 0:
            X.remove_edge(*list(X.edges())[0])
        keep.append(X)
    elif kind in ('nbrs', 'nbrs-mutate', 'deg'):
        for u in range(1, (M.L if gtype == 'bipartite' else N) + 1):
            if gtype == 'simple':
                got = [list(G.neighbors(u))] if kind != 'deg' else [G.degree(u)]
            elif gtype == 'bipartite':
                got = [G.right_neighbors(u)] if kind != 'deg' else [G.right_degree(u)]
            else:
                got = [list(G.predecessors(u)), list(G.successors(u))] if kind != 'deg' else \
                    [G.in_degree(u), G.out_degree(u)]
            if kind == 'nbrs-mutate':
                for l in got:
                    if isinstance(l, list):     # a list handed out to the caller
                        l.append(1)
                        l.reverse()
            keep.append(got)
        if gtype == 'bipartite':
            for v in range(1, M.R + 1):
                got = G.left_neighbors(v) if kind != 'deg' else G.left_degree(v)
                if kind == 'nbrs-mutate' and isinstance(got, list):
                    got.append(1)
                    got.reverse()
                keep.append(got)
    elif kind == 'has':
        keep.append([G.has_edge(u, v) for u, v in M.pairs()])
    elif kind == 'count':
        keep.append((G.number_of_vertices(), G.number_of_edges(), len(G)))
    elif kind == 'succ-order':
        keep.append(list(G.edges_ordered_by_successors()))
    elif kind == 'isdag':
        keep.append(G.is_dag())
    else:
        raise ValueError("unknown inspection in case: {}".format(kind))


def _plain_dot(text, gtype):
    """Harness-side reader for the plain DOT dialect that pydot writes for these graphs: a header line
    '[strict] graph|digraph [name] {', one statement per line, 'ID [attrs];' or 'ID -- ID [attrs];'
    ('->' when directed) with decimal identifiers, and a closing '}'.  Vertices are numbered by increasing
    identifier (each side on its own for a bipartite graph, side = attribute bipartite=0|1).
    Returns the description of the graph, or None when the text is not in this dialect."""
    import re
    lines = [l.strip() for l in text.split('\n') if l.strip()]
    if len(lines) < 2 or lines[-1] != '}':
        return None
    directed = gtype in ('digraph', 'dag')
    if not re.match(r'(strict\s+)?' + ('digraph' if directed else 'graph') + r'\b[^{};]*\{\Z', lines[0]):
        return None
    node = re.compile(r'(\d+)(?:\s*\[bipartite=([01])\])?;\Z')
    edge = re.compile(r'(\d+)\s*' + ('->' if directed else '--') + r'\s*(\d+);\Z')
    ids, side, raw = [], {}, []
    for l in lines[1:-1]:
        m = node.match(l)
        if m:
            x = int(m.group(1))
            if x in side:
                return None
            ids.append(x)
            side[x] = m.group(2)
            continue
        m = edge.match(l)
        if not m:
            return None
        raw.append((int(m.group(1)), int(m.group(2))))
    if any(a not in side or b not in side for a, b in raw):
        return None
    if gtype == 'bipartite':
        if any(side[x] is None for x in ids):
            return None
        left = sorted(x for x in ids if side[x] == '0')
        right = sorted(x for x in ids if side[x] == '1')
        li = {x: i + 1 for i, x in enumerate(left)}
        ri = {x: i + 1 for i, x in enumerate(right)}
        edges = []
        for a, b in raw:
            if side[a] == '1':
                a, b = b, a
            if side[a] != '0' or side[b] != '1':
                return None
            edges.append((li[a], ri[b]))
        if len(set(edges)) != len(edges):
            return None
        return R.make_desc(gtype, L=len(left), R=len(right), edges=edges)
    num = {x: i + 1 for i, x in enumerate(sorted(ids))}
    edges = [(num[a], num[b]) for a, b in raw]
    if len(R.canon_edges(gtype, edges)) != len(edges):      # an edge written twice
        return None
    return R.make_desc(gtype, n=len(ids), edges=edges)


def _obj_write_check(G, gtype, fmt, route, M, what, text_given=None, dot_reader='tree'):
    """Writes G (or takes the text of a file already written) and reads it back: the model, exactly.
    A DOT text is read by the tree (pydot, ~50 ms) or, dot_reader='harness', by _plain_dot when it applies."""
    from cnfgen.graphs import readGraph, writeGraph
    want = M.desc()
    labels = []
    H = None
    try:
        with _quiet():
            if text_given is not None:
                text = text_given
            elif route == 'stringio':
                buf = io.StringIO()
                writeGraph(G, buf, gtype, fmt)
                text = buf.getvalue()
            else:
                with _tmpdir() as tmp:
                    p = os.path.join(tmp, 'object.' + fmt)
                    if route == 'filename':
                        writeGraph(G, p, gtype)             # format from the extension
                    else:
                        with open(p, 'w', encoding='utf-8') as f:
                            writeGraph(G, f, gtype, fmt)
                    with open(p, 'r', encoding='utf-8') as f:
                        text = f.read()
                    if not (fmt == 'dot' and dot_reader == 'harness'):
                        if route == 'filename':
                            H = readGraph(p, gtype)
                        else:
                            with open(p, 'r', encoding='utf-8') as f:
                                H = readGraph(f, gtype, fmt)
            if fmt == 'dot' and dot_reader == 'harness':
                got = _plain_dot(text, gtype)
                if got is not None:
                    labels.append('dot-read-by-harness')
                    if got != want:
                        raise Violation("{}: the DOT text written, {!r}, is the graph {} instead of {}".format(
                            what, text, got, want), signature='obj-written-text')
                    return labels
            if H is None:
                H = readGraph(io.StringIO(text), gtype, fmt)
    except ValueError as e:
        raise Violation("{}: writing the object and reading the file back raised ValueError({})".format(what, e),
                        signature='obj-rejected')
    if fmt == 'dot':
        labels.append('dot-read-by-tree')
    if fmt in R.INHOUSE[gtype]:
        ref = R.ref_read(fmt, gtype, text)
        if ref.status == 'invalid' or ref.graph != want:
            raise Violation("{}: the text written, {!r}, is not the graph {} for the reference reader ({} {})".format(
                what, text, want, ref.status, ref.graph if ref.graph is not None else ref.why),
                signature='obj-written-text')
        labels.append('written-text-' + ref.status)
    _check_same(gtype, want, H, what)
    return labels


def run_objects(case):
    from cnfgen.graphs import supported_graph_formats, split_random_edges, add_random_missing_edges
    gtype = case['gtype']
    fmts = [f for f in FORMATS[gtype] if f in supported_graph_formats()[gtype]]
    labels = set()
    dot_reader = case.get('dot_reader', 'tree')
    trace = []          # the concrete calls made so far, for the message

    def ctx(extra):
        return "{} object built by {}{}, then {}: {}".format(
            gtype, case['ctor'], '' if case['ctor'][0] in ('special', 'cli', 'nxgen') else
            ' from {}'.format({k: case[k] for k in ('n', 'L', 'R', 'edges') if k in case}),
            ' '.join(trace) or 'nothing', extra)

    with _tmpdir() as tmp:
        G, M, independent, notes = _obj_construct(case, tmp)
        labels.add('ctor:' + ':'.join(str(x) for x in case['ctor'][:2 if case['ctor'][0] in ('special', 'cli', 'nxgen', 'read') else 1]))
        saved = None
        for x in notes:
            if isinstance(x, tuple):
                saved = x
            else:
                labels.add(x if not x.startswith('cli-save:') else 'cli-save')
        if independent:
            got = R.describe(G, gtype)
            if got != M.desc():
                raise Violation(ctx("the object is {} instead of {}".format(got, M.desc())), signature='obj-initial')
        if saved is not None:
            _, path, sfmt = saved
            if sfmt in fmts:
                with open(path, 'r', encoding='utf-8') as f:
                    text = f.read()
                _obj_write_check(G, gtype, sfmt, None, M, ctx("the file saved by the command line in {} format".format(sfmt)),
                                 text_given=text, dot_reader=dot_reader)
                labels.add('{}/{}'.format(gtype, sfmt))

    keep = []
    looked = None       # (edge count, edge set, order) at the last inspection / writing
    written = 0
    edits = 0
    edits_since_write = 0
    for step in case['steps']:
        op = step[0]
        if op == 'look':
            kind = step[1]
            if kind not in OBJ_LOOKS[gtype]:
                continue
            _obj_look(G, gtype, kind, M, keep)
            trace.append('look:' + kind)
            labels.add('look:' + kind)
            looked = (len(M.E), set(M.E), M.order())
            continue
        if op == 'write':
            fmt, route = step[1], step[2]
            if fmt not in fmts:
                continue
            trace.append('write:{}:{}'.format(fmt, route))
            _obj_write_check(G, gtype, fmt, route, M, ctx("written in {} format ({})".format(fmt, route)),
                             dot_reader=dot_reader)
            _obj_note_pattern(labels, looked, M, written, edits_since_write)
            looked = (len(M.E), set(M.E), M.order())
            written += 1
            edits_since_write = 0
            labels.add('mid-history-write')
            continue
        present, simple = M.present(), gtype == 'simple'
        before = (len(M.E), M.order())
        if op == 'add':
            absent = M.absent()
            if not absent:
                continue
            u, v = absent[step[1] % len(absent)]
            if simple and step[1] % 2:
                u, v = v, u
            G.add_edge(u, v)
            M.E.add(M.norm(u, v))
            trace.append('add_edge({},{})'.format(u, v))
        elif op == 'add-present':
            if not present:
                continue
            u, v = present[step[1] % len(present)]
            if simple and step[1] % 2:
                u, v = v, u
            G.add_edge(u, v)
            trace.append('add_edge({},{})'.format(u, v))
        elif op in ('remove', 'rewire'):
            if not simple or not present:
                continue
            absent = M.absent()
            if op == 'rewire' and not absent:
                continue
            flip = step[-1]
            u, v = present[step[1] % len(present)]
            if flip & 1:
                u, v = v, u
            G.remove_edge(u, v)
            M.E.discard(M.norm(u, v))
            trace.append('remove_edge({},{})'.format(u, v))
            if op == 'rewire':
                u, v = absent[step[2] % len(absent)]
                if flip & 2:
                    u, v = v, u
                G.add_edge(u, v)
                M.E.add(M.norm(u, v))
                trace.append('add_edge({},{})'.format(u, v))
                labels.add('rewire')
        elif op in ('grow', 'grow-attach'):
            if not simple:
                continue
            k = max(1, min(step[1], OBJ_MAXN - M.n))
            if M.n + k > OBJ_MAXN:
                continue
            old = M.n
            G.update_vertex_number(old + k)
            M.n = old + k
            trace.append('update_vertex_number({})'.format(M.n))
            labels.add('grow')
            if op == 'grow-attach' and old >= 1:
                u = 1 + step[2] % old
                G.add_edge(M.n, u)
                M.E.add(M.norm(M.n, u))
                trace.append('add_edge({},{})'.format(M.n, u))
        elif op == 'batch':
            absent = M.absent()
            if not absent:
                continue
            j, cnt = step[1] % len(absent), max(1, min(step[2], len(absent)))
            chosen = [absent[(j + 3 * i) % len(absent)] for i in range(cnt)]
            G.add_edges_from(list(chosen))
            M.E.update(M.norm(u, v) for u, v in chosen)
            trace.append('add_edges_from({})'.format(chosen))
        elif op == 'split':
            if not simple:
                continue
            k = min(step[1], len(M.E), OBJ_MAXN - M.n)
            if k < 1:
                continue
            split_random_edges(G, k, step[2])
            M.resync(G)
            trace.append('split_random_edges({},seed={})'.format(k, step[2]))
            labels.add('split')
        elif op == 'addrandom':
            if gtype not in ('simple', 'bipartite'):
                continue
            k = min(step[1], len(M.absent()))
            if k < 1:
                continue
            add_random_missing_edges(G, k, step[2])
            M.resync(G)
            trace.append('add_random_missing_edges({},seed={})'.format(k, step[2]))
            labels.add('addrandom')
        else:
            raise ValueError("unknown step in case: {}".format(step))
        edits += 1
        edits_since_write += 1
        if looked is not None:
            labels.add('edit-after-inspection')

    # at the end: every format of the type
    route = case.get('route', 'stringio')
    for fmt in fmts:
        labels.add('{}/{}'.format(gtype, fmt))
        got = _obj_write_check(G, gtype, fmt, route, M,
                               ctx("written at the end in {} format ({})".format(fmt, route)), dot_reader=dot_reader)
        labels.update(got)
    _obj_note_pattern(labels, looked, M, written, edits_since_write)
    if 'dot' not in fmts:
        labels.add('dot-not-available')
    labels.add('route:' + route)
    labels.update(_shape_labels(gtype, M.desc()))
    if edits:
        labels.add('edited')
    nontrivial = len(M.E) >= 1 and M.order() >= 3 and (edits >= 1 or case['ctor'][0] not in ('add_edge',))
    return Outcome(labels=sorted(labels), nontrivial=nontrivial)


def _obj_note_pattern(labels, looked, M, written, edits_since_write):
    if looked is not None:
        m, E, order = looked
        if m == len(M.E) and E != M.E:
            labels.add('same-count-other-edges-since-inspection')
        if order != M.order():
            labels.add('grown-since-inspection')
        if m != len(M.E):
            labels.add('other-count-since-inspection')
    if written >= 1 and edits_since_write >= 1:
        labels.add('written-twice-with-an-edit-in-between')


# ----- generated objects

def _lcg_edges(gtype, m, salt, n=None, L=None, Rr=None):
    """m distinct legal pairs (fewer when there are not that many), in a pseudo-random order of insertion."""
    P = _pairs(gtype, n=n, L=L, Rr=Rr)
    x = salt * 7919 + 17
    out = []
    P = list(P)
    while P and len(out) < m:
        x = (x * 1103515245 + 12345) & 0x7FFFFFFF
        out.append(P.pop((x >> 8) % len(P)))
    return out


def _obj_table():
    """Other representations of a graph, per type: (ctor, extra keys)."""
    T = {t: [] for t in R.TYPES}
    add = lambda t, ctor, **kw: T[t].append(dict(kw, ctor=list(ctor)))
    # ---- bipartite
    for a, b in [(1, 1), (2, 3), (3, 11), (4, 4), (1, 12), (12, 1), (0, 3), (3, 0), (0, 0), (6, 9)]:
        add('bipartite', ['special', 'CompleteBipartiteGraph', a, b])
    for a, b in [(0, 0), (2, 0), (0, 2), (3, 4), (5, 7)]:
        add('bipartite', ['special', 'BipartiteGraph', a, b])
    for args in [(3, 4, 0, 1), (5, 7, 0, 2, 3), (4, 3), (6, 6, 0, 3, 6), (11, 2, 1)]:
        add('bipartite', ['special', 'bipartite_shift'] + list(args))
    for name, args in [('bipartite_random_left_regular', (4, 6, 3)), ('bipartite_random_left_regular', (5, 11, 2)),
                       ('bipartite_random_m_edges', (4, 5, 3)), ('bipartite_random_m_edges', (4, 5, 15)),
                       ('bipartite_random_m_edges', (3, 9, 27)), ('bipartite_random_regular', (4, 6, 3)),
                       ('bipartite_random_regular', (6, 4, 2)), ('bipartite_random', (5, 6, 50)),
                       ('bipartite_random', (3, 10, 100)), ('bipartite_random', (3, 3, 0))]:
        add('bipartite', ['special', name] + list(args))
    for spec in [['complete', 2, 3], ['complete', 3, 11], ['complete', 1, 1], ['complete', 5, 5], ['empty', 3, 4],
                 ['glrd', 5, 7, 3], ['glrd', 3, 11, 11], ['glrm', 4, 6, 5], ['glrm', 4, 6, 20], ['glrp', 5, 6, '0.5'],
                 ['regular', 4, 6, 3], ['shift', 5, 7, 0, 1, 3], ['glrd', 5, 7, 2, 'plantbiclique', 2, 3],
                 ['glrm', 4, 6, 5, 'addedges', 4], ['complete', 3, 4, 'plantbiclique', 2, 2],
                 ['empty', 4, 7, 'plantbiclique', 2, 3, 'addedges', 3]]:
        add('bipartite', ['cli'] + spec)
    for a, b in [(5, 7), (1, 1), (3, 11)]:
        add('bipartite', ['nxgen', 'complete_bipartite_graph', a, b])
    # ---- simple
    for n in (0, 1, 2, 3, 5, 10, 12):
        add('simple', ['special', 'complete_graph', n])
    for n in (0, 1, 4, 11):
        add('simple', ['special', 'empty_graph', n])
    add('simple', ['special', 'null_graph'])
    for k in (0, 1, 3, 10):
        add('simple', ['special', 'star_graph', k])
    for spec in [['complete', 1], ['complete', 4], ['complete', 11], ['complete', 3, 3], ['complete', 2, 5],
                 ['empty', 1], ['empty', 12], ['gnp', 8, '0.5'], ['gnp', 4, '0.5', 3], ['gnm', 10, 12],
                 ['gnd', 8, 3], ['grid', 3, 4], ['grid', 2, 2, 3], ['torus', 3, 4], ['torus', 1, 5],
                 ['gnm', 8, 10, 'plantclique', 4], ['gnm', 8, 10, 'addedges', 3], ['grid', 3, 3, 'splitedges', 2],
                 ['gnp', 7, '0.5', 'plantclique', 3, 'addedges', 2, 'splitedges', 2],
                 ['complete', 5, 'splitedges', 3], ['empty', 6, 'addedges', 6]]:
        add('simple', ['cli'] + spec)
    for name, args in [('complete_graph', (5,)), ('path_graph', (11,)), ('cycle_graph', (10,)), ('star_graph', (6,)),
                       ('grid_2d_graph', (3, 4)), ('string_labels', (12,)), ('path_graph', (1,)),
                       ('complete_graph', (0,))]:
        add('simple', ['nxgen', name] + list(args))
    # ---- directed
    for t in ('digraph', 'dag'):
        for k in (0, 1, 5, 11):
            add(t, ['special', 'dag_path', k])
        for h in (0, 1, 3):
            add(t, ['special', 'dag_pyramid', h])
            add(t, ['special', 'dag_complete_binary_tree', h])
        for spec in [['path', 4], ['path', 0], ['tree', 2], ['pyramid', 3], ['pyramid', 0]]:
            add(t, ['cli'] + spec)
        for name, args in [('path_graph', (10,)), ('string_labels', (11,)), ('path_graph', (0,))]:
            add(t, ['nxgen', name] + list(args))
    add('digraph', ['nxgen', 'complete_graph', 4])
    add('digraph', ['nxgen', 'cycle_graph', 5])
    return T


_OBJ_TABLE = _obj_table()
_OBJ_SCRIPT = {
    'simple': [['look', 'edges'], ['rewire', 1, 2, 0], ['grow-attach', 2, 0], ['write', 'gml', 'stringio'],
               ['remove', 0, 1], ['add', 5]],
    'digraph': [['look', 'nx'], ['add', 3], ['write', 'dimacs', 'stringio'], ['batch', 1, 3]],
    'dag': [['look', 'succ-order'], ['add', 3], ['write', 'kthlist', 'filename'], ['batch', 1, 3]],
    'bipartite': [['look', 'nbrs'], ['add', 3], ['write', 'matrix', 'stringio'], ['addrandom', 2, 5],
                  ['add-present', 1]],
}


def _obj_declared(gtype, salt, big=False):
    """A graph given by its sizes and an insertion order of its edges."""
    if gtype == 'bipartite':
        L, Rr = [(3, 4), (5, 7), (2, 9), (6, 6)][salt % 4] if not big else [(5, 7), (3, 11)][salt % 2]
        return {'L': L, 'R': Rr, 'edges': _lcg_edges(gtype, 4 + salt % 5, salt, L=L, Rr=Rr)}
    n = [4, 6, 5, 8][salt % 4] if not big else [11, 12][salt % 2]
    return {'n': n, 'edges': _lcg_edges(gtype, 4 + salt % 5, salt, n=n)}


def enum_objects(tier):
    k = 0

    def case(gtype, base, steps, **kw):
        nonlocal k
        k += 1
        c = {'gtype': gtype, 'steps': [list(s) for s in steps], 'route': OBJ_ROUTES[k % 3], 'rseed': k,
             'dot_reader': 'tree' if (tier == 'thorough' or k % 4 == 0) else 'harness'}
        c.update(base)
        c.update(kw)
        return c

    # (1) other representations: as they are, and after a short history; command-line constructions also
    #     with `save` in every format (format named, or taken from the extension)
    for gtype in R.TYPES:
        for ti, base in enumerate(_OBJ_TABLE[gtype]):
            yield case(gtype, base, [])
            yield case(gtype, base, _OBJ_SCRIPT[gtype])
            if base['ctor'][0] == 'cli':
                for j, fmt in enumerate(FORMATS[gtype]):
                    if tier == 'quick' and (j + ti) % 2:
                        continue            # quick: two of the four formats per specification, rotating
                    yield case(gtype, base, [] if j % 2 else _OBJ_SCRIPT[gtype][:3],
                               cli_save=[fmt, bool((j // 2 + ti) % 2)])
        mods = [['from_networkx', 1, 0, 0], ['normalize', 2, -1, 1], ['from_networkx', 3, 3, 0], ['add_edges_from']]
        mods += [['read', f, s] for f in FORMATS[gtype] for s in (0, 1)]
        for j, ctor in enumerate(mods):
            base = _obj_declared(gtype, j, big=(j % 3 == 2))
            base['ctor'] = ctor
            yield case(gtype, base, [])
            yield case(gtype, base, _OBJ_SCRIPT[gtype])

    # (2) one inspection, one edit, then every format: every pair (inspection, edit)
    edits = {
        'simple': [[['rewire', 0, 0, 0]], [['rewire', 3, 5, 3]], [['remove', 1, 0]], [['add', 2]],
                   [['grow', 2]], [['grow-attach', 1, 1]], [['remove', 2, 1], ['add-present', 0], ['add', 4]],
                   [['remove', 0, 0], ['remove', 0, 0], ['add', 1], ['add', 6]], [['split', 2, 3]],
                   [['batch', 0, 3], ['remove', 1, 0]], [['addrandom', 2, 1], ['rewire', 1, 1, 1]]],
        'digraph': [[['add', 2]], [['add-present', 1]], [['batch', 0, 4]]],
        'dag': [[['add', 2]], [['batch', 2, 3]]],
        'bipartite': [[['add', 2]], [['add-present', 0]], [['batch', 1, 4]], [['addrandom', 3, 2]]],
    }
    ctors = {
        'simple': [['add_edge'], ['from_networkx', 2, 1, 1], ['read', 'dimacs', 0], ['special', 'complete_graph', 4],
                   ['read', 'gml', 1], ['add_edges_from']],
        'digraph': [['add_edge'], ['normalize', 1, 0, 0]],
        'dag': [['add_edge'], ['special', 'dag_pyramid', 2]],
        'bipartite': [['add_edge'], ['from_networkx', 1, 0, 1], ['special', 'bipartite_shift', 4, 5, 0, 2]],
    }
    for gtype in R.TYPES:
        looks = [['look', x] for x in OBJ_LOOKS[gtype]] + [['write', f, 'stringio'] for f in FORMATS[gtype]]
        use = ctors[gtype] if tier == 'thorough' else ctors[gtype][:4 if gtype == 'simple' else 2]
        for ci, ctor in enumerate(use):
            for li, look in enumerate(looks):
                for ei, edit in enumerate(edits[gtype]):
                    if tier == 'quick' and (ci + li + ei) % 2:
                        continue            # quick: every (inspection, edit) pair with half of the constructions
                    base = {'ctor': ctor}
                    if ctor[0] != 'special':
                        base.update(_obj_declared(gtype, ci + li + ei, big=((li + ei) % 5 == 0)))
                    yield case(gtype, base, [look] + edit)

    # (3) the same object written twice, in every pair of formats, with an edit in between
    between = {'simple': [[['rewire', 2, 3, 2]], [['grow-attach', 2, 2]], [['remove', 0, 0]]],
               'digraph': [[['add', 5]]], 'dag': [[['add', 1]]], 'bipartite': [[['add', 4]], [['batch', 0, 2]]]}
    for gtype in R.TYPES:
        for f1 in FORMATS[gtype]:
            for ri, route in enumerate(OBJ_ROUTES):
                for ei, edit in enumerate(between[gtype]):
                    if tier == 'quick' and (ri + ei) % 3 and gtype != 'simple':
                        continue
                    base = _obj_declared(gtype, ri + ei + len(f1))
                    base['ctor'] = ['add_edge']
                    # first writing in f1, the edit, then (at the end) every format f2
                    yield case(gtype, base, [['write', f1, route]] + edit)


_BIG = st.integers(0, 10 ** 6)
_SMALL = st.integers(0, 7)
_OBJ_OPS = {
    'simple': ['look', 'look', 'write', 'rewire', 'rewire', 'remove', 'add', 'add', 'add-present', 'grow',
               'grow-attach', 'batch', 'split', 'addrandom'],
    'digraph': ['look', 'look', 'write', 'add', 'add', 'add-present', 'batch'],
    'dag': ['look', 'look', 'write', 'add', 'add', 'add-present', 'batch'],
    'bipartite': ['look', 'look', 'write', 'add', 'add', 'add-present', 'batch', 'addrandom'],
}
_OBJ_CTORS = st.sampled_from(['add_edge', 'add_edges_from', 'from_networkx', 'normalize', 'read', 'table', 'table'])
_OBJ_NSTEPS = st.sampled_from([0, 1, 2, 3, 3, 4, 5, 6, 8, 10])
_OBJ_TYPE = st.sampled_from(R.TYPES)
_OBJ_ROUTE = st.sampled_from(OBJ_ROUTES)
_OBJ_OPS_ST = {t: st.sampled_from(v) for t, v in _OBJ_OPS.items()}
_OBJ_GRAPH_ST = {t: strat_graph(t) for t in R.TYPES}


@st.composite
def strat_objects(draw):
    import random
    gtype = draw(_OBJ_TYPE)
    how = draw(_OBJ_CTORS)
    rseed = draw(_BIG) % 10007
    a, b = draw(_BIG), draw(_BIG)
    if how == 'table':
        c = dict(_OBJ_TABLE[gtype][a % len(_OBJ_TABLE[gtype])])
        c['ctor'] = list(c['ctor'])
        c['gtype'] = gtype
        if c['ctor'][0] == 'cli' and b % 2:
            c['cli_save'] = [FORMATS[gtype][(b // 2) % 4], bool((b // 8) % 2)]
    else:
        c = draw(_OBJ_GRAPH_ST[gtype])
        if a % 2:
            random.Random(rseed).shuffle(c['edges'])       # the order of insertion
        if how in ('from_networkx', 'normalize'):
            c['ctor'] = [how, 1 + b % 3, (b // 3) % 7 - 3, (b // 21) % 2]
        elif how == 'read':
            c['ctor'] = [how, FORMATS[gtype][b % 4], (b // 4) % 64]
        else:
            c['ctor'] = [how]
    steps = []
    ops = _OBJ_OPS_ST[gtype]
    for _ in range(draw(_OBJ_NSTEPS)):
        op = draw(ops)
        x, y = draw(_BIG), draw(_SMALL)
        if op == 'look':
            steps.append([op, OBJ_LOOKS[gtype][x % len(OBJ_LOOKS[gtype])]])
        elif op == 'write':
            steps.append([op, FORMATS[gtype][x % 4], OBJ_ROUTES[y % 3]])
        elif op in ('add', 'add-present'):
            steps.append([op, x])
        elif op == 'remove':
            steps.append([op, x, y % 2])
        elif op == 'rewire':
            steps.append([op, x, x // 1000, y % 4])
        elif op == 'grow':
            steps.append([op, 1 + y % 3])
        elif op == 'grow-attach':
            steps.append([op, 1 + y % 3, x])
        elif op == 'batch':
            steps.append([op, x, 1 + y])
        else:
            steps.append([op, 1 + y % 3, x % 1000])
    c['steps'] = steps
    c['route'] = draw(_OBJ_ROUTE)
    c['rseed'] = rseed
    c['dot_reader'] = 'tree' if rseed % 4 == 0 else 'harness'
    return c


SUBCHECKS.append(
    SubCheck('objects', run_objects, strategy=strat_objects, enumerate_cases=enum_objects,
             quick=500, thorough=20000,
             rule="one graph object, built in one of the legal ways and possibly used before it is written. "
                  "Construction: add_edge in a random order / add_edges_from / from_networkx and normalize of a foreign "
                  "networkx graph (labels mul*i+add, reversed insertion) / read from a kthlist, dimacs, matrix, gml or dot "
                  "text written by the harness / networkx generators (complete, path, cycle, star, grid with tuple labels, "
                  "digit-string labels, complete_bipartite_graph) / Graph.complete_graph, empty_graph, null_graph, star_graph, "
                  "CompleteBipartiteGraph(L,R) with L,R in 0..12, BipartiteGraph(L,R) without edges, bipartite_shift, "
                  "bipartite_random_left_regular / _m_edges (sparse and dense) / _regular / bipartite_random, dag_path, "
                  "dag_pyramid, dag_complete_binary_tree / command-line specifications complete, empty, gnp, gnm, gnd, grid, "
                  "torus, glrd, glrm, glrp, regular, shift, path, tree, pyramid with plantclique, plantbiclique, addedges, "
                  "splitedges and `save <format> <file>` or `save <file.ext>` in every format (0..14 vertices for declared "
                  "graphs, up to 20 after growth). History: 0..10 steps among inspections (edges() iterated once or twice, "
                  "len(edges()), to_networkx, to_networkx whose result is then modified by the caller, neighbour lists, "
                  "neighbour lists modified by the caller, has_edge on every pair, degrees, counts, "
                  "edges_ordered_by_successors, is_dag), a writing in some format (StringIO, file name, file handle), "
                  "add_edge of an absent pair / of a present edge (either orientation), remove_edge, remove_edge + add_edge "
                  "of another pair (same edge count), update_vertex_number alone or followed by an edge on the new vertex, "
                  "add_edges_from, split_random_edges, add_random_missing_edges; enumerated: every table entry as it is and "
                  "after a fixed script, every (inspection or writing, edit) pair per type, every first format x route with "
                  "an edit before the second writing. Oracle: a harness-side model (vertex counts + set of edges, updated by "
                  "the harness for every edit; for random constructions and the two random library edits it is read from "
                  "has_edge on all pairs); every writing in the middle and, at the end, a writing in EVERY format of the type "
                  "must read back (tree reader: class, counts, split, list(edges()), number_of_edges, is_dag; in-house formats "
                  "also the reference reader on the written text) as the model at that moment; objects whose graph is known by "
                  "construction must equal it before anything else. Non-trivial: >=3 vertices, >=1 edge and an edit or a "
                  "construction other than plain add_edge",
             required_labels=['{}/{}'.format(t, f) for t in R.TYPES for f in FORMATS[t]] +
             ['route:' + r for r in OBJ_ROUTES] +
             ['same-count-other-edges-since-inspection', 'grown-since-inspection', 'other-count-since-inspection',
              'written-twice-with-an-edit-in-between', 'edit-after-inspection', 'rewire', 'grow', 'split', 'addrandom',
              'cli-save', 'model-read-from-object', 'mid-history-write', 'written-text-valid',
              'ctor:special:CompleteBipartiteGraph', 'ctor:special:complete_graph', 'ctor:special:null_graph',
              'ctor:special:empty_graph', 'ctor:special:star_graph', 'ctor:special:BipartiteGraph',
              'ctor:special:bipartite_shift', 'ctor:special:dag_pyramid', 'ctor:cli:complete', 'ctor:cli:glrd',
              'ctor:cli:gnp', 'ctor:cli:pyramid', 'ctor:nxgen:complete_bipartite_graph', 'ctor:nxgen:grid_2d_graph',
              'ctor:from_networkx', 'ctor:normalize', 'ctor:add_edges_from', 'ctor:read:gml', 'ctor:read:dot',
              'ctor:read:matrix', 'ctor:read:dimacs', 'ctor:read:kthlist', 'look:edges', 'look:nx', 'look:nx-mutate',
              'look:nbrs', 'look:succ-order', '>=10-vertices', 'null-graph', 'empty-side']))
