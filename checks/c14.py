"""C14 - graph files round-trip in every supported format; bad files are rejected."""
import contextlib
import io
import itertools
import json
import os
import shutil
import subprocess
import sys
import tempfile

from hypothesis import strategies as st

from vlib.core import SubCheck, Violation, Outcome, VERIF_DIR, write_replay
from vlib import rd_graphs as R

PROPERTY = "C14"
ASSUMPTIONS = [
    "graph names are single-line texts over letters, digits, blanks and common punctuation without double quotes or backslashes (the name is not part of the property; a name is only a comment/attribute in the file)",
    "in-house readers: the reference dialect is the one of www/KTHlistFormat.txt + www/graphformats.org (one list per line, 'c' comment lines, empty lines ignored), DIMACS 'p edge N M' / 'e u v' / 'c' lines, and a whitespace separated 0/1 matrix after 'r c'",
    "texts the descriptions leave open are gray (ValueError or exactly the reference graph are both accepted): int() spellings such as '+1', '01', '1_0'; tabs, indentation, whitespace-only lines, CR LF; 'C' comments and continuation lines of the KTH description; vertex lines out of increasing order (read as the union of the lists); a neighbour listed twice; a skipped left vertex in a bipartite kthlist; blank lines, unknown line types and repeated edges in DIMACS; '#' comment lines in a matrix; any character outside printable ASCII (then any graph is accepted)",
    "a text whose numbers exceed 300 is never given to the readers (a declared size allocates that many vertices)",
    "gml/dot documents written by the harness use non negative integer identifiers (or equal-width alphabetic names in dot); the expected numbering is by increasing identifier; for a bipartite document whose nodes are not listed in increasing order both the numbering by identifier and the numbering by order of appearance are accepted",
    "mutated gml/dot documents: only the exception type is checked (a graph or ValueError)",
    "DirectedGraph.from_file reads with type 'digraph' (there is no class for 'dag'), so that route does not check the acyclicity test",
]

FORMATS = {
    'simple': ['kthlist', 'gml', 'dot', 'dimacs'],
    'digraph': ['kthlist', 'gml', 'dot', 'dimacs'],
    'dag': ['kthlist', 'gml', 'dot', 'dimacs'],
    'bipartite': ['kthlist', 'gml', 'dot', 'matrix'],
}
ROUTES = ['stringio', 'filename', 'filehandle', 'from_file', 'cli']
NAME_ALPHABET = "abcdefghijklmnopqrstuvwxyzABCDEXYZ0123456789 -_.,:;()[]{}<>=+*/#!?@$%^&~|'"
FIXED_NAMES = [None, '', '5', 'p edge 3 2', '1 : 2 0', 'c', '#', ' padded ', 'e 1 2', '0', 'graph [', 'x:y']


# ---------------------------------------------------------------------------
# helpers

def _classes():
    from cnfgen.graphs import Graph, DirectedGraph, BipartiteGraph
    return {'simple': Graph, 'digraph': DirectedGraph, 'dag': DirectedGraph, 'bipartite': BipartiteGraph}


def _build(gtype, d, name):
    cls = _classes()[gtype]
    if gtype == 'bipartite':
        G = cls(d['L'], d['R']) if name is None else cls(d['L'], d['R'], name)
    else:
        G = cls(d['n']) if name is None else cls(d['n'], name)
    for u, v in d['edges']:
        G.add_edge(u, v)
    return G


@contextlib.contextmanager
def _quiet():
    """pydot prints its parse errors on stdout."""
    buf = io.StringIO()
    with contextlib.redirect_stdout(buf):
        yield buf


@contextlib.contextmanager
def _tmpdir():
    d = tempfile.mkdtemp(prefix='c14-')
    try:
        yield d
    finally:
        shutil.rmtree(d, ignore_errors=True)


def _shape_labels(gtype, d):
    labels = []
    order = R.desc_order(d)
    if order >= 10:
        labels.append('>=10-vertices')
    if order == 0:
        labels.append('null-graph')
    touched = set()
    if gtype == 'bipartite':
        for u, v in d['edges']:
            touched.add(('l', u))
            touched.add(('r', v))
        if d['L'] == 0 or d['R'] == 0:
            labels.append('empty-side')
    else:
        for u, v in d['edges']:
            touched.add(u)
            touched.add(v)
        if gtype in ('digraph', 'dag'):
            labels.append('upward-edges' if R.upward(d) else 'has-back-edge')
            if any(u == v for u, v in d['edges']):
                labels.append('self-loop')
    if len(touched) < order:
        labels.append('isolated')
    if order and not d['edges']:
        labels.append('no-edges')
    if gtype != 'bipartite' and order and order not in touched:
        labels.append('last-vertex-isolated')
    return labels


def _check_same(gtype, want, H, what):
    cls = _classes()[gtype]
    if not isinstance(H, cls):
        raise Violation("{}: result is a {} instead of a {}".format(what, type(H).__name__, cls.__name__),
                        signature='rt-class')
    got = R.describe(H, gtype)
    if gtype == 'bipartite':
        if (got['L'], got['R']) != (want['L'], want['R']):
            raise Violation("{}: left/right split {} became {}".format(
                what, (want['L'], want['R']), (got['L'], got['R'])), signature='rt-split')
    elif got['n'] != want['n']:
        raise Violation("{}: {} vertices became {}".format(what, want['n'], got['n']), signature='rt-order')
    if H.number_of_vertices() != R.desc_order(want):
        raise Violation("{}: number_of_vertices() {} instead of {}".format(
            what, H.number_of_vertices(), R.desc_order(want)), signature='rt-order')
    if got['edges'] != want['edges']:
        raise Violation("{}: edges {} became {}".format(what, want['edges'], got['edges']), signature='rt-edges')
    if H.number_of_edges() != len(want['edges']):
        raise Violation("{}: number_of_edges() {} for {} edges".format(
            what, H.number_of_edges(), len(want['edges'])), signature='rt-edges')
    if gtype in ('digraph', 'dag') and H.is_dag() != R.upward(want):
        raise Violation("{}: is_dag() is {} after the round trip of a graph whose edges {} go upward".format(
            what, H.is_dag(), 'all' if R.upward(want) else 'do not all'), signature='rt-isdag')


# ---------------------------------------------------------------------------
# (a) round trip

def _roundtrip_routes(G, gtype, fmt, route, cls, results):
    from cnfgen.graphs import readGraph, writeGraph
    from cnfgen.clitools.graph_args import make_graph_from_spec
    if route == 'stringio':
        buf = io.StringIO()
        writeGraph(G, buf, gtype, fmt)
        text = buf.getvalue()
        results.append(('text', text))
        results.append(('readGraph(StringIO)', readGraph(io.StringIO(text), gtype, fmt)))
    else:
        with _tmpdir() as tmp:
            p = os.path.join(tmp, 'graph_a.' + fmt)
            q = os.path.join(tmp, 'graph_b.txt')
            if route == 'filename':
                writeGraph(G, p, gtype)
                results.append(('readGraph(name)', readGraph(p, gtype)))
                writeGraph(G, q, gtype, fmt)
                results.append(('readGraph(name, format)', readGraph(q, gtype, fmt)))
            elif route == 'filehandle':
                with open(p, 'w', encoding='utf-8') as f:
                    writeGraph(G, f, gtype)
                with open(p, 'r', encoding='utf-8') as f:
                    results.append(('readGraph(handle)', readGraph(f, gtype)))
            elif route == 'from_file':
                writeGraph(G, p, gtype, fmt)
                shutil.copy(p, q)
                results.append(('from_file(name)', cls.from_file(p)))
                results.append(('from_file(name, format)', cls.from_file(q, fmt)))
                with open(q, 'r', encoding='utf-8') as f:
                    results.append(('from_file(handle, format)', cls.from_file(f, fmt)))
            else:
                writeGraph(G, p, gtype, fmt)
                shutil.copy(p, q)
                p2 = os.path.join(tmp, 'saved_a.' + fmt)
                q2 = os.path.join(tmp, 'saved_b')
                results.append(('<file>', make_graph_from_spec(gtype, [p, 'save', p2])))
                results.append(('<file> after save <file>', make_graph_from_spec(gtype, [p2])))
                results.append(('<format> <file>', make_graph_from_spec(gtype, [fmt, q, 'save', fmt, q2])))
                results.append(('<format> <file> after save <format> <file>',
                                make_graph_from_spec(gtype, [fmt, q2])))
                with open(q2, 'r', encoding='utf-8') as f:
                    text = f.read()
                old_stdin = sys.stdin
                sys.stdin = io.StringIO(text)
                try:
                    results.append(('<format> - (standard input)', make_graph_from_spec(gtype, [fmt, '-'])))
                finally:
                    sys.stdin = old_stdin


def run_roundtrip(case):
    from cnfgen.graphs import supported_graph_formats
    gtype, fmt, route = case['gtype'], case['fmt'], case['route']
    name = case.get('name')
    if gtype == 'bipartite':
        want = R.make_desc(gtype, L=case['L'], R=case['R'], edges=case['edges'])
    else:
        want = R.make_desc(gtype, n=case['n'], edges=case['edges'])
    supported = supported_graph_formats()
    cls = _classes()[gtype]
    if supported[gtype] != cls.supported_file_formats():
        raise Violation("supported_graph_formats()[{!r}] = {} but {}.supported_file_formats() = {}".format(
            gtype, supported[gtype], cls.__name__, cls.supported_file_formats()), signature='rt-formats')
    if fmt not in supported[gtype]:
        if fmt == 'dot':
            return Outcome(labels=['dot-not-available'], nontrivial=False)
        raise Violation("format {} is not offered for {} graphs: {}".format(fmt, gtype, supported[gtype]),
                        signature='rt-formats')
    G = _build(gtype, want, name)
    what = "{} graph {} written as {} via {}".format(gtype, {k: want[k] for k in want if k != 'edges'}, fmt, route)
    results = []
    try:
        with _quiet():
            _roundtrip_routes(G, gtype, fmt, route, cls, results)
    except ValueError as e:
        raise Violation("{}: writing the graph and reading the file back raised ValueError({}) after {}".format(
            what, e, [h for h, _ in results if h != 'text'] or 'nothing'), signature='rt-rejected')
    labels = ['{}/{}'.format(gtype, fmt), 'route:' + route] + _shape_labels(gtype, want)
    for how, H in results:
        if how == 'text':
            # the file the tree wrote, read by the independent reference reader
            if fmt in R.INHOUSE[gtype]:
                ref = R.ref_read(fmt, gtype, H)
                if ref.status == 'invalid' or ref.graph != want:
                    raise Violation("{}: the text written, {!r}, does not describe the graph {} for the reference reader ({} {})".format(
                        what, H, want, ref.status, ref.graph if ref.graph is not None else ref.why),
                        signature='rt-written-text')
                labels.append('written-text-' + ref.status)
            continue
        _check_same(gtype, want, H, what + ' / ' + how)
    if name is not None:
        labels.append('named')
    return Outcome(labels=labels, nontrivial=len(want['edges']) >= 1 and R.desc_order(want) >= 3)


def _pairs(gtype, n=None, L=None, Rr=None):
    if gtype == 'simple':
        return [[u, v] for u in range(1, n + 1) for v in range(u + 1, n + 1)]
    if gtype == 'dag':
        return [[u, v] for u in range(1, n + 1) for v in range(u + 1, n + 1)]
    if gtype == 'digraph':
        return [[u, v] for u in range(1, n + 1) for v in range(1, n + 1)]
    return [[u, v] for u in range(1, L + 1) for v in range(1, Rr + 1)]


def _draw_subset(draw, pairs):
    """A subset of the pairs from few draws: the AND of k random bit masks (density 2^-k, k=1..4), k=0 -> empty."""
    if not pairs:
        return []
    k = draw(st.sampled_from([1, 2, 1, 2, 3, 0, 3, 4, 1, 2]))
    if k == 0:
        return []
    top = (1 << len(pairs)) - 1
    mask = top
    for _ in range(k):
        mask &= draw(st.integers(0, top))
    return [p for i, p in enumerate(pairs) if (mask >> i) & 1]


@st.composite
def strat_graph(draw, gtype):
    """Shape of a graph: a third of the cases have 10..14 vertices."""
    if draw(st.integers(0, 2)) == 0:
        n = draw(st.integers(10, 14))
    else:
        n = draw(st.integers(0, 9))
    c = {'gtype': gtype}
    if gtype == 'bipartite':
        L = draw(st.sampled_from([0, n, n // 2, min(1, n), max(n - 1, 0)]) | st.integers(0, n))
        c['L'], c['R'] = L, n - L
        pairs = _pairs(gtype, L=L, Rr=n - L)
    else:
        c['n'] = n
        pairs = _pairs(gtype, n=n)
    chosen = _draw_subset(draw, pairs)
    c['edges'] = sorted(chosen)
    return c


@st.composite
def strat_roundtrip(draw):
    gtype = draw(st.sampled_from(R.TYPES))
    c = draw(strat_graph(gtype))
    c['fmt'] = draw(st.sampled_from(FORMATS[gtype]))
    c['route'] = draw(st.sampled_from(ROUTES))
    c['name'] = draw(st.sampled_from(FIXED_NAMES) | st.text(alphabet=NAME_ALPHABET, max_size=20))
    return c


def enum_roundtrip(tier):
    """Every simple graph / dag on <=4 vertices, every digraph on <=2 (with loops) and loop-free on 3,
    every bipartite graph with sides <=2, in every format, through StringIO."""
    def cases():
        for n in range(0, 5):
            P = _pairs('simple', n=n)
            for mask in range(1 << len(P)):
                edges = [p for i, p in enumerate(P) if (mask >> i) & 1]
                yield {'gtype': 'simple', 'n': n, 'edges': edges}
                yield {'gtype': 'dag', 'n': n, 'edges': edges}
        for n in range(0, 4):
            P = _pairs('digraph', n=n)
            if n == 3:
                P = [p for p in P if p[0] != p[1]]
            for mask in range(1 << len(P)):
                yield {'gtype': 'digraph', 'n': n, 'edges': [p for i, p in enumerate(P) if (mask >> i) & 1]}
        for L in range(0, 3):
            for Rr in range(0, 3):
                P = _pairs('bipartite', L=L, Rr=Rr)
                for mask in range(1 << len(P)):
                    yield {'gtype': 'bipartite', 'L': L, 'R': Rr,
                           'edges': [p for i, p in enumerate(P) if (mask >> i) & 1]}
    for c in cases():
        for fmt in FORMATS[c['gtype']]:
            d = dict(c)
            d.update(fmt=fmt, route='stringio', name=None)
            yield d


# ---------------------------------------------------------------------------
# (b1) in-house readers on arbitrary text

def run_text(case):
    if 'corpus' in case:                    # an atheris campaign (thorough tier)
        return run_fuzz(case)
    fmt, gtype, text = case['fmt'], case['gtype'], case['text']
    if R.too_big(text):
        return Outcome(labels=['skipped-too-big'], nontrivial=False)
    ref = R.ref_read(fmt, gtype, text)
    try:
        ref, kind = R.judge_inhouse(fmt, gtype, text, ref)
    except R.Mismatch as e:
        raise Violation(str(e), signature=e.signature)
    labels = ['{}/{}'.format(fmt, gtype), 'ref:' + ref.status, 'sut:' + kind]
    labels.extend(sorted(ref.feats))
    labels.extend('why:' + w for w in ref.why)
    labels.extend('mut:' + m for m in case.get('mut', []))
    if kind == 'ValueError':
        labels.append('rejected')
        if 'dag-back-edge' in ref.why:
            labels.append('dag-rejected')
    elif ref.status == 'valid':
        labels.append('valid-accepted')
        if ref.graph is not None and R.desc_order(ref.graph) >= 10:
            labels.append('>=10-vertices')
    return Outcome(labels=labels, rejected=(kind == 'ValueError'),
                   nontrivial=('size-line' in ref.feats and 'edge-token' in ref.feats))


@st.composite
def strat_text(draw):
    gtype = draw(st.sampled_from(R.TYPES))
    fmt = draw(st.sampled_from(R.INHOUSE[gtype]))
    mode = draw(st.sampled_from(['grammar', 'grammar', 'grammar', 'grammar', 'noise']))
    if mode == 'noise':
        alphabet = {'kthlist': '0123456789 :\nc\t-+', 'dimacs': '0123456789 pe\ncdg\t-',
                    'matrix': '01 \n#2\t-'}[fmt]
        text = draw(st.text(alphabet=alphabet, max_size=30))
        return {'fmt': fmt, 'gtype': gtype, 'text': text, 'mut': ['noise']}
    c = draw(strat_graph(gtype))
    if gtype == 'bipartite':
        d = R.make_desc(gtype, L=c['L'], R=c['R'], edges=c['edges'])
    else:
        d = R.make_desc(gtype, n=c['n'], edges=c['edges'])
    style = draw(st.sampled_from([0, 0, 1, 2, 4, 8, 16, 32, 64]) | st.integers(0, 127))
    flip = draw(st.lists(st.integers(0, 30), max_size=4)) if (fmt == 'dimacs' and gtype == 'simple') else []
    mut = []
    extra = []
    order = R.desc_order(d)
    # a slip in the content: one more edge (src, dst), possibly one that the graph type forbids
    if fmt != 'matrix' and order > 0 and draw(st.integers(0, 4)) == 0:
        u = draw(st.integers(1, order))
        v = draw(st.integers(1, order))
        kind = draw(st.sampled_from(['loop', 'back', 'range', 'any']))
        extra = [{'loop': [u, u], 'back': [max(u, v), min(u, v)], 'any': [u, v],
                  'range': [order + draw(st.integers(1, 2)), u]}[kind]]
        mut.append('slip-' + kind)
    text = R.write_inhouse(fmt, gtype, d, style, flip=flip, extra=extra)
    names = R.MUTATORS_FOR[fmt]
    nmut = draw(st.sampled_from([0, 1, 1, 1, 2, 3]))
    ops = []
    for _ in range(nmut):
        name = draw(st.sampled_from(names))
        ops.append([name, draw(st.integers(0, 400)), draw(st.integers(0, 60))])
        mut.append(name)
    text = R.mutate(text, ops)
    return {'fmt': fmt, 'gtype': gtype, 'text': text, 'mut': mut}


TEXT_SNIPPETS = [
    # from tests/test_graph_io.py and the documentation
    ('kthlist', "\n5\n1: 2 3 0\n2: 3 0\n4: 5 0\n5: 3 4 0\n"),
    ('kthlist', "\n3\n1: 2 0\n2: 3 0\n3: 1 0\n"),
    ('kthlist', "\n3\n1: 0\n2: 1 0\n3: 2 0\n"),
    ('kthlist', "\n5\n1: 2 0\n2: 1 0\n3: 0\n4: 1 0\n"),
    ('kthlist', "\n5\n1: 3 0\n2: 4 0\n"),
    ('kthlist', "c\nc This is a DAG of 5 vertices\nc\n5\n1  : 0\n2  : 0\n3  : 1  0\n4  : 2  3  0\n5  : 2  4  0\n"),
    ('kthlist', "c listing only left side vertices (bipartite graph)\n11\n1 : 7  8  9 0\n2 : 6  7  9 0\n"
                "3 : 8  9 11 0\n4 : 8 10 11 0\n5 : 6 10 11 0\n"),
    ('kthlist', "3\n3: 1 2 0\n"),
    ('kthlist', "5\n1: 4 5 0\n2: 4 5 0\n3: 4 5 0\n"),
    ('kthlist', ""), ('kthlist', "c only a comment\n"), ('kthlist', "\n\n"), ('kthlist', "0\n"),
    ('kthlist', "4\n1 : 3 0\n1 : 4 0\n"), ('kthlist', "4\n2 : 3 0\n1 : 4 0\n"),
    ('dimacs', "p edge 3 2\ne 1 2\ne 2 3\n"), ('dimacs', "c a name\n\np edge 3 2\ne 1 2\n\ne 2 3\n"),
    ('dimacs', ""), ('dimacs', "\n"), ('dimacs', "p edge 0 0\n"), ('dimacs', "p edge 2 1\ne 2 1\n"),
    ('dimacs', "p edge 2 1\ne 1 1\n"), ('dimacs', "c x\np edge 12 2\ne 1 12\ne 10 11"),
    ('matrix', "5 6\n0 1 1 1 0 0\n1 1 0 1 0 0\n0 0 1 1 0 1\n0 0 1 0 1 1\n1 0 0 0 1 1\n"),
    ('matrix', ""), ('matrix', "0 0"), ('matrix', "2 2\n1 0\n\n0 1\n"), ('matrix', "2 2\n1 0\n# x\n0 1\n"),
    ('matrix', "2 2 1 0 0 2"), ('matrix', "2 2 1 0 0"), ('matrix', "2 2 1 0 0 1 1"), ('matrix', "0 3\n"),
]


def enum_text(tier):
    for c in enum_fuzz(tier):
        yield c
    for fmt, text in TEXT_SNIPPETS:
        for gtype in R.TYPES:
            if fmt in R.INHOUSE[gtype]:
                yield {'fmt': fmt, 'gtype': gtype, 'text': text, 'mut': ['snippet']}


# ---------------------------------------------------------------------------
# (b2) gml / dot documents written by the harness

def _doc_of(case):
    return {'gtype': case['gtype'], 'ids': case['ids'], 'order': case['order'], 'edges': case['edges'],
            'side': case.get('side'), 'style': case['style']}


def run_nxdoc(case):
    from cnfgen.graphs import readGraph, supported_graph_formats
    fmt, gtype = case['fmt'], case['gtype']
    if fmt not in supported_graph_formats()[gtype]:
        return Outcome(labels=['dot-not-available'], nontrivial=False)
    doc = _doc_of(case)
    text = R.write_doc(fmt, doc)
    ops = case.get('ops', [])
    mutated = R.mutate(text, ops)
    exact = (mutated == text)
    with _quiet():
        try:
            H = readGraph(io.StringIO(mutated), gtype, fmt)
            kind = 'graph'
        except ValueError as e:
            kind, err = 'ValueError', e
        except Exception as e:      # noqa
            raise Violation("{} read as {}: {}: {} instead of a graph or ValueError, for the document {!r}".format(
                fmt, gtype, type(e).__name__, e, mutated), signature='nx-exc:' + type(e).__name__)
    labels = ['{}/{}'.format(gtype, fmt), 'sut:' + kind, 'exact' if exact else 'mutated']
    labels.extend('mut:' + o[0] for o in ops)
    if kind == 'graph':
        got = R.describe(H, gtype)
        if gtype == 'dag' and not (R.upward(got) and H.is_dag()):
            raise Violation("{} read as dag: accepted a document with an edge that does not go upward: {} from {!r}".format(
                fmt, got, mutated), signature='nx-dag-accepted')
    n = len(doc['ids'])
    if n >= 10:
        labels.append('>=10-vertices')
    if exact:
        want = R.doc_expected(doc, 'sorted')
        cands = [want]
        if gtype == 'bipartite':
            alt = R.doc_expected(doc, 'appearance')
            if alt != want:
                cands.append(alt)
                labels.append('gray-bipartite-node-order')
        if doc['order'] != sorted(doc['order']):
            labels.append('shuffled-nodes')
        if gtype == 'dag' and not R.upward(want):
            labels.append('dag-back-edge')
            if kind != 'ValueError':
                raise Violation("{} read as dag: document with a back edge accepted: {!r}".format(fmt, text),
                                signature='nx-dag-accepted')
            labels.append('dag-rejected')
            return Outcome(labels=labels, rejected=True, nontrivial=len(doc['edges']) >= 1 and n >= 3)
        if kind == 'ValueError':
            raise Violation("{} read as {}: the document {!r} (describing {}) was rejected: {}".format(
                fmt, gtype, text, want, err), signature='nx-valid-rejected')
        if got not in cands:
            raise Violation("{} read as {}: the document {!r} describes {} but the reader returned {}".format(
                fmt, gtype, text, want, got), signature='nx-wrong-graph')
        if gtype in ('digraph', 'dag') and H.is_dag() != R.upward(got):
            raise Violation("is_dag()={} for {}".format(H.is_dag(), got), signature='nx-isdag')
    if kind == 'ValueError':
        labels.append('rejected')
    return Outcome(labels=labels, rejected=(kind == 'ValueError'),
                   nontrivial=len(doc['edges']) >= 1 and n >= 3)


@st.composite
def strat_nxdoc(draw):
    gtype = draw(st.sampled_from(R.TYPES))
    fmt = draw(st.sampled_from(['gml', 'gml', 'dot']))
    if draw(st.integers(0, 2)) == 0:
        n = draw(st.integers(10, 14))
    else:
        n = draw(st.integers(0, 9))
    idmode = draw(st.sampled_from(['1..n', '0..n-1', 'gaps', 'alpha' if fmt == 'dot' else 'gaps']))
    if idmode == '1..n':
        ids = list(range(1, n + 1))
    elif idmode == '0..n-1':
        ids = list(range(n))
    elif idmode == 'gaps':
        ids = sorted(draw(st.lists(st.integers(0, 120), min_size=n, max_size=n, unique=True)))
    else:
        ids = ['v{:02d}'.format(i) for i in sorted(draw(st.lists(st.integers(0, 99), min_size=n, max_size=n,
                                                                  unique=True)))]
    # node k is the k-th in identifier order, so vertex number k+1 is expected for non bipartite graphs
    if draw(st.booleans()):
        order = list(range(n))
    else:
        order = list(draw(st.permutations(list(range(n)))))
    side = None
    if gtype == 'bipartite':
        side = draw(st.lists(st.integers(0, 1), min_size=n, max_size=n))
        pairs = [[a, b] for a in range(n) for b in range(n) if side[a] == 0 and side[b] == 1]
    elif gtype == 'simple':
        pairs = [[a, b] for a in range(n) for b in range(a + 1, n)]
    elif gtype == 'dag':
        pairs = [[a, b] for a in range(n) for b in range(a + 1, n)]
        if draw(st.integers(0, 3)) == 0:
            pairs = [[a, b] for a in range(n) for b in range(n)]
    else:
        pairs = [[a, b] for a in range(n) for b in range(n)]
    edges = _draw_subset(draw, pairs)
    if gtype in ('simple', 'bipartite'):
        # undirected: either endpoint may be written first
        flips = draw(st.lists(st.booleans(), min_size=len(edges), max_size=len(edges)))
        edges = [[b, a] if f else [a, b] for (a, b), f in zip(edges, flips)]
    style = draw(st.sampled_from([0, 1, 2, 4, 8, 16, 32]) | st.integers(0, 63))
    ops = []
    if draw(st.integers(0, 3)) == 0:
        for _ in range(draw(st.integers(1, 3))):
            ops.append([draw(st.sampled_from(R.MUTATORS_FOR[fmt])), draw(st.integers(0, 2000)),
                        draw(st.integers(0, 60))])
    return {'fmt': fmt, 'gtype': gtype, 'ids': ids, 'order': order, 'edges': edges, 'side': side,
            'style': style, 'ops': ops}


# ---------------------------------------------------------------------------
# (b3) coverage-guided campaigns (thorough tier only)

FUZZ_RUNS = int(os.environ.get('VERIF_C14_FUZZ_RUNS', '1500000'))
_DICT = {
    'kthlist': ['" : "', '" 0\\x0a"', '"c "', '"\\x0a"', '"1"', '"2"', '"3"', '"10"', '":"', '"0"', '" "'],
    'dimacs': ['"p edge "', '"e "', '"c "', '"\\x0a"', '"1"', '"2"', '"3"', '"10"', '" "', '"edge"'],
    'matrix': ['"0 "', '"1 "', '"\\x0a"', '"#"', '"2"', '"3"', '" "'],
}


def enum_fuzz(tier):
    if tier != 'thorough':
        return
    for gtype in R.TYPES:
        for fmt in R.INHOUSE[gtype]:
            for corpus in ('empty', 'seeded'):
                yield {'fmt': fmt, 'gtype': gtype, 'corpus': corpus, 'runs': FUZZ_RUNS, 'seed': 14}


def _seed_corpus(fmt, gtype, directory):
    texts = [t for f, t in TEXT_SNIPPETS if f == fmt]
    shapes = [
        ({'n': 3, 'edges': [[1, 2], [2, 3]]}, {'L': 2, 'R': 3, 'edges': [[1, 1], [2, 3]]}),
        ({'n': 12, 'edges': [[1, 12], [2, 10], [10, 11]]}, {'L': 7, 'R': 5, 'edges': [[1, 5], [7, 1]]}),
        ({'n': 4, 'edges': []}, {'L': 0, 'R': 3, 'edges': []}),
    ]
    for nb, bip in shapes:
        d = bip if gtype == 'bipartite' else nb
        for style in (0, 1, 2):
            texts.append(R.write_inhouse(fmt, gtype, d, style))
    for i, t in enumerate(texts):
        with open(os.path.join(directory, 'seed{:03d}'.format(i)), 'w', encoding='utf-8') as f:
            f.write(t)


def run_fuzz(case):
    fmt, gtype = case['fmt'], case['gtype']
    base = os.path.join(VERIF_DIR, 'out', 'fuzz')
    os.makedirs(base, exist_ok=True)
    work = tempfile.mkdtemp(prefix='c14-{}-{}-{}-'.format(fmt, gtype, case['corpus']), dir=base)
    corpus = os.path.join(work, 'corpus')
    os.makedirs(corpus)
    if case['corpus'] == 'seeded':
        _seed_corpus(fmt, gtype, corpus)
    with open(os.path.join(work, 'dict'), 'w') as f:
        f.write('\n'.join(_DICT[fmt]) + '\n')
    failfile = os.path.join(work, 'failures.json')
    cmd = [sys.executable, '-m', 'vlib.rd_graphs', fmt, gtype, failfile, corpus,
           '-runs={}'.format(case['runs']), '-seed={}'.format(case['seed']), '-max_len=160',
           '-dict=' + os.path.join(work, 'dict'), '-artifact_prefix=' + work + os.sep,
           '-print_final_stats=1', '-verbosity=0']
    env = dict(os.environ)
    proc = subprocess.run(cmd, cwd=VERIF_DIR, env=env, stdout=subprocess.PIPE, stderr=subprocess.STDOUT,
                          universal_newlines=True, errors='replace')
    log = proc.stdout or ''
    with open(os.path.join(work, 'log.txt'), 'w') as f:
        f.write(log)
    if not os.path.exists(failfile):
        raise RuntimeError("atheris campaign produced no report (exit {}): {}".format(proc.returncode, log[-1500:]))
    with open(failfile) as f:
        rep = json.load(f)
    stats = rep['stats']
    if proc.returncode != 0 or stats['execs'] < case['runs'] // 2:
        raise RuntimeError("atheris campaign ended early (exit {}, {} executions): {}".format(
            proc.returncode, stats['execs'], log[-1500:]))
    ncorpus = len(os.listdir(corpus))
    if rep['failures']:
        worst = min(rep['failures'], key=lambda r: len(r['text']))
        paths = []
        for r in rep['failures']:
            paths.append(write_replay(PROPERTY, 'readers_text',
                                      {'fmt': fmt, 'gtype': gtype, 'text': r['text'], 'mut': ['atheris']},
                                      r['message']))
        raise Violation("atheris campaign ({} executions, corpus {}): {} [text replays: {}]".format(
            stats['execs'], ncorpus, worst['message'], ', '.join(paths)), signature='fuzz:' + worst['signature'])
    shutil.rmtree(work, ignore_errors=True)
    if case['corpus'] == 'seeded' and not (stats['graphs'] and stats['rejected'] and stats['valid']):
        raise RuntimeError("atheris campaign from a seed corpus never reached an accepted / rejected text: {}".format(stats))
    labels = ['fuzz:{}/{}'.format(fmt, gtype), 'fuzz-corpus:' + case['corpus']]
    if stats['graphs']:
        labels.append('reached-accepted-graph')
    if stats['rejected']:
        labels.append('reached-rejection')
    if stats['valid']:
        labels.append('reached-valid-text')
    return Outcome(labels=labels + ['fuzz-execs:{}:{}/{}/{}'.format(stats['execs'], fmt, gtype, case['corpus']),
                                    'fuzz-accepted:{}:{}/{}/{}'.format(stats['graphs'], fmt, gtype, case['corpus']),
                                    'fuzz-corpus-size:{}:{}/{}/{}'.format(ncorpus, fmt, gtype, case['corpus'])],
                   nontrivial=stats['graphs'] > 0)


# ---------------------------------------------------------------------------

_PAIRS = ['{}/{}'.format(t, f) for t in R.TYPES for f in FORMATS[t]]

SUBCHECKS = [
    SubCheck('roundtrip', run_roundtrip, strategy=strat_roundtrip, enumerate_cases=enum_roundtrip,
             quick=2500, thorough=50000,
             rule="graphs of the four types with 0..14 vertices (10..14 in a third of the cases), random edge subsets of density 0, 1/2 .. 1/16 (isolated vertices, empty sides, loops and back edges for digraphs), default or generated one-line name, every format of supported_graph_formats() for the type, five routes: StringIO with explicit format / file name with the format taken from the extension and with explicit format / open file handle / Graph.from_file (name, name+format, handle+format) / command-line graph argument '<file>', '<format> <file>', '<format> -' (standard input) and 'save <file>' / 'save <format> <file>'; plus every simple graph and dag on <=4 vertices, digraph on <=3, bipartite graph with sides <=2 in every format through StringIO; oracle: class, vertex count, left/right split, list(edges()), number_of_edges(), is_dag() all as in the original, and (StringIO route, in-house formats) the written text means the same graph to the independent reference reader; non-trivial: >=1 edge and >=3 vertices",
             required_labels=_PAIRS + ['route:' + r for r in ROUTES] + ['>=10-vertices', 'isolated', 'empty-side',
                                                                       'null-graph', 'has-back-edge', 'self-loop',
                                                                       'named', 'last-vertex-isolated', 'written-text-valid']),
    SubCheck('readers_text', run_text, strategy=strat_text, enumerate_cases=enum_text,
             quick=20000, thorough=400000,
             rule="texts for kthlist (simple, digraph, dag, bipartite), dimacs (simple, digraph, dag) and matrix: written by the reference writers in several layouts from random graphs (0..14 vertices), optionally with an edge the type forbids, then 0..3 mutations (blank / whitespace / comment lines anywhere, truncation, deleted / duplicated / swapped lines, changed / deleted / inserted numbers, deleted / inserted characters, CR LF, int() spellings, indentation, continuation lines, unknown line types) or short random texts over the format's alphabet, plus the snippets of tests/ and of the documentation; oracle: independent reference reader (valid -> exactly that graph, invalid -> ValueError, gray -> either), never an exception other than ValueError, a text read as 'dag' is accepted only if all edges go upward; non-trivial: the text has a size line and at least one edge token. Thorough tier only: one atheris (libFuzzer, coverage of cnfgen.graphs) campaign per in-house reader and graph type, from an empty corpus and from a seed corpus (snippets of tests/ + reference-writer output), -runs={} each, max_len 160, in a sub-process with a fresh corpus directory under out/fuzz, the same oracle applied to every input inside the target".format(FUZZ_RUNS),
             required_labels=['{}/{}'.format(f, t) for t in R.TYPES for f in R.INHOUSE[t]] +
             ['blank-line', 'comment-line', 'rejected', 'dag-rejected', 'valid-accepted', 'ref:valid', 'ref:invalid',
              'ref:gray', '>=10-vertices', 'why:vertex-out-of-range', 'why:missing-terminator', 'why:self-loop',
              'why:edge-against-bipartition', 'why:dag-back-edge', 'why:wrong-edge-count',
              'why:vertex-lines-not-increasing', 'why:too-few-entries', 'why:too-many-entries',
              'why:no-size-line', 'mut:truncate']),
    SubCheck('nx_docs', run_nxdoc, strategy=strat_nxdoc,
             quick=2000, thorough=40000,
             rule="GML and DOT documents written by the harness's own writers (0..14 nodes, identifiers 1..n / 0..n-1 / with gaps / alphabetic, node statements in order or shuffled, quoted identifiers, labels, extra attributes, comments, one-line layout, undeclared nodes, either endpoint first for undirected edges, bipartite attribute); unmutated documents must be read exactly (numbering by increasing identifier; a dag document with a back edge must be rejected); a quarter of the documents get 1..3 text mutations and must give a graph or ValueError; non-trivial: >=1 edge and >=3 nodes",
             required_labels=['{}/{}'.format(t, f) for t in R.TYPES for f in ('gml', 'dot')] +
             ['exact', 'mutated', 'rejected', 'shuffled-nodes', '>=10-vertices', 'dag-rejected']),
]


# ---------------------------------------------------------------------------
# large graphs (size thresholds of buffers / block writers and readers); added after a seeded DIMACS
# formula writer change that only misbehaved above 4096 lines

def run_roundtrip_large(case):
    from cnfgen.graphs import Graph, DirectedGraph, BipartiteGraph, readGraph, writeGraph
    gtype, fmt, n, m = case['gtype'], case['fmt'], case['n'], case['m']
    x = case['salt']
    edges = set()
    if gtype == 'bipartite':
        L, Rr = n, n + 7
        G = BipartiteGraph(L, Rr)
        while len(edges) < min(m, L * Rr):
            x = (x * 1103515245 + 12345) & 0x7FFFFFFF
            u = x % L + 1
            v = (x >> 11) % Rr + 1
            if (u, v) not in edges:
                edges.add((u, v))
                G.add_edge(u, v)
    else:
        G = Graph(n) if gtype == 'simple' else DirectedGraph(n)
        while len(edges) < m:
            x = (x * 1103515245 + 12345) & 0x7FFFFFFF
            u = x % n + 1
            v = (x >> 11) % n + 1
            if u == v:
                continue
            if gtype != 'digraph':
                u, v = min(u, v), max(u, v)
            if (u, v) not in edges:
                edges.add((u, v))
                G.add_edge(u, v)
    want = sorted(edges)
    what = "{} graph with {} vertices and {} edges in {} format".format(gtype, G.number_of_vertices(), len(want), fmt)
    buf = io.StringIO()
    writeGraph(G, buf, gtype, fmt)
    text = buf.getvalue()
    H = readGraph(io.StringIO(text), gtype, fmt)
    if H.number_of_vertices() != G.number_of_vertices() or sorted(H.edges()) != want:
        raise Violation("{}: the round trip changes the graph ({} vertices, {} edges read back)".format(what, H.number_of_vertices(), H.number_of_edges()))
    if gtype == 'bipartite' and (H.left_order(), H.right_order()) != (G.left_order(), G.right_order()):
        raise Violation("{}: the sides change to ({},{})".format(what, H.left_order(), H.right_order()))
    if fmt in ('kthlist', 'dimacs', 'matrix'):
        # the written text, read by the reference reader, is the graph
        if fmt == 'matrix':
            rows = [l.split() for l in text.splitlines() if l.strip() and not l.startswith('#')]
            got = sorted((i, j + 1) for i, r in enumerate(rows[1:], start=1) for j, b in enumerate(r) if b == '1')
            if got != want or rows[0] != [str(G.left_order()), str(G.right_order())]:
                raise Violation("{}: the matrix text does not describe the graph".format(what))
        elif fmt == 'dimacs':
            es = sorted(tuple(int(t) for t in l.split()[1:3]) for l in text.splitlines() if l.startswith('e'))
            if gtype != 'digraph':
                es = sorted((min(a, b), max(a, b)) for a, b in es)
            if es != want:
                raise Violation("{}: the DIMACS text does not describe the graph ({} edge lines)".format(what, len(es)))
    d = tempfile.mkdtemp(prefix='c14L_')
    try:
        path = os.path.join(d, 'g.' + fmt)
        writeGraph(G, path, gtype, fmt)
        K = readGraph(path, gtype, fmt)
        if K.number_of_vertices() != G.number_of_vertices() or sorted(K.edges()) != want:
            raise Violation("{}: the round trip through a file changes the graph".format(what))
    finally:
        shutil.rmtree(d, ignore_errors=True)
    return Outcome(labels=[gtype, fmt, 'edges>=4096' if len(want) >= 4096 else 'edges<4096'], nontrivial=True)


def enum_roundtrip_large(tier):
    i = 0
    sizes = [(150, 4097), (300, 4096)] if tier == 'quick' else [(150, 4095), (150, 4096), (150, 4097), (300, 8193), (400, 20000)]
    for gtype, fmts in (('simple', ['kthlist', 'dimacs', 'gml']), ('digraph', ['kthlist', 'dimacs', 'gml']),
                        ('dag', ['kthlist', 'dimacs']), ('bipartite', ['kthlist', 'matrix', 'gml'])):
        for fmt in fmts:
            for n, m in sizes:
                i += 1
                if fmt == 'gml' and m > 9000:
                    continue
                yield {'gtype': gtype, 'fmt': fmt, 'n': n if gtype != 'bipartite' else max(70, n // 2), 'm': m, 'salt': i}


SUBCHECKS.append(
    SubCheck('roundtrip_large', run_roundtrip_large, enumerate_cases=enum_roundtrip_large,
             rule="pseudo-random simple/directed/acyclic/bipartite graphs with 150-400 vertices and 4095..20000 edges written and read back (StringIO and file) in kthlist, dimacs, matrix and gml; oracle: same vertices, sides and edges; in-house formats also parsed by the harness; non-trivial: all",
             required_labels=['edges>=4096', 'simple', 'bipartite', 'dag']))
