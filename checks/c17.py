"""C17 - a command line builds the same formula as the library call it stands for."""
import os
import random
import re

from hypothesis import strategies as st

from vlib.core import SubCheck, Violation, Outcome
from vlib import argv_gen, cli, catalog, names, tt
from vlib import graphs_gen as gg

PROPERTY = "C17"
ASSUMPTIONS = [
    "graph arguments are files written by the harness; the library side receives the same graph built through the public constructors",
    "'--seed s' is equivalent to random.seed(s) right before the library call (used for -T shuffle, pitfall, randkcnf, randkxor)",
    "sub-commands that draw their own graph (php M N D, tseitin N d, op N d, subsetcard N d, stone --sparse d, tseitin random*) are checked by recovering the drawn graph / charges from the variable names and clauses of the output and comparing with the library formula on that graph",
]


# seeds that are not exactly representable as a double, negative, zero
BIG_SEEDS = [2 ** 53 + 1, 2 ** 64 + 12345, 1718000000123456789, 9007199254740993, -7, 0]


def same_formula(A, B, what):
    if type(A).__name__ != type(B).__name__:
        raise Violation("{}: command line gives a {} object, the library call a {}".format(what, type(A).__name__, type(B).__name__))
    if A.number_of_variables() != B.number_of_variables():
        raise Violation("{}: {} variables from the command line, {} from the library".format(
            what, A.number_of_variables(), B.number_of_variables()))
    la, lb = list(A.all_variable_labels()), list(B.all_variable_labels())
    if la != lb:
        d = [(i + 1, x, y) for i, (x, y) in enumerate(zip(la, lb)) if x != y][:3]
        raise Violation("{}: variable names differ (id, cli, lib): {}".format(what, d))
    ra, rb = [list(r) for r in A], [list(r) for r in B]
    if ra != rb:
        i = next((i for i, (x, y) in enumerate(zip(ra, rb)) if x != y), min(len(ra), len(rb)))
        raise Violation("{}: clause lists differ ({} vs {} rows); first difference at row {}: cli {} lib {}".format(
            what, len(ra), len(rb), i, ra[i] if i < len(ra) else None, rb[i] if i < len(rb) else None))


# ---------------------------------------------------------------------------
# transformations

def t_strategy():
    return st.lists(st.sampled_from(
        [['none'], ['flip'], ['shuffle'], ['shuffle', '--no-polarity-flips'], ['shuffle', '--no-clauses-permutation', '--no-variables-permutation'],
         ['xor', '2'], ['or', '2'], ['maj', '3'], ['eq', '2'], ['neq', '2'], ['one', '2'], ['ite'], ['lift', '2'],
         ['atleast', '2', '1'], ['atmost', '3', '1'], ['exact', '2', '1'], ['anybut', '2', '2'], ['xorcompB'], ['majcompB']]),
        max_size=3)


def apply_t(F, t, Bcase):
    import cnfgen
    n = t[0]
    if n == 'none':
        return F
    if n == 'flip':
        return cnfgen.FlipPolarity(F)
    if n == 'shuffle':
        return cnfgen.Shuffle(F,
                              polarity_flips='fixed' if '--no-polarity-flips' in t else 'shuffle',
                              variables_permutation='fixed' if '--no-variables-permutation' in t else 'shuffle',
                              clauses_permutation='fixed' if '--no-clauses-permutation' in t else 'shuffle')
    k = int(t[1]) if len(t) > 1 and t[1].isdigit() else None
    table = {'xor': cnfgen.XorSubstitution, 'or': cnfgen.OrSubstitution, 'maj': cnfgen.MajoritySubstitution,
             'eq': cnfgen.AllEqualSubstitution, 'neq': cnfgen.NotAllEqualSubstitution, 'one': cnfgen.ExactlyOneSubstitution,
             'lift': cnfgen.FormulaLifting}
    if n in table:
        return table[n](F, k)
    if n == 'ite':
        return cnfgen.IfThenElseSubstitution(F)
    table2 = {'atleast': cnfgen.AtLeastKSubstitution, 'atmost': cnfgen.AtMostKSubstitution,
              'exact': cnfgen.ExactlyKSubstitution, 'anybut': cnfgen.AnythingButKSubstitution}
    if n in table2:
        return table2[n](F, int(t[1]), int(t[2]))
    if n in ('xorcompB', 'majcompB'):
        return cnfgen.VariableCompression(F, catalog.G_bip(Bcase), function='xor' if n == 'xorcompB' else 'maj')
    raise ValueError(n)


def chain_size_ok(F, chain):
    """Upper bound of the result size, computed before building (no watchdog)."""
    nclauses = len(F)
    width = max([len(c) for c in F] + [0])
    expanding = 0
    for t in chain:
        if t[0] in ('none', 'flip', 'shuffle'):
            continue
        expanding += 1
        per = {'xor': 2, 'or': 2, 'maj': 3, 'eq': 2, 'neq': 2, 'one': 3, 'ite': 2, 'lift': 2, 'atleast': 2, 'atmost': 3,
               'exact': 3, 'anybut': 3, 'xorcompB': 4, 'majcompB': 4}[t[0]]
        arity = {'maj': 3, 'atmost': 3, 'xorcompB': 3, 'majcompB': 3}.get(t[0], 2)
        nclauses = nclauses * (per ** width)
        width = width * arity
        if nclauses > 4000 or width > 24:
            return False
    return True


# ---------------------------------------------------------------------------

def run_equal(case):
    from cnfgen.formula.cnf import CNF
    from cnfgen.formula.opb import OPB
    from cnfgen.clitools.cmdline import CLIError
    f = catalog.FAMILIES[case['fam']]
    p = case['p']
    tool = case['tool']
    chain = case.get('chain', []) if tool == 'cnfgen' else []
    seed = case['seed']
    with catalog.Ctx() as ctx:
        random.seed(seed)
        Flib = f.lib(p, CNF if tool == 'cnfgen' else OPB)
        if not chain_size_ok(Flib, chain):
            chain = [t for t in chain if t[0] in ('none', 'flip', 'shuffle')]
        Bcase = None
        targs = []
        for t in chain:
            if t[0] in ('xorcompB', 'majcompB'):
                pass
        cur = Flib
        for t in chain:
            if t[0] in ('xorcompB', 'majcompB'):
                V = cur.number_of_variables()
                R = max(1, min(6, V))
                edges = [[u, ((u + j) % R) + 1] for u in range(1, V + 1) for j in range(min(2, R))]
                edges = sorted(set(map(tuple, edges)))
                Bcase = {'L': V, 'R': R, 'edges': [list(e) for e in edges]}
                targs += ['-T', t[0][:-1]] + catalog.bip_tokens(ctx, Bcase)
            else:
                targs += ['-T'] + t
            cur = apply_t(cur, t, Bcase)
        args = argv_gen.seed_tokens(seed, case.get('seedform', 0)) + case.get('outopts', []) + [f.name] + [str(x) for x in f.argv(p, ctx)] + targs
        try:
            Fcli = cli.build(tool, args)
        except CLIError as e:
            raise Violation("{} {}: the command line is refused although the library call succeeds: {}".format(
                tool, ' '.join(args), str(e).splitlines()[0]))
        same_formula(Fcli, cur, "{} {}".format(tool, ' '.join(args)))
        # the header tells how it was produced
        if tool == 'cnfgen':
            nt = len([t for t in chain if t[0] != 'none'])
            got = [k for k in Fcli.header if k.startswith('transformation ')]
            if got != ['transformation {}'.format(i) for i in range(1, nt + 1)]:
                raise Violation("{} {}: header transformation entries {} for a chain of {} steps".format(tool, ' '.join(args), got, nt))
    labels = [tool, f.name] + [a for a in args if a.startswith('--') and not a.startswith('--see')]
    if len(chain) >= 2:
        labels.append('chain>=2')
    for t in chain:
        labels.append('T:' + t[0])
    if f.name == 'iso' and p.get('G2'):
        labels.append('second-graph')
    return Outcome(labels=labels, nontrivial=len(chain) >= 1 or any(a.startswith('--') and not a.startswith('--see') for a in args[1:]))


@st.composite
def strat_equal(draw):
    inv = draw(catalog.invocations(deterministic_only=True))
    inv['tool'] = draw(st.sampled_from(['cnfgen', 'cnfgen', 'pbgen']))
    inv['chain'] = draw(t_strategy())
    inv['seed'] = draw(st.integers(0, 1000) | st.sampled_from(BIG_SEEDS))
    inv['seedform'] = draw(st.integers(0, 9)) % (2 * argv_gen.SEED_FORMS)
    inv['seedform'] = inv['seedform'] if inv['seedform'] < argv_gen.SEED_FORMS else 0
    inv['outopts'] = draw(st.sampled_from([[], ['-q'], ['-v'], ['--varnames'], ['-of', 'opb'], ['-of', 'latex']]))
    if inv['tool'] == 'pbgen' and inv['outopts'] == ['-of', 'dimacs']:
        inv['outopts'] = []
    return inv


def enum_equal(tier):
    """boundary graphs through every graph-taking sub-command: the null graph, one vertex, one edge, for each graph argument"""
    from cnfgen.formula.cnf import CNF
    S = [{'n': 0, 'edges': []}, {'n': 1, 'edges': []}, {'n': 2, 'edges': [[1, 2]]}, {'n': 3, 'edges': [[1, 3]]}]
    D = [{'n': 0, 'edges': []}, {'n': 1, 'edges': []}, {'n': 3, 'edges': [[1, 3], [2, 3]]}]
    Bp = [{'L': 1, 'R': 1, 'edges': []}, {'L': 1, 'R': 1, 'edges': [[1, 1]]}, {'L': 2, 'R': 1, 'edges': [[1, 1], [2, 1]]}]
    cands = []
    for g in S:
        g = dict(g, **{'as': 'cnfgen'})
        cands += [('kcolor', {'k': 2, 'G': g}), ('domset', {'d': 1, 'G': g, 'alternative': False}), ('domset', {'d': 2, 'G': g, 'alternative': True}),
                  ('tiling', {'G': g}), ('matching', {'G': g}), ('kclique', {'k': 2, 'G': g, 'nosym': False}), ('kclique', {'k': 0, 'G': g, 'nosym': True}),
                  ('kcliquebin', {'k': 2, 'G': g}), ('ramlb', {'k': 2, 's': 2, 'G': g}), ('op', {'G': g, 'flag': [], 'plant': False}),
                  ('op', {'G': g, 'flag': ['--total'], 'plant': True}), ('iso', {'G': g, 'G2': None})]
        if g['n'] >= 1:
            cands += [('tseitin', {'G': g, 'charge': c}) for c in ('first', 'zero', 'one')]
        for h in S:
            h = dict(h, **{'as': 'cnfgen'})
            cands += [('iso', {'G': g, 'G2': h}), ('subgraph', {'G': g, 'H': h})]
    for d in D:
        d = dict(d, **{'as': 'cnfgen'})
        cands += [('peb', {'D': d}), ('stone', {'s': 1, 'D': d}), ('stone', {'s': 2, 'D': d})]
    for b in Bp:
        b = dict(b, **{'as': 'cnfgen'})
        cands += [('php', {'B': b, 'functional': False, 'onto': False}), ('php', {'B': b, 'functional': True, 'onto': True}),
                  ('subsetcard', {'B': b, 'equal': False}), ('subsetcard', {'B': b, 'equal': True})]
    k = 0
    for name, p in cands:
        for i, f in enumerate(catalog.FAMILIES):
            if f.name != name or f.lib is None:
                continue
            try:
                f.lib(p, CNF)
            except KeyError:
                continue          # another form of the same sub-command
            except Exception:     # noqa: the library refuses this boundary value; the generated part covers refusals
                break
            for tool in ('cnfgen', 'pbgen'):
                k += 1
                yield {'fam': i, 'p': p, 'tool': tool, 'chain': [['shuffle']] if k % 4 == 0 else [], 'seed': k, 'outopts': [[], ['-q']][k % 2]}
            break


# ---------------------------------------------------------------------------
# seeded random families: --seed s == random.seed(s); library call

def run_seeded(case):
    import cnfgen
    from cnfgen.formula.cnf import CNF
    from cnfgen.formula.opb import OPB
    tool, name, a, seed = case['tool'], case['name'], case['args'], case['seed']
    cls = CNF if tool == 'cnfgen' else OPB
    from cnfgen.clitools.cmdline import CLIError
    random.seed(seed)
    try:
        if name == 'pitfall':
            Flib = cnfgen.PitfallFormula(*a, formula_class=cls)
        elif name == 'randkcnf':
            Flib = cnfgen.RandomKCNF(*a, formula_class=cls)
        else:
            Flib = cnfgen.RandomKXOR(*a, formula_class=cls)
    except ValueError:
        Flib = None
    try:
        Fcli = cli.build(tool, argv_gen.seed_tokens(seed, case.get('seedform', 0)) + [name] + [str(x) for x in a])
    except CLIError:
        Fcli = None
    if Flib is None or Fcli is None:
        if Flib is None and Fcli is None:
            return Outcome(labels=[tool, name, 'both-rejected'], rejected=True, nontrivial=False)
        raise Violation("{} --seed {} {} {}: command line {} but the library call {}".format(
            tool, seed, name, a, 'is refused' if Fcli is None else 'succeeds', 'raises ValueError' if Flib is None else 'succeeds'))
    same_formula(Fcli, Flib, "{} --seed {} {} {}".format(tool, seed, name, a))
    return Outcome(labels=[tool, name], nontrivial=True)


@st.composite
def strat_seeded(draw):
    name = draw(st.sampled_from(['pitfall', 'randkcnf', 'randkxor']))
    if name == 'pitfall':
        a = [draw(st.sampled_from([3, 4, 5])), 2, draw(st.integers(2, 3)), draw(st.integers(2, 3)), 2]
    else:
        k, n = draw(st.integers(1, 3)), draw(st.integers(3, 8))
        a = [k, n, draw(st.integers(0, 5))]
    return {'tool': draw(st.sampled_from(['cnfgen', 'pbgen'])), 'name': name, 'args': a, 'seed': draw(st.integers(0, 10 ** 6) | st.sampled_from(BIG_SEEDS)),
            'seedform': draw(st.integers(0, argv_gen.SEED_FORMS - 1))}


# ---------------------------------------------------------------------------
# sub-commands drawing their own graph: recover it from the output

def _edges_from_names(F, prefix, arity2=True):
    grp = names.group(names.decode(F), prefix)
    return sorted(grp)


def run_drawn(case):
    import cnfgen
    from cnfgen.formula.cnf import CNF
    from cnfgen.formula.opb import OPB
    tool, kind, seed = case['tool'], case['kind'], case['seed']
    cls = CNF if tool == 'cnfgen' else OPB
    p = case['p']
    with catalog.Ctx() as ctx:
        if kind == 'php':
            opts = (['--functional'] if p['functional'] else []) + (['--onto'] if p['onto'] else [])
            args = ['php', p['m'], p['n'], p['d']] + opts
            F = cli.build(tool, ['--seed', seed] + args)
            E = _edges_from_names(F, 'p')
            deg = {u: sum(1 for e in E if e[0] == u) for u in range(1, p['m'] + 1)}
            if any(d != p['d'] for d in deg.values()) or any(not (1 <= e[1] <= p['n']) for e in E) or len(E) != p['m'] * p['d']:
                raise Violation("{} {}: the drawn graph is not left-{}-regular on ({},{}) vertices: {}".format(tool, args, p['d'], p['m'], p['n'], E))
            Flib = cnfgen.GraphPigeonholePrinciple(catalog.G_bip({'L': p['m'], 'R': p['n'], 'edges': [list(e) for e in E]}),
                                                   functional=p['functional'], onto=p['onto'], formula_class=cls)
        elif kind in ('tseitinNd', 'tseitin-random'):
            if kind == 'tseitinNd':
                args = ['tseitin', p['N'], p['d']]
                n = p['N']
                want_parity = 1
            else:
                args = ['tseitin', p['charge']] + catalog.simple_tokens(ctx, p['G'])
                n = p['G']['n']
                want_parity = {'random': None, 'randomodd': 1, 'randomeven': 0}[p['charge']]
            F = cli.build(tool, ['--seed', seed] + args)
            E = _edges_from_names(F, 'E')
            if kind == 'tseitinNd':
                deg = {v: sum(1 for e in E if v in e) for v in range(1, n + 1)}
                if any(d != p['d'] for d in deg.values()):
                    raise Violation("{} {}: the drawn graph is not {}-regular: {}".format(tool, args, p['d'], E))
            elif E != sorted(tuple(e) for e in p['G']['edges']):
                raise Violation("{} {}: edge variables {} do not match the graph argument".format(tool, args, E))
            dec = names.group(names.decode(F), 'E')
            rows = set()
            for r in F:
                lits = [l for _, l in r[:-2]] if cls is OPB else r
                rows.add(frozenset(lits))
            charges = []
            incsets = [frozenset(e for e in E if v in e) for v in range(1, n + 1)]
            if len(set(incsets)) < n:
                # two vertices with the same incident edges (isolated vertices, a K2 component):
                # their charges cannot be told apart from the clauses
                return Outcome(labels=[tool, kind, 'ambiguous-charges'], nontrivial=False)
            for v in range(1, n + 1):
                inc = [dec[e] for e in E if v in e]
                charges.append(1 if frozenset(inc) in rows else 0)     # all-positive clause <=> odd charge
            if want_parity is not None and sum(charges) % 2 != want_parity:
                raise Violation("{} {}: total charge parity {} but {} was requested".format(tool, args, sum(charges) % 2, p.get('charge', 'odd')))
            Flib = cnfgen.TseitinFormula(catalog.G_simple({'n': n, 'edges': [list(e) for e in E]}), charges, formula_class=cls)
        elif kind == 'opNd':
            args = ['op'] + p['flag'] + (['--plant'] if p['plant'] else []) + [p['N'], p['d']]
            F = cli.build(tool, ['--seed', seed] + args)
            # the graph is visible in the non-minimality clauses: recover it from the first N clauses
            n = p['N']
            dec = names.group(names.decode(F), 'x')
            inv = {v: k for k, v in dec.items()}
            E = set()
            rows = [([l for _, l in r[:-2]] if cls is OPB else list(r)) for r in F]
            nmin = rows[:n - (1 if p['plant'] else 0)]
            for v, r in enumerate(nmin, start=1):
                for l in r:
                    a, b = inv[abs(l)]
                    u = a if b == v else b
                    E.add((min(u, v), max(u, v)))
            E = sorted(E)
            deg = {v: sum(1 for e in E if v in e) for v in range(1, n + 1)}
            if not p['plant'] and any(d != p['d'] for d in deg.values()):
                raise Violation("{} {}: the drawn graph is not {}-regular: {}".format(tool, args, p['d'], E))
            if p['plant']:
                return Outcome(labels=[tool, kind, 'planted-graph-not-recoverable'], nontrivial=False)
            Flib = cnfgen.GraphOrderingPrinciple(catalog.G_simple({'n': n, 'edges': [list(e) for e in E]}),
                                                 formula_class=cls, **catalog._op_kwargs(p))
        elif kind == 'subsetcardNd':
            args = ['subsetcard'] + (['--equal'] if p['equal'] else []) + [p['N'], p['d']]
            F = cli.build(tool, ['--seed', seed] + args)
            E = _edges_from_names(F, 'x')
            N, d = p['N'], p['d']
            if len(E) != N * d + 1 or any(not (1 <= a <= N and 1 <= b <= N) for a, b in E):
                raise Violation("{} {}: the drawn graph has {} edges, documented regular({},{},{}) plus one edge".format(tool, args, len(E), N, N, d))
            Flib = cnfgen.SubsetCardinalityFormula(catalog.G_bip({'L': N, 'R': N, 'edges': [list(e) for e in E]}), p['equal'], formula_class=cls)
        elif kind == 'tseitin-random-spread':
            # 'random' leaves the total charge to chance: over 16 seeds both parities must turn up, and the charge vectors must
            # not all be equal (a pattern that silently behaves like randomodd / randomeven / a fixed vector shows here)
            gtoks = catalog.simple_tokens(ctx, p['G'])
            n = p['G']['n']
            E0 = sorted(tuple(e) for e in p['G']['edges'])
            seen = set()
            for sd in range(16):
                F = cli.build(tool, ['--seed', sd, 'tseitin', 'random'] + gtoks)
                dec = names.group(names.decode(F), 'E')
                rows = set(frozenset(([l for _, l in r[:-2]] if cls is OPB else r)) for r in F)
                ch = tuple(1 if frozenset(dec[e] for e in E0 if v in e) in rows else 0 for v in range(1, n + 1))
                seen.add(ch)
            par = set(sum(c) % 2 for c in seen)
            if par != {0, 1}:
                raise Violation("{} tseitin random on {}: over the seeds 0..15 the total charge is always {}".format(
                    tool, p['G'], 'odd' if par == {1} else 'even'))
            if len(seen) < 4:
                raise Violation("{} tseitin random on {}: only {} different charge vectors over 16 seeds".format(tool, p['G'], len(seen)))
            return Outcome(labels=[tool, kind], nontrivial=True)
        else:   # stone --sparse
            args = ['stone', p['s']] + catalog.dag_tokens(ctx, p['D']) + ['--sparse', p['deg']]
            F = cli.build(tool, ['--seed', seed] + args)
            E = _edges_from_names(F, 'P')
            n = p['D']['n']
            deg = {v: sum(1 for e in E if e[0] == v) for v in range(1, n + 1)}
            if any(x != p['deg'] for x in deg.values()) or any(not 1 <= e[1] <= p['s'] for e in E):
                raise Violation("{} {}: stone availability graph is not left-{}-regular on {} stones: {}".format(tool, args, p['deg'], p['s'], E))
            Flib = cnfgen.SparseStoneFormula(catalog.G_dag(p['D']), catalog.G_bip({'L': n, 'R': p['s'], 'edges': [list(e) for e in E]}), formula_class=cls)
        same_formula(F, Flib, "{} --seed {} {}".format(tool, seed, ' '.join(map(str, args))))
    return Outcome(labels=[tool, kind], nontrivial=True)


@st.composite
def strat_drawn(draw):
    kind = draw(st.sampled_from(['php', 'tseitinNd', 'tseitin-random', 'opNd', 'subsetcardNd', 'stone', 'tseitin-random-spread']))
    B = st.booleans()
    if kind == 'php':
        n = draw(st.integers(2, 5))
        p = {'m': draw(st.integers(1, 6)), 'n': n, 'd': draw(st.integers(1, n - 1)), 'functional': draw(B), 'onto': draw(B)}
    elif kind == 'tseitinNd':
        N, d = draw(st.sampled_from([(4, 2), (4, 3), (5, 2), (6, 3), (5, 4), (3, 2), (8, 3), (7, 4)]))
        p = {'N': N, 'd': d}
    elif kind == 'tseitin-random':
        p = {'G': draw(catalog.simple_g(1, 7, 16)), 'charge': draw(st.sampled_from(['random', 'randomodd', 'randomeven']))}
    elif kind == 'tseitin-random-spread':
        # graphs whose vertices have pairwise different sets of incident edges, so that the charges can be read off the clauses
        p = {'G': draw(st.sampled_from([{'n': 4, 'edges': [[1, 2], [1, 3], [1, 4], [2, 3], [2, 4], [3, 4]], 'as': 'cnfgen'},
                                         {'n': 5, 'edges': [[1, 2], [2, 3], [3, 4], [4, 5], [1, 5]], 'as': 'cnfgen'},
                                         {'n': 6, 'edges': [[1, 2], [2, 3], [3, 4], [4, 5], [5, 6], [1, 6], [1, 4]], 'as': 'cnfgen'}]))}
    elif kind == 'opNd':
        N, d = draw(st.sampled_from([(4, 2), (4, 3), (5, 2), (3, 2), (6, 3), (5, 4)]))
        p = {'N': N, 'd': d, 'flag': draw(st.sampled_from(catalog.OPFLAGS)), 'plant': draw(B)}
    elif kind == 'subsetcardNd':
        N = draw(st.integers(2, 5))
        p = {'N': N, 'd': draw(st.integers(1, N - 1)), 'equal': draw(B)}
    else:
        s = draw(st.integers(2, 4))
        p = {'s': s, 'deg': draw(st.integers(1, min(2, s))), 'D': draw(catalog.dag_g(1, 4, 4))}
        if max([0] + [sum(1 for e in p['D']['edges'] if e[1] == v) for v in range(1, p['D']['n'] + 1)]) > 2:
            p['D'] = {'n': 3, 'edges': [[1, 3], [2, 3]], 'as': 'cnfgen'}
    return {'tool': draw(st.sampled_from(['cnfgen', 'pbgen'])), 'kind': kind, 'p': p, 'seed': draw(st.integers(0, 10 ** 5))}


# ---------------------------------------------------------------------------
# output options change the text only in the documented way; dimacs sub-command; kthlist2pebbling

_VARNAME = re.compile(r'^c varname (\d+) (.*)$')


def parse_dimacs(text):
    n = m = None
    clauses = []
    cur = []
    comments = []
    for line in text.splitlines():
        if line.startswith('c'):
            comments.append(line)
            continue
        if line.startswith('p'):
            _, fmt, n, m = line.split()
            n, m = int(n), int(m)
            continue
        for tok in line.split():
            x = int(tok)
            if x == 0:
                clauses.append(cur)
                cur = []
            else:
                cur.append(x)
    return n, m, clauses, comments


def run_text(case):
    """quiet/verbose/varnames on DIMACS output of cnfgen; kthlist2pebbling; cnfshuffle -q; dimacs sub-command"""
    from cnfgen.formula.cnf import CNF
    mode = case['mode']
    # 'process': the tool runs as a real process, its standard input is a pipe (cannot be rewound)
    RUN = cli.run_subprocess if case.get('process') else cli.run_main
    with catalog.Ctx() as ctx:
        if mode == 'options':
            f = catalog.FAMILIES[case['fam']]
            p = case['p']
            base = [f.name] + [str(x) for x in f.argv(p, ctx)]
            Flib = f.lib(p, CNF)
            opts = case['opts']
            r = cli.run_main('cnfgen', opts + base)
            what = "cnfgen {}".format(' '.join(opts + base))
        elif mode == 'options-opb':
            # the same options on OPB output: pbgen, or cnfgen -of opb
            from cnfgen.formula.opb import OPB
            from vlib import rd_opb
            f = catalog.FAMILIES[case['fam']]
            p = case['p']
            base = [f.name] + [str(x) for x in f.argv(p, ctx)]
            tool = case['tool']
            opts = case['opts']
            Flib = f.lib(p, OPB if tool == 'pbgen' else CNF)
            r = cli.run_main(tool, opts + ([] if tool == 'pbgen' else ['-of', 'opb']) + base)
            what = "{} {}".format(tool, ' '.join(opts + ([] if tool == 'pbgen' else ['-of', 'opb']) + base))
            if r.exc is not None or r.code != 0:
                raise Violation("{}: fails (exit {}, {!r}, stderr {!r})".format(what, r.code, r.exc, r.err[:300]))
            doc = rd_opb.read_opb(r.out)
            if doc.errors:
                raise Violation("{}: a printed line is neither a comment nor a constraint: {}".format(what, doc.errors[0]))
            if doc.declared_variables != Flib.number_of_variables() or doc.declared_constraints != len(doc.constraints):
                raise Violation("{}: the OPB text declares {} variables / {} constraints, the library formula has {} variables and the text {} constraints".format(
                    what, doc.declared_variables, doc.declared_constraints, Flib.number_of_variables(), len(doc.constraints)))
            n = Flib.number_of_variables()
            if n <= 18:
                rows = [[(c, -v if neg else v) for (c, v, neg) in terms] + ['==' if rel == '=' else rel, deg] for (terms, rel, deg) in doc.constraints]
                if tt.opb_tt(n, rows) != tt.formula_tt(Flib):
                    raise Violation("{}: the printed constraints are not equivalent to the library formula".format(what))
            quiet = '-q' in opts or '--quiet' in opts
            vn, other = {}, []
            for c in doc.comments:
                mm = re.match(r'^\* varname x([1-9][0-9]*) (.*)$', c)
                if mm:
                    vn[int(mm.group(1))] = mm.group(2)
                elif c.strip() != '*':
                    other.append(c)
            if quiet and other:
                raise Violation("{}: quiet output still contains header lines: {}".format(what, other[:2]))
            if not quiet and not any(c.startswith('* description:') for c in other):
                raise Violation("{}: verbose output lacks the header".format(what))
            labs = list(Flib.all_variable_labels())
            if '--varnames' in opts and vn != {i + 1: l for i, l in enumerate(labs)}:
                raise Violation("{}: '* varname' lines {} do not list the names {}".format(what, sorted(vn.items())[:3], labs[:3]))
            if '--varnames' not in opts and vn:
                raise Violation("{}: variable names printed although not asked for".format(what))
            return Outcome(labels=[mode, tool] + opts, nontrivial=len(doc.constraints) >= 1)
        elif mode == 'k2p':
            D = case['D']
            path = ctx.path('kthlist')
            catalog.write_digraph_kthlist(path, D['n'], D['edges'])
            text = open(path).read()
            opts = case['opts']
            targs = case['t']
            import cnfgen
            Flib = cnfgen.PebblingFormula(catalog.G_dag(D))
            if targs:
                Flib = apply_t(Flib, targs, None)
            if case['via'] == 'stdin':
                r = RUN('kthlist2pebbling', opts + targs, stdin_text=text)
            else:
                r = cli.run_main('kthlist2pebbling', opts + ['-i', path] + targs)
            r2 = cli.run_main('cnfgen', opts + ['peb', 'kthlist', path] + (['-T'] + targs if targs else []))
            what = "kthlist2pebbling {}".format(' '.join(opts + targs))
            if r2.code != 0 or r2.exc is not None:
                raise Violation("cnfgen peb on a harness-written kthlist file failed: {}".format(r2))
            a, b = parse_dimacs(r.out), parse_dimacs(r2.out)
            if a[:3] != b[:3]:
                raise Violation("{}: differs from 'cnfgen peb' on the same file: {} vs {}".format(what, a[:3], b[:3]))
        elif mode == 'dimacs':
            F0 = case['F']
            path = ctx.path('cnf')
            with open(path, 'w') as fh:
                fh.write("c a comment\np cnf {} {}\n".format(F0['n'], len(F0['clauses'])))
                for c in F0['clauses']:
                    fh.write(" ".join(map(str, c + [0])) + "\n")
            Flib = CNF()
            Flib.update_variable_number(F0['n'])
            for c in F0['clauses']:
                Flib.add_clause(c)
            opts = case['opts']
            if case['via'] == 'stdin':
                r = RUN('cnfgen', opts + ['dimacs'], stdin_text=open(path).read())
            else:
                r = cli.run_main('cnfgen', opts + ['dimacs', path])
            what = "cnfgen {} dimacs".format(' '.join(opts))
        else:   # cnfshuffle with everything switched off: quiet/verbose only
            F0 = case['F']
            text = "p cnf {} {}\n".format(F0['n'], len(F0['clauses'])) + "".join(" ".join(map(str, c + [0])) + "\n" for c in F0['clauses'])
            Flib = CNF()
            Flib.update_variable_number(F0['n'])
            for c in F0['clauses']:
                Flib.add_clause(c)
            opts = case['opts']
            r = RUN('cnfshuffle', ['-p', '-v', '-c'] + opts, stdin_text=text)
            what = "cnfshuffle -p -v -c {}".format(' '.join(opts))
        if r.exc is not None or r.code != 0:
            raise Violation("{}: fails (exit {}, {!r}, stderr {!r})".format(what, r.code, r.exc, r.err[:300]))
        n, m, clauses, comments = parse_dimacs(r.out)
        if n != Flib.number_of_variables() or clauses != [list(c) for c in Flib] or m != len(clauses):
            raise Violation("{}: the DIMACS text ({} vars, {} clauses) is not the library formula ({} vars, {} clauses)".format(
                what, n, len(clauses), Flib.number_of_variables(), len(Flib)))
        quiet = '-q' in opts or '--quiet' in opts
        allowed = (lambda c: c.strip() == 'c' or _VARNAME.match(c)) if '--varnames' in opts else (lambda c: False)
        if quiet and [c for c in comments if not allowed(c)]:
            raise Violation("{}: quiet output still contains header lines: {}".format(what, [c for c in comments if not allowed(c)][:2]))
        if not quiet and not any(c.startswith('c description:') for c in comments):
            raise Violation("{}: verbose output lacks the header".format(what))
        if '--varnames' in opts:
            vn = {}
            for c in comments:
                mm = _VARNAME.match(c)
                if mm:
                    vn[int(mm.group(1))] = mm.group(2)
            labs = list(Flib.all_variable_labels())
            if vn != {i + 1: l for i, l in enumerate(labs)}:
                raise Violation("{}: 'c varname' lines {} do not list the names {}".format(what, sorted(vn.items())[:3], labs[:3]))
    return Outcome(labels=[mode] + opts + ([case['via']] if 'via' in case else []) + (['real-process'] if case.get('process') else []), nontrivial=len(clauses) >= 1)


def enum_text(tier):
    """the stdin-reading modes as real processes (stdin is a pipe)"""
    D = {'n': 4, 'edges': [[1, 3], [2, 3], [3, 4]], 'as': 'cnfgen'}
    F = {'n': 3, 'clauses': [[1, -2], [2, 3], [-1, -3, 2]]}
    for opts in ([], ['-q']):
        for t in ([], ['xor', '2']):
            yield {'mode': 'k2p', 'D': D, 'opts': opts, 't': t, 'via': 'stdin', 'process': True}
        yield {'mode': 'dimacs', 'F': F, 'opts': opts, 'via': 'stdin', 'process': True}
        yield {'mode': 'cnfshuffle', 'F': F, 'opts': opts, 'process': True}


@st.composite
def strat_text(draw):
    mode = draw(st.sampled_from(['options', 'options', 'options-opb', 'k2p', 'dimacs', 'cnfshuffle']))
    small = st.builds(lambda n, cl: {'n': n, 'clauses': [[l for l in c if abs(l) <= n] for c in cl]},
                      st.integers(1, 5),
                      st.lists(st.lists(st.integers(-5, 5).filter(lambda x: x != 0), max_size=3), max_size=5))
    if mode == 'options':
        inv = draw(catalog.invocations(deterministic_only=True))
        inv['mode'] = mode
        inv['opts'] = draw(st.sampled_from([[], ['-q'], ['-v'], ['--varnames'], ['-q', '--varnames'], ['-of', 'dimacs'], ['--quiet']]))
        return inv
    if mode == 'options-opb':
        inv = draw(catalog.invocations(deterministic_only=True))
        inv['mode'] = mode
        inv['tool'] = draw(st.sampled_from(['pbgen', 'cnfgen']))
        inv['opts'] = draw(st.sampled_from([[], ['-q'], ['-v'], ['--varnames'], ['-q', '--varnames'], ['-q', '--varnames'], ['--quiet']]))
        return inv
    if mode == 'k2p':
        return {'mode': mode, 'D': draw(catalog.dag_g(1, 7, 12)), 'opts': draw(st.sampled_from([[], ['-q']])),
                't': draw(st.sampled_from([[], ['xor', '2'], ['or', '2'], ['flip'], ['none'], ['lift', '2']])),
                'via': draw(st.sampled_from(['stdin', 'file']))}
    if mode == 'dimacs':
        return {'mode': mode, 'F': draw(small), 'opts': draw(st.sampled_from([[], ['-q']])), 'via': draw(st.sampled_from(['stdin', 'file']))}
    return {'mode': mode, 'F': draw(small), 'opts': draw(st.sampled_from([[], ['-q']]))}


NAMES = sorted(set(f.name for f in catalog.FAMILIES if f.lib is not None))

SUBCHECKS = [
    SubCheck('equal', run_equal, strategy=strat_equal, enumerate_cases=enum_equal, quick=900, thorough=50000,
             rule="enumerated: every graph-taking sub-command on boundary graphs (null graph, one vertex, one edge; every pair of them for iso -e and subgraph; empty / one-vertex / three-vertex dags; 1x1 and 2x1 bipartite graphs) through both tools; generated: every deterministic sub-command of the catalogue with every option, graph arguments as harness-written files, for cnfgen (with -T chains of length 0..3: every substitution, lifting, flip, none, shuffle variants, xor/maj compression with an explicit graph; chain size bounded by construction) and pbgen; oracle: cli(mode='formula') has the same class, variable count, names and row list as the library call (transformations applied left to right under the same seed), and one 'transformation i' header entry per step; non-trivial: an option or a chain",
             required_labels=NAMES + ['pbgen', 'cnfgen', 'chain>=2', 'second-graph', '--functional', '--onto', '--alternative',
                                      '--plant', '--total', '--smart', '--knuth2', '--knuth3', '--equal', '--no-symmetry-breaking',
                                      'T:shuffle', 'T:xorcompB', 'T:lift', 'T:ite']),
    SubCheck('seeded', run_seeded, strategy=strat_seeded, quick=150, thorough=6000,
             rule="pitfall, randkcnf, randkxor with --seed s versus the library generator after random.seed(s), both tools; oracle: identical formulas",
             required_labels=['pitfall', 'randkcnf', 'randkxor', 'pbgen']),
    SubCheck('drawn', run_drawn, strategy=strat_drawn, quick=300, thorough=12000,
             rule="php M N D, tseitin N d, tseitin random|randomodd|randomeven G, op N d, subsetcard N d, stone s D --sparse d; 'tseitin random G' over the seeds 0..15 (both parities of the total charge and at least 4 different charge vectors must occur); oracle: the graph / charges recovered from names and clauses have the documented shape (regularity, sizes, parity) and the formula equals the library formula on them",
             required_labels=['php', 'tseitinNd', 'tseitin-random', 'opNd', 'subsetcardNd', 'stone', 'tseitin-random-spread']),
    SubCheck('text', run_text, strategy=strat_text, enumerate_cases=enum_text, quick=500, thorough=20000,
             rule="cnfgen -q/-v/--varnames on DIMACS output, the same options (alone and together) on the OPB text of pbgen and of cnfgen -of opb (read by the harness's OPB reader), 'cnfgen dimacs' (file and stdin), kthlist2pebbling (stdin and -i, with a transformation) versus 'cnfgen peb', cnfshuffle with all permutations off; the stdin-reading ones also as real processes fed through a pipe (enumerated); oracle: the printed clauses are the library formula, -q prints no comment line, verbose prints the header, --varnames lists the names",
             required_labels=['options', 'options-opb', 'k2p', 'dimacs', 'cnfshuffle', '-q', '--varnames', 'stdin', 'file']),
]


# ---------------------------------------------------------------------------
# graph constructions with 'save': the formula is built on the very graph that was stored

def _read_kthlist(text):
    n = None
    edges = []
    for line in text.splitlines():
        if not line.strip() or line.startswith('c'):
            continue
        if ':' not in line:
            n = int(line.strip())
            continue
        v, rest = line.split(':')
        preds = [int(t) for t in rest.split()]
        assert preds[-1] == 0
        for u in preds[:-1]:
            edges.append([u, int(v)])
    return n, edges


def _read_matrix(text):
    rows = [l.split() for l in text.splitlines() if l.strip() and not l.lstrip().startswith('#')]
    L, R = int(rows[0][0]), int(rows[0][1])
    flat = [b for r in rows[1:] for b in r]
    edges = [[i // R + 1, i % R + 1] for i, b in enumerate(flat) if b == '1']
    return L, R, edges


def run_saved(case):
    import cnfgen
    from cnfgen.formula.cnf import CNF
    from cnfgen.formula.opb import OPB
    from cnfgen.clitools.cmdline import CLIError
    tool, name, pre, spec, seed = case['tool'], case['name'], case['pre'], case['spec'], case['seed']
    cls = CNF if tool == 'cnfgen' else OPB
    with catalog.Ctx() as ctx:
        gtype = case['gtype']
        path = ctx.path('matrix' if gtype == 'bipartite' else 'kthlist')
        save = ['save', 'matrix' if gtype == 'bipartite' else 'kthlist', path]
        mods = [i for i, t in enumerate(spec) if t in ('plantclique', 'plantbiclique', 'addedges', 'splitedges')]
        at = len(spec)
        if case.get('save_at') == 'first' and mods:
            at = mods[0]                 # the options of a graph argument may come in any order: what is saved is the graph used
        elif case.get('save_at') == 'second' and len(mods) >= 2:
            at = mods[1]
        args = ['--seed', str(seed), name] + pre + spec[:at] + save + spec[at:] + case.get('post', [])
        try:
            F = cli.build(tool, args)
        except CLIError:
            return Outcome(rejected=True, nontrivial=False, labels=['rejected', name])
        what = "{} {}".format(tool, ' '.join(args))
        if not os.path.isfile(path):
            raise Violation("{}: 'save' did not write the graph".format(what))
        text = open(path).read()
        if gtype == 'bipartite':
            L, R, edges = _read_matrix(text)
            G = catalog.G_bip({'L': L, 'R': R, 'edges': edges})
        elif gtype == 'dag':
            n, edges = _read_kthlist(text)
            G = catalog.G_dag({'n': n, 'edges': edges})
        else:
            n, edges = _read_kthlist(text)
            G = catalog.G_simple({'n': n, 'edges': edges})
        k = int(pre[-1]) if pre and pre[-1].lstrip('-').isdigit() else None
        if name == 'kcolor':
            Flib = cnfgen.GraphColoringFormula(G, k, formula_class=cls)
        elif name == 'tiling':
            Flib = cnfgen.Tiling(G, formula_class=cls)
        elif name == 'matching':
            Flib = cnfgen.PerfectMatchingPrinciple(G, formula_class=cls)
        elif name == 'tseitin':
            Flib = cnfgen.TseitinFormula(G, [1] + [0] * (G.order() - 1), formula_class=cls)
        elif name == 'kclique':
            Flib = cnfgen.CliqueFormula(G, k, formula_class=cls)
        elif name == 'domset':
            Flib = cnfgen.DominatingSet(G, k, formula_class=cls)
        elif name == 'op':
            Flib = cnfgen.GraphOrderingPrinciple(G, formula_class=cls)
        elif name == 'iso':
            Flib = cnfgen.GraphAutomorphism(G, formula_class=cls)
        elif name == 'php':
            Flib = cnfgen.GraphPigeonholePrinciple(G, formula_class=cls)
        elif name == 'subsetcard':
            Flib = cnfgen.SubsetCardinalityFormula(G, formula_class=cls)
        elif name == 'peb':
            Flib = cnfgen.PebblingFormula(G, formula_class=cls)
        else:
            Flib = cnfgen.StoneFormula(G, k, formula_class=cls)
        same_formula(F, Flib, what)
    labels = [tool, name, 'saved'] + [t for t in spec if t in ('plantclique', 'addedges', 'splitedges', 'plantbiclique')]
    if at < len(spec):
        labels.append('save-before-a-modifier')
    return Outcome(labels=labels, nontrivial=len(F) >= 2)


@st.composite
def strat_saved(draw):
    from vlib import argv_gen
    name = draw(st.sampled_from(['kcolor', 'tiling', 'matching', 'tseitin', 'kclique', 'domset', 'op', 'iso', 'php', 'subsetcard', 'peb', 'stone']))
    pre = {'kcolor': [str(draw(st.integers(1, 3)))], 'tseitin': ['first'], 'kclique': [str(draw(st.integers(0, 3)))],
           'domset': [str(draw(st.integers(1, 2)))], 'stone': [str(draw(st.integers(1, 2)))]}.get(name, [])
    if name in ('php', 'subsetcard'):
        gtype, spec = 'bipartite', draw(argv_gen.bipartite_spec())
    elif name in ('peb', 'stone'):
        gtype = 'dag'
        spec = draw(argv_gen.dag_spec()) if name == 'peb' else draw(st.sampled_from([['path', '2'], ['path', '3'], ['tree', '1'], ['pyramid', '1']]))
    else:
        gtype, spec = 'simple', draw(argv_gen.simple_spec(nmax=5 if name in ('op', 'iso') else 6))
    if name in ('op', 'iso') and spec[0] == 'gnp' and len(spec) > 3 and spec[3].isdigit():
        pass
    return {'tool': draw(st.sampled_from(['cnfgen', 'pbgen'])), 'name': name, 'pre': pre, 'gtype': gtype, 'spec': spec,
            'seed': draw(st.integers(0, 10 ** 5)), 'save_at': draw(st.sampled_from(['last', 'last', 'first', 'second']))}


SUBCHECKS.append(
    SubCheck('saved', run_saved, strategy=strat_saved, quick=500, thorough=20000,
             rule="twelve graph-taking sub-commands with random and deterministic graph constructions plus every modifier (plantclique, plantbiclique, addedges, splitedges) and 'save <format> <file>' written last or, in half of the cases, before the first or second modifier; oracle: the saved file, read by the harness's own reader, is the graph the formula was built on: the tool's formula equals the library formula on that graph; non-trivial: >=2 rows",
             required_labels=['saved', 'splitedges', 'addedges', 'plantclique', 'plantbiclique', 'php', 'peb', 'save-before-a-modifier']))
